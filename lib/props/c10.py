"""C10 — dispatch_apply.  Model/Apply.v: thread-count arithmetic + path decision of dispatch_apply_f, the width
reservation of _dispatch_apply_redirect over a chain of queues (around the generated
_dispatch_queue_try_reserve_apply_width), _dispatch_apply_serial, and the thread automaton / global model of
_dispatch_apply_invoke2 (Gen_apply: generated)."""
import common
import conc
import driver

PROPERTIES_FILE = "Properties/Properties_C10.v"
COQ_DEPS = ["Proofs/Apply_proofs.vo", "Proofs/Apply_measure.vo", "Proofs/ApplyR_proofs.vo", "Proofs/ApplyRoot_proofs.vo"]
GEN_MODULES = ["Gen_apply", "Gen_rootq"]
LEVEL = "proof"
TRUSTED = [
    "Model/Apply.v is hand-written control flow around generated pieces (the whole of _dispatch_queue_try_reserve_apply_width, "
    "width constants, atomic-site lists of _dispatch_apply_invoke2 / _dispatch_apply_redirect / _dispatch_queue_relinquish_width / "
    "_dispatch_thread_event_wait_slow from Gen_apply). Ties: (a) site-list equalities checked by Coq; (b) differential run of the "
    "redirect / relinquish arithmetic: every atomic operation src/apply.c performs on the dq_state words of real queue chains "
    "(values included), the path taken, the final da_thr_cnt and the states during the apply are compared with the model; "
    "(c) per-participant trace conformance: every recorded run of _dispatch_apply_invoke2 (operations on da_index, da_todo, "
    "da_event, da_thr_cnt with the values seen) must be accepted by Apply.tstep",
    "atomicity: each os_atomic_* operation is one step; sequentially consistent interleaving (memory orders are compared with "
    "the source through the site lists, their strength is the subject of C05)",
    "the model lets a participant enter invoke2 only while fewer than T have entered, i.e. each of the T-1 helper continuations "
    "pushed by _dispatch_apply_f is invoked at most once. This is argued, not proved as one theorem (no statement mentions both "
    "Apply.parts and RootQ.hpop), from the root-queue model: C01_root_pop_unique "
    "(Properties_C01_root.v: the k-th dequeue is the k-th push, no double dequeue) + C10_helper_batch_push_is_rootq_run "
    "(Proofs/ApplyRoot_proofs.v): RootQ models single-item pushes while dispatch_apply pushes its T-1 continuations as one "
    "pre-linked batch (one tail exchange, one link store); the theorem shows both shared states of the batch push are reachable "
    "RootQ states (T-1 single pushes back to back, the first pusher's link store last) with the same list / chain / push history, "
    "so the limit does not matter for at-most-once. Not carried over: the batch's poke (one request for T-1 workers), which only "
    "affects how many helpers wake (no C10 theorem needs a helper to run); still trusted: the worker that dequeued a "
    "continuation calls it once (_dispatch_continuation_pop), and the replay checks on every recorded round that at most T "
    "runs of invoke2 touch a record",
    "a participant = one run of _dispatch_apply_invoke2; the work function returns; nested applies are separate instances of the "
    "same model on their own record",
    "global tie: every recorded round (all participants of one dispatch_apply) is replayed as a run of Apply.gstep itself "
    "(Model/ApplyR.v: sched takes an action only if enabled in the model with the recorded outcome; C10_replay_reach), the order "
    "comes from the recorder's stamps made consistent with the exact chains of da_index / da_todo / da_thr_cnt / the event word; "
    "a wrong order can only make a replay fail; the executable invariant inv_b (C10_inv_b_reach) is evaluated on every state "
    "passed for rounds of at most 700 actions and on the end state only for larger rounds; rounds beyond the action budget of the "
    "tier are not replayed (counted in rounds_not_selected_budget)",
    "the apply record is freed at most once (C10_record_freed_once) and exactly once iff all T participants ran "
    "(C10_nothing_enabled_record); with a helper that never starts it is not freed",
    "the width theorem is about one apply on an otherwise quiescent chain (no concurrent change of the dq_state words between "
    "the reservation and the relinquish); dispatch_sync_f's own width unit is part of the state the theorem quantifies over",
    "kernel: futex_wait may return spuriously (each such return costs at most 3 more steps, C10_every_step_pays), FUTEX_WAKE "
    "wakes the sleeper; a caller asleep in futex_wait is blocked until then; no CAS loop occurs in the protocol, so no "
    "assumption about repeated CAS failure is made",
    "nested applies: no model of two records at once; each record is an instance of the one-record model with an opaque work "
    "function (see the header of Properties_C10.v for which theorem covers which part of the nested case)",
]
ASSUMPTIONS = ["client-side bound: iterations <= 2^64 - 2^31, which with the code's own thread count (C10_path_valid_params) gives "
               "iterations + da_thr_cnt < 2^64, the explicit premise valid_params of every protocol theorem; for larger n the size_t "
               "da_index would wrap after more than 1.8e19 callouts have run (not reachable, not demonstrable on the library)",
               "termination is a bound on the steps of the model's executions (C10_execution_bound: Phi = 3n + 6T + 5 initially, "
               "+3 per spurious futex_wait return); that every participant which can step eventually does is the scheduler's "
               "fairness, and that the work function returns is the client's",
               "Linux configuration: thread event = futex word (HAVE_FUTEX), non-introspection build (da_dc on the caller's stack)"]

INTERVAL = 1 << 41
import os as _os
TAG = "c10p%d" % _os.getpid()          # names under .cache/cases are private to this check process


def run_retry(cmd, timeout, input=None):
    """a wall-clock limit never decides by itself: on expiry the unit is re-run once, alone, with 10x the limit"""
    r = common.run(cmd, timeout=timeout, input=input)
    if r.returncode == 124:
        r = common.run(cmd, timeout=timeout * 10, input=input)
    return r


def coq_eval_r(name, imports, body, timeout=900):
    """driver.coq_eval; a timeout (or a kill under load) is retried once in isolation with 10x the limit; a Coq error is
    an error at once"""
    ok, vals, raw = driver.coq_eval("%s_%s" % (TAG, name), imports, body, timeout=timeout)
    if not ok and ("TIMEOUT" in raw or "Error:" not in raw):
        ok, vals, raw = driver.coq_eval("%s_%s_retry" % (TAG, name), imports, body, timeout=timeout * 10)
    return ok, vals, raw


def cleanup_cases():
    """the pid-tagged evaluation files of this process (.v/.vo/.glob ...) are scratch: remove them"""
    import glob
    for f in glob.glob(_os.path.join(common.CACHE, "cases", TAG + "_*")) + glob.glob(_os.path.join(common.CACHE, "cases", "." + TAG + "_*")):
        try:
            _os.remove(f)
        except OSError:
            pass


def harness_complete(r):
    """the harness prints END <rc> after its dump: anything else is a truncated output"""
    tail = (r.stdout or "")[-40:]
    return r.returncode == 0 and "\nEND 0" in ("\n" + tail)


# ---------------------------------------------------------------------------------------------- harness
def build(ctx):
    exe, msg = common.build_harness("c10_apply", ["c10_apply.c"], whitebox=True, extra=["-I" + common.VERIF + "/harness"])
    if exe is None:
        raise RuntimeError("harness build failed: " + msg)
    return exe


# ---------------------------------------------------------------------------------------------- width cases
FIXED_CASES = [
    # (n, cpus, nest, onself, widths, blockers)  -- corpus: the seeded defect's shape first (lower level grants less)
    (64, 16, 0, 0, [16, 15], [0, 0]), (64, 16, 0, 0, [16, 9], [0, 0]), (64, 16, 0, 0, [16, 12], [0, 0]),
    (64, 16, 0, 0, [8, 4, 6], [0, 0, 0]), (10, 16, 0, 0, [16, 1], [0, 0]), (64, 16, 0, 0, [16, 12], [3, 4]),
    (64, 8, 3, 0, [16, 12], [0, 0]), (5, 16, 0, 1, [16], [0]), (0, 16, 0, 0, [16], [0]), (64, 16, 0, 0, [16, 12], [0, 11]),
    (64, 24, 0, 0, [32, 20, 9, 17], [0, 0, 0, 0]), (1, 16, 0, 0, [16, 4], [0, 0]), (2, 16, 0, 0, [16, 4], [0, 0]),
    (64, 16, 0, 0, [1, 8], [0, 0]), (64, 2, 0, 0, [8, 8], [0, 0]), (64, 1, 0, 0, [8, 8], [0, 0]), (64, 16, 20, 0, [8, 3], [0, 0]),
    (64, 16, 0, 0, [2, 9], [0, 0]), (64, 16, 0, 0, [9, 2], [0, 0]), (64, 16, 0, 0, [16, 16, 16, 16], [0, 0, 0, 0]),
]


def gen_cases(ctx, count):
    rng = ctx.rng
    cases = list(FIXED_CASES)
    wchoices = [2, 3, 4, 5, 8, 9, 12, 15, 16, 17, 20, 32]
    while len(cases) < count:
        nlev = rng.choice([1, 2, 2, 2, 3, 3, 4])
        ws = [1 if rng.chance(1, 9) else rng.choice(wchoices) for _ in range(nlev)]
        bs, cum = [], 0
        for k in range(nlev):
            below = ws[k:]
            if any(w == 1 for w in below):
                bs.append(0)
                continue
            room = min(w - 1 for w in below) - cum
            if room <= 0 or rng.chance(1, 2):
                b = 0
            else:
                b = rng.choice([room, room - 1, 1, rng.range(0, room)])
                b = max(0, min(room, b))
            bs.append(b)
            cum += b
        cpus = rng.choice([1, 2, 3, 4, 8, 15, 16, 16, 17, 24, 40])
        n = rng.choice([0, 1, 2, 3, max(cpus - 1, 1), cpus, cpus + 1, 64, 64, 200])
        nest = 0 if rng.chance(3, 4) else rng.choice([2, 3, 5, 20])
        onself = 0
        if nest == 0 and all(w >= 3 for w in ws) and rng.chance(1, 8):
            room = min(w - 1 for w in ws) - cum
            if room >= 2:
                onself = 1
        cases.append((n, cpus, nest, onself, ws, bs))
    return cases


def run_width(ctx, exe, cases, permille):
    inp = "".join("%d %d %d %d %d %d %s %s\n" % (i, c[0], c[1], c[2], c[3], len(c[4]), " ".join(map(str, c[4])), " ".join(map(str, c[5])))
                  for i, c in enumerate(cases))
    r = run_retry([exe, "width", str(ctx.seed), str(permille)], 600, input=inp)
    return r


def parse_width(text):
    other, per = conc.parse_dump(text)
    res, hang = {}, None
    for l in other:
        f = l.split()
        if f[0] == "HANG":
            hang = l
        if f[0] != "C":
            continue
        d = res.setdefault(int(f[1]), {})
        if f[2] in ("pre", "during", "post", "widths"):
            d[f[2]] = [int(x) for x in f[3:] if "=" not in x]
            for x in f[3:]:
                if "=" in x:
                    d[x.split("=")[0]] = int(x.split("=")[1])
        elif f[2] in ("oracle", "end"):
            d[f[2]] = True
            for x in f[3:]:
                if "=" in x:
                    d[x.split("=")[0]] = int(x.split("=")[1])
        elif f[2] == "begin":
            d["begin"] = True
    # caller-thread window of every case
    for thr, evs in per.items():
        cur = None
        for e in evs:
            if e.kind == 100:
                cur = res.setdefault(e.obj, {})
                cur["call_seq"], cur["ops"], cur["base"], cur["thr"] = e.seq, [], None, thr
            elif e.kind == 101 and cur is not None:
                cur["ret_seq"] = e.seq
                cur = None
            elif cur is not None:
                if e.obj >= 2000:
                    cur["ops"].append(e)
                elif e.kind == 6 and e.order == 2 and e.off == 8 and cur["base"] is None and e.obj >= 0:
                    cur["base"] = e.obj
    for d in res.values():
        if d.get("base") is not None and "ret_seq" in d:
            olds = [e.a for evs in per.values() for e in evs
                    if e.kind == 7 and e.off == 48 and e.obj == d["base"] and d["call_seq"] < e.seq < d["ret_seq"]]
            d["thr_final"] = max(olds) if olds else None
    return res, hang, per


def coq_width(cases, res):
    """model prediction for every case that ran: returns list of (hdr, ops, states)"""
    items = []
    for i, c in enumerate(cases):
        d = res.get(i, {})
        if "widths" not in d or "pre" not in d:
            items.append(None)
            continue
        entry = list(d["pre"])
        for e in d.get("ops", []):
            k = e.obj - 2000
            if k < len(entry) and not d.setdefault("seen", {}).get(k):
                d["seen"][k] = True
                entry[k] = e.a
        d["entry"] = entry
        lv = "[" + "; ".join("mkLevel %d %d" % (w, s) for w, s in zip(d["widths"], entry)) + "]"
        items.append("flat (width_case %d %d %d %s %s)" % (c[0], c[1], c[2], "true" if c[3] else "false", lv))
    body = ["Definition flat (r : list Z * list (list Z) * list Z) : list Z :=",
            "  let '(h, ops, st) := r in [Z.of_nat (length h)] ++ h ++ [Z.of_nat (length ops)] ++ concat ops ++ [Z.of_nat (length st)] ++ st.",
            "Eval vm_compute in [" + ";\n".join(x for x in items if x) + "]."]
    ok, vals, raw = coq_eval_r("width", ["Word", "Conc", "Gen_apply", "Apply"], "\n".join(body) + "\n", timeout=900)
    if not ok or len(vals) != 1:
        raise RuntimeError("coq evaluation of the width model failed: " + raw[-2000:])
    xs = driver.ints(vals[0])
    out, p = [], 0
    for it in items:
        if it is None:
            out.append(None)
            continue
        nh = xs[p]; hdr = xs[p + 1:p + 1 + nh]; p += 1 + nh
        no = xs[p]; ops = [tuple(xs[p + 1 + 4 * j:p + 5 + 4 * j]) for j in range(no)]; p += 1 + 4 * no
        ns = xs[p]; st = xs[p + 1:p + 1 + ns]; p += 1 + ns
        out.append((hdr, ops, st))
    return out


def judge_width(cases, res, model, hang, label, permille=0):
    mism, fails, stats = [], [], {"width_cases": 0, "path_return": 0, "path_serial": 0, "path_redirect_serial": 0,
                                  "path_redirect_parallel": 0, "partial_grant": 0, "relinquish_ops": 0, "cas_retries": 0,
                                  "skipped": 0, "width_nested": 0, "with_blockers": 0}
    for i, c in enumerate(cases):
        d = res.get(i, {})
        desc = {"case": i, "n": c[0], "cpus": c[1], "nest": c[2], "onself": c[3], "widths": c[4], "blockers": c[5], "label": label,
                "replay": {"kind": "width", "permille": permille}}
        if not d.get("begin"):
            stats["not_executed"] = stats.get("not_executed", 0) + 1
            continue
        if not d.get("end"):
            fails.append(dict(desc, key="%s:w%d:no-return" % (label, i),
                              what="dispatch_apply_f(%d) on chain widths=%s blockers=%s did not return (%s)" % (c[0], c[4], c[5], hang or "harness died")))
            continue
        if not d.get("blockers_ok") or not d.get("oracle"):
            stats["skipped"] += 1
            continue
        stats["width_cases"] += 1
        stats["width_nested"] += 1 if c[2] else 0
        stats["with_blockers"] += 1 if any(c[5]) else 0
        n = c[0]
        # ---- API-level oracle (independent of the model)
        if d["fin"] != n or d["dup"] or d["miss"] or d["oor"] or d["late"]:
            fails.append(dict(desc, key="%s:w%d:exactly-once" % (label, i),
                              what="dispatch_apply_f(%d) chain widths=%s: finished=%d twice=%d never=%d out-of-range=%d callout-after-return=%d"
                                   % (n, c[4], d["fin"], d["dup"], d["miss"], d["oor"], d["late"])))
        if any(w == 1 for w in d["widths"]) and not d["inorder"]:
            fails.append(dict(desc, key="%s:w%d:serial-order" % (label, i),
                              what="dispatch_apply_f(%d) on a chain containing a serial queue (widths=%s) did not run in index order" % (n, c[4])))
        if d["post"] != d["pre"] or not d.get("idle_ok"):
            diff = [(b - a) / INTERVAL for a, b in zip(d["pre"], d["post"])]
            fails.append(dict(desc, key="%s:w%d:width-balance" % (label, i),
                              what="dispatch_apply_f(%d, cpus=%d) on chain widths=%s blockers=%s left the width accounting changed: "
                                   "dq_state after - before = %s width units per level (before=%s after=%s)"
                                   % (n, c[1], c[4], c[5], diff, d["pre"], d["post"])))
        # ---- model comparison
        m = model[i]
        if m is None:
            continue
        hdr, mops, mst = m
        obs_ops = [(e.kind, e.obj - 2000, e.a, e.b) for e in d.get("ops", []) if not (e.kind == 5 and not (e.ok & 1))]
        stats["cas_retries"] += sum(1 for e in d.get("ops", []) if e.kind == 5 and not (e.ok & 1))
        code = hdr[0]
        stats[{0: "path_return", 1: "path_serial", 2: "path_redirect_serial", 3: "path_redirect_parallel", 4: "path_redirect_parallel"}[code]] += 1
        stats["relinquish_ops"] += sum(1 for o in mops if o[0] == 7)
        if code == 3 and any(o[0] == 7 for o in mops[:-len(d["widths"])]):
            stats["partial_grant"] += 1
        problems = []
        if obs_ops != [tuple(o) for o in mops]:
            problems.append("operations on dq_state differ: library %s, model %s" % (obs_ops[:12], mops[:12]))
        par = d.get("base") is not None
        if par != (code in (3, 4)):
            problems.append("library %s _dispatch_apply_invoke2, model path code %d" % ("entered" if par else "did not enter", code))
        if par and code == 3 and d.get("thr_final") != hdr[1]:
            problems.append("da_thr_cnt at the first decrement: library %s, model %s" % (d.get("thr_final"), hdr[1]))
        if code in (1, 2) and n > 0 and (not d["inorder"] or d["threads"] != 1):
            problems.append("model says serial path, library ran on %d threads, inorder=%d" % (d["threads"], d["inorder"]))
        if code == 0 and d["fin"] != 0:
            problems.append("model says immediate return")
        if code in (2, 3) and n > 0:
            L = len(d["widths"])
            for k in d.get("seen", {}):
                if d["during"][k] != mst[k]:
                    problems.append("dq_state of level %d during the apply: library %d, model %d" % (k, d["during"][k], mst[k]))
        if problems:
            mism.append(dict(desc, what="width differential: " + "; ".join(problems)[:900]))
    return mism, fails, stats


def width_unit(ctx, exe, cases, permille, label):
    """run a list of width cases, judge them; every way of not getting a verdict is a mismatch.  returns (mism, fails, stats, model)"""
    chunk_rp = {"kind": "width-chunk", "permille": permille, "cases": [list(c) for c in cases[:400]]}
    r = run_width(ctx, exe, cases, permille)
    res, hang, per = parse_width(r.stdout)
    mism = []
    if r.returncode == 3:
        pass                                   # the harness' own watchdog: judged below as a no-return failure of the case it names
    elif not harness_complete(r):
        mism.append({"what": "width harness: rc=%s, output %s (%d bytes): no verdict for the cases not reached"
                             % (r.returncode, "truncated" if r.returncode == 0 else "incomplete", len(r.stdout or "")),
                     "stderr": (r.stderr or "")[-600:], "replay": chunk_rp})
    model = coq_width(cases, res)
    if len(model) != len(cases):
        raise RuntimeError("width model: %d predictions for %d cases" % (len(model), len(cases)))
    m, f, st = judge_width(cases, res, model, hang, label, permille)
    # cases skipped because the parked items did not take their width in time: once more, alone
    redo = [i for i, c in enumerate(cases) if res.get(i, {}).get("end") and not (res[i].get("blockers_ok") and res[i].get("oracle"))]
    if redo and r.returncode == 0:
        sub = [cases[i] for i in redo]
        r2 = run_width(ctx, exe, sub, 0)
        res2, hang2, _ = parse_width(r2.stdout)
        model2 = coq_width(sub, res2)
        m2, f2, st2 = judge_width(sub, res2, model2, hang2, label + ".redo", 0)
        m += m2
        f += f2
        for k, v in st2.items():
            st[k] = st.get(k, 0) + v if k != "skipped" else v
    if st.get("skipped"):
        m.append({"what": "width: %d case(s) gave no verdict even alone (parked items never took their width)" % st["skipped"],
                  "replay": chunk_rp})
    if st.get("not_executed") and r.returncode != 3:
        m.append({"what": "width: %d of %d cases were not executed by the harness" % (st["not_executed"], len(cases)), "replay": chunk_rp})
    return mism + m, f, st, model


# ---------------------------------------------------------------------------------------------- stress + conformance
def run_stress(ctx, exe, seed, rounds, permille, big):
    return run_retry([exe, "stress", str(seed), str(rounds), str(permille), str(big)], 900)


def participations(per):
    """split every thread's events into runs of _dispatch_apply_invoke2: returns list of dict(base, wait, n, events, thr)"""
    out = []
    for thr, evs in per.items():
        stack, expect = [], None     # expect = n of a pending CALL (the next participation is the caller's)
        for e in evs:
            if e.kind == 100:
                expect = (e.obj, e.a)
                continue
            if e.kind == 101:
                if stack and stack[-1]["wait"] and stack[-1]["aid"] == e.obj and stack[-1]["closed"]:
                    p = stack.pop()
                    p["events"].append(e)
                    out.append(p)
                expect = None
                continue
            if e.kind == 104 and 0 <= e.obj < 2000:      # MARK: entry of invoke2 (a = da_iterations)
                p = {"base": e.obj, "wait": expect is not None, "aid": expect[0] if expect else None, "n": e.a, "events": [e],
                     "thr": thr, "closed": False, "tid": e.tid}
                expect = None
                stack.append(p)
                continue
            if e.kind in (102, 103):
                for p in reversed(stack):
                    if p["closed"]:
                        continue
                    if p["aid"] is None or p["aid"] == e.obj:
                        p["aid"] = e.obj
                        p["events"].append(e)
                    break
                continue
            if e.obj >= 2000 or e.obj < 0:
                continue
            # an event on a field of an apply record
            for p in reversed(stack):
                if p["base"] == e.obj and not p["closed"]:
                    p["events"].append(e)
                    if e.kind == 7 and e.off == 48:
                        p["closed"] = True
                        if not p["wait"]:
                            stack.remove(p)
                            out.append(p)
                    break
        for p in stack:
            p["truncated"] = True
            out.append(p)
    return out


def ev_row(e):
    return [e.kind, e.order, e.off, e.size, e.a, e.b, e.ok & 1]


def row_coq(r):
    z = lambda x: "(%d)" % x if x < 0 else str(x)
    return "mkEv %d %d 0 %s %d %s %s %d" % (r[0], r[1], z(r[2]), r[3], z(r[4]), z(r[5]), r[6])


def conform_rows(name, jobs):
    """jobs: list of (cfg, [event rows]); Apply.conform inside Coq; returns list of (first rejected index or -1, ended final)"""
    body = ["Definition traces : list (Z * list event) := [",
            ";\n".join("(%d, [%s])" % (cfg, "; ".join(row_coq(r) for r in rows)) for cfg, rows in jobs), "].",
            "Eval vm_compute in map (fun '(sv, tr) => let '(i, d) := conform sv tr in [i; d]) traces."]
    ok, vals, raw = coq_eval_r(name, ["Word", "Conc", "Gen_apply", "Apply"], "\n".join(body) + "\n", timeout=900)
    if not ok or len(vals) != 1:
        raise RuntimeError("coq conformance evaluation failed: " + raw[-2000:])
    xs = driver.ints(vals[0])
    if len(xs) != 2 * len(jobs):
        raise RuntimeError("coq conformance: %d numbers for %d traces" % (len(xs), len(jobs)))
    return [(xs[2 * k], xs[2 * k + 1]) for k in range(len(jobs))]


def conform_traces(name, parts_):
    """replay through Apply.tstep inside Coq, in groups of at most ~5000 events"""
    out, group, size, gi = [], [], 0, 0
    for p in parts_ + [None]:
        if p is None or (group and size + len(p["events"]) > 5000):
            if group:
                out += conform_rows("%s_%d" % (name, gi), [(2 * q["n"] + (1 if q["wait"] else 0), [ev_row(e) for e in q["events"]])
                                                           for q in group])
            group, size, gi = [], 0, gi + 1
        if p is not None:
            group.append(p)
            size += len(p["events"])
    if len(out) != len(parts_):
        raise RuntimeError("conformance: %d results for %d traces" % (len(out), len(parts_)))
    return out


def select_traces(good, budget):
    """rare shapes first (sleeping callers, slow-path wakes, participants without an index), then the rest, within an event budget"""
    def rank(p):
        ks = set(e.kind for e in p["events"])
        r = 0
        if 32 in ks: r -= 8
        if 34 in ks: r -= 8
        if 102 not in ks: r -= 4
        if p["wait"]: r -= 2
        if any(e.kind == 7 and e.off == 48 and e.a == 1 for e in p["events"]): r -= 1
        return (r, len(p["events"]))
    sel, used = [], 0
    for p in sorted(good, key=rank):
        if len(p["events"]) > 700:
            continue
        if used + len(p["events"]) > budget:
            continue
        sel.append(p)
        used += len(p["events"])
    return sel


def analyse_stress(text, label, sp=None):
    other, per = conc.parse_dump(text)
    fails, stats, hang = [], {}, None
    for l in other:
        f = l.split()
        if f[0] == "F":
            fails.append({"key": "%s:%s:%s" % (label, f[2], " ".join(f[3:6])), "label": label, "replay": {"kind": "stress", "sp": sp},
                          "what": "stress: %s (%s)" % (f[2], " ".join(f[3:]))})
        elif f[0] == "HANG":
            hang = l
            fails.append({"key": "%s:hang" % label, "label": label, "replay": {"kind": "stress", "sp": sp},
                          "what": "stress: dispatch_apply_f did not return: " + l})
        elif f[0] == "A" and len(f) >= 5:
            stats.setdefault("_depths", {})[int(f[1])] = int(f[4])
        elif f[0] in ("S", "K"):
            for x in f[1:]:
                k, v = x.split("=")
                stats[("queue_" if f[0] == "K" else "") + k] = int(v)
    return fails, stats, per, hang



# ---------------------------------------------------------------------------------------------- global replay (Model/ApplyR.v)
M64 = (1 << 64) - 1
UMAX32 = (1 << 32) - 1
PC_NAMES = ["PIdle", "PFirst", "PCall", "PInCall", "PNext", "PSub", "PSignal", "PWake", "PWaitDec", "PWaitLoad", "PWaitFutex",
            "PWaitSleep", "PDec", "PDone", "PRet", "PCrash"]


def cut_rounds(allparts):
    """a round = one dispatch_apply = all runs of _dispatch_apply_invoke2 on one record between its allocation and its free.
    The record's address is reused only after the free, and every run takes its first stamp before its own final decrement, so
    per (seed, address) the runs sorted by FIRST stamp fall into consecutive groups, one per round (stamps of later events can
    be arbitrarily late: the ticket is taken after the operation).  The boundaries are found by consistency: a complete round
    has one caller, one value of da_iterations, final decrements that observed exactly {len, .., 1} and fetch-and-increments
    that observed exactly {0, .., n + len - 1} (n claims and one overshoot per participant); the list is partitioned into such
    groups (depth-first: a consistent prefix is a round only if the rest can be partitioned too).
    returns (rounds, problems); round = dict(parts=[...], complete=bool)"""
    import sys
    by = {}
    for p in allparts:
        by.setdefault((p["seed"], p["base"]), []).append(p)
    rounds, problems = [], []

    def decs(g):
        return [e.a for q in g for e in q["events"] if e.kind == 7 and e.off == 48]

    def adds(g):
        return [e.a for q in g for e in q["events"] if e.kind == 6 and e.off == 8]

    def complete(g):
        if sum(1 for q in g if q["wait"]) != 1 or len(set(q["n"] for q in g)) != 1 or any(q.get("truncated") for q in g):
            return False
        d = decs(g)
        return len(d) == len(g) and sorted(d) == list(range(1, len(g) + 1)) and sorted(adds(g)) == list(range(g[0]["n"] + len(g)))

    def open_ok(g):
        a = adds(g)
        # (the last round on a record, unfinished when the recording ended: every increment performed so far is recorded)
        return sum(1 for q in g if q["wait"]) <= 1 and sorted(a) == list(range(len(a))) and 1 not in decs(g) and \
            len(set(q["n"] for q in g)) <= 1

    for key, ps in by.items():
        ps.sort(key=lambda p: p["events"][0].seq)
        memo = {}

        def part(i):
            if i == len(ps):
                return []
            if i in memo:
                return memo[i]
            res = None
            for j in range(i + 1, min(len(ps), i + 70) + 1):
                if complete(ps[i:j]):
                    rest = part(j)
                    if rest is not None:
                        res = [(i, j, True)] + rest
                        break
            if res is None and open_ok(ps[i:]) and len(ps) - i < 70:
                res = [(i, len(ps), False)]
            memo[i] = res
            return res
        old = sys.getrecursionlimit()
        sys.setrecursionlimit(max(old, 10000))
        cuts = part(0)
        sys.setrecursionlimit(old)
        if cuts is None:
            problems.append({"what": "the runs of _dispatch_apply_invoke2 recorded on one record address cannot be partitioned into rounds "
                                     "(one caller, decrements len..1, increments 0..n+len-1 each): decrements in start order %s"
                                     % decs(ps)[:60], "detail": {"seed": key[0], "runs": len(ps)}})
            continue
        for (i, j, comp) in cuts:
            if comp or not any(q.get("truncated") for q in ps[i:j]):
                rounds.append({"parts": ps[i:j], "complete": comp})
    return rounds, problems


def order_round(rd):
    """participant ids, action lists and a global order consistent with every participant's program order and with the exact
    old->new chains of da_index, da_todo, da_thr_cnt and the thread event.  returns dict or an error string"""
    parts_ = rd["parts"]
    callers = [p for p in parts_ if p["wait"]]
    if len(callers) != 1:
        return "a round with %d caller runs" % len(callers)
    ns = set(p["n"] for p in parts_)
    if len(ns) != 1:
        return "participants disagree on da_iterations: %s" % sorted(ns)
    n = ns.pop()
    ordered = callers + [p for p in parts_ if not p["wait"]]
    acts = {}       # pid -> [Ev]
    for k, p in enumerate(ordered):
        evs = list(p["events"])
        if p["wait"]:
            evs = [e for e in evs if e.kind != 104]      # the caller is inside invoke2 in the model's initial state
        acts[k + 1] = evs
    nodes = [(pid, i) for pid, evs in acts.items() for i in range(len(evs))]
    ev = lambda nd: acts[nd[0]][nd[1]]
    succ, indeg = {nd: [] for nd in nodes}, {nd: 0 for nd in nodes}

    def edge(a, b):
        if a != b:
            succ[a].append(b)
            indeg[b] += 1
    for pid, evs in acts.items():
        for i in range(len(evs) - 1):
            edge((pid, i), (pid, i + 1))
    idx = sorted([nd for nd in nodes if ev(nd).kind == 6 and ev(nd).off == 8], key=lambda nd: ev(nd).a)
    if [ev(nd).a for nd in idx] != list(range(len(idx))):
        return "da_index chain is not 0,1,2,..: %s" % [ev(nd).a for nd in idx][:40]
    todo = sorted([nd for nd in nodes if ev(nd).kind == 7 and ev(nd).off == 16], key=lambda nd: -ev(nd).a)
    cur = n
    for nd in todo:
        if ev(nd).a != cur:
            return "da_todo chain broken: a subtraction observed %d, expected %d" % (ev(nd).a, cur)
        cur = (cur - ev(nd).b) & M64
    thr = sorted([nd for nd in nodes if ev(nd).kind == 7 and ev(nd).off == 48], key=lambda nd: -ev(nd).a)
    if not thr:
        return "no da_thr_cnt decrement recorded"
    T = ev(thr[0]).a
    if [ev(nd).a for nd in thr] != list(range(T, T - len(thr), -1)):
        return "da_thr_cnt chain is not T,T-1,..: %s" % [ev(nd).a for nd in thr][:40]
    if len(parts_) > T:
        return "%d runs of invoke2 on a record whose da_thr_cnt started at %d" % (len(parts_), T)
    for chain_ in (idx, todo, thr):
        for a, b in zip(chain_, chain_[1:]):
            edge(a, b)
    sig = [nd for nd in nodes if ev(nd).kind == 6 and ev(nd).off == 40]
    wdec = [nd for nd in nodes if ev(nd).kind == 7 and ev(nd).off == 40]
    if len(sig) > 1 or len(wdec) > 1:
        return "thread event signalled %d times, waited on %d times" % (len(sig), len(wdec))
    evt = 0
    if sig and wdec:
        if ev(wdec[0]).a == 1:
            edge(sig[0], wdec[0])
        else:
            edge(wdec[0], sig[0])
    if sig:
        for nd in nodes:
            e = ev(nd)
            if e.kind == 1 and e.off == 40:
                edge(sig[0], nd) if e.a == 0 else edge(nd, sig[0])
            if e.kind == 32:                      # futex_wait: slept iff the kernel saw UINT32_MAX, i.e. before the signal
                rets = [acts[nd[0]][j] for j in range(nd[1] + 1, len(acts[nd[0]])) if acts[nd[0]][j].kind == 33]
                if rets and rets[0].b == 11:
                    edge(sig[0], nd)
                else:
                    edge(nd, sig[0])
        wakes = [nd for nd in nodes if ev(nd).kind == 34]
        for w_ in wakes:
            for nd in nodes:
                if ev(nd).kind == 33 and ev(nd).b == 0:
                    later = [x for x in nodes if x[0] == nd[0] and x[1] > nd[1] and ev(x).kind == 33]
                    if not later:                 # the last return of futex_wait is the one the wake-up caused
                        edge(w_, nd)
    import heapq
    heap = [(ev(nd).seq, nd) for nd in nodes if indeg[nd] == 0]
    heapq.heapify(heap)
    order = []
    while heap:
        _, nd = heapq.heappop(heap)
        order.append(nd)
        for m in succ[nd]:
            indeg[m] -= 1
            if indeg[m] == 0:
                heapq.heappush(heap, (ev(m).seq, m))
    if len(order) != len(nodes):
        return "no global order is consistent with program order and the exact chains of the shared words"
    for nd in order:                              # the event word after all recorded writes
        e = ev(nd)
        if e.off == 40 and e.kind == 6:
            evt = (evt + 1) & UMAX32
        elif e.off == 40 and e.kind == 7:
            evt = (evt - 1) & UMAX32
    final = {"index": len(idx) & M64, "todo": cur, "thrcnt": T - len(thr), "evt": evt, "freed": 1 if T - len(thr) == 0 else 0,
             "returned": 1 if any(e.kind == 101 for e in acts[1]) else 0}
    return {"n": n, "T": T, "acts": acts, "order": [nd[0] for nd in order], "final": final, "nactions": len(nodes)}


def coq_replay(name, jobs, window=6, timeout=900, workers=4, chunk_actions=5000):
    """jobs: list of order_round results; returns the int lists of ApplyR.replay, one per job"""
    import re
    from concurrent.futures import ThreadPoolExecutor
    chunks, i = [], 0
    while i < len(jobs):
        part, k = [], 0
        while i < len(jobs) and (not part or k + jobs[i]["nactions"] <= chunk_actions):
            part.append(jobs[i])
            k += jobs[i]["nactions"]
            i += 1
        chunks.append((i, part))

    def z(x):
        return "(%d)" % x if x < 0 else str(x)

    def one(arg):
        ci, part = arg
        body = ["Definition A (t k o f sz a b : Z) : sact := mkSA t (mkEv k o 0 f sz a b 1)."]
        calls = []
        for k, j in enumerate(part):
            qs = []
            for pid, evs in j["acts"].items():
                rows = [e if isinstance(e, (list, tuple)) else ev_row(e) for e in evs]
                qs.append("(%d, [%s])" % (int(pid), "; ".join("A %d %d %d %s %d %s %s" % (int(pid), r_[0], r_[1], z(r_[2]), r_[3], z(r_[4]), z(r_[5]))
                                                              for r_ in rows)))
            body.append("Definition qs%d : list (Z * list sact) := [%s]." % (k, ";\n".join(qs)))
            body.append("Definition ord%d : list Z := [%s]." % (k, "; ".join(str(t) for t in j["order"])))
            tids = "[%s]" % "; ".join(str(int(t)) for t in list(j["acts"].keys()) + [len(j["acts"]) + 1])
            calls.append("replay %d %d 1 %d %s %s qs%d ord%d" % (j["n"], j["T"], window, "true" if j["nactions"] <= 700 else "false",
                                                                  tids, k, k))
        body.append("Eval vm_compute in [%s]." % "; ".join(calls))
        ok, vals, raw = coq_eval_r("%s_%d" % (name, ci), ["Word", "Conc", "Gen_apply", "Apply", "ApplyR"], "\n".join(body) + "\n",
                                   timeout=timeout)
        if not ok or len(vals) != 1:
            raise RuntimeError("coq replay evaluation failed: " + raw[-2000:])
        got = [driver.ints(r) for r in re.findall(r"\[([^\[\]]*)\]", vals[0])]
        if len(got) != len(part):
            raise RuntimeError("coq replay: %d results for %d rounds" % (len(got), len(part)))
        return got
    out = []
    with ThreadPoolExecutor(max_workers=workers) as ex:
        for got in ex.map(one, chunks):
            out += got
    return out


def round_rank(rd):
    ks = set(e.kind for p in rd["parts"] for e in p["events"])
    r = 0
    if 32 in ks: r -= 8
    if 34 in ks: r -= 8
    if not rd["complete"]: r -= 6
    if any(p["wait"] and 102 not in set(e.kind for e in p["events"]) for p in rd["parts"]): r -= 4
    if len(rd["parts"]) >= 8: r -= 2
    return (r, sum(len(p["events"]) for p in rd["parts"]))


def global_replay(tag, allparts, budget, selftest=True):
    """every recorded round as a run of the global model; returns (mismatches, stats)"""
    mism = []
    st = {"rounds_recorded": 0, "rounds_replayed_as_runs_of_Apply_gstep": 0, "rounds_incomplete_at_end_of_recording_replayed": 0,
          "model_actions_replayed": 0, "states_checked_against_inv_b": 0, "rounds_with_sleeping_caller_replayed": 0,
          "rounds_with_slow_wake_replayed": 0, "rounds_ewouldblock_replayed": 0, "max_participants_in_a_replayed_round": 0,
          "rounds_not_selected_budget": 0}
    rounds, problems = cut_rounds(allparts)
    sp_of = {p["seed"]: p.get("sp") for p in allparts}
    for pr in problems:
        pr["replay"] = {"kind": "stress", "sp": sp_of.get(pr.get("detail", {}).get("seed"))}
    mism += problems
    st["rounds_recorded"] = len(rounds)
    jobs, used = [], 0
    for rd in sorted(rounds, key=round_rank):
        size = sum(len(p["events"]) for p in rd["parts"])
        if used + size > budget:
            st["rounds_not_selected_budget"] += 1
            continue
        j = order_round(rd)
        if isinstance(j, str):
            mism.append({"what": "a recorded round of dispatch_apply cannot be laid out as one run: " + j,
                         "replay": {"kind": "stress", "sp": rd["parts"][0].get("sp")},
                         "detail": {"seed": rd["parts"][0]["seed"], "iterations": rd["parts"][0]["n"], "participants": len(rd["parts"])}})
            continue
        j["rd"] = rd
        jobs.append(j)
        used += size
    # vacuity guard: two tampered copies of a recorded round must NOT replay (one helper continuation too few: the last
    # helper's start is not enabled / the da_thr_cnt values do not fit; the operand of a da_todo subtraction off by one)
    import copy as _copy
    base = next((j for j in jobs if len(j["acts"]) == j["T"] and j["T"] >= 3 and j["n"] >= 3), None) if selftest else None
    tampered = []
    if base is not None:
        t1 = dict(base); t1["T"] = base["T"] - 1; t1["selftest"] = "da_thr_cnt one less than the number of participants"
        t2 = dict(base); t2["acts"] = {p_: list(evs) for p_, evs in base["acts"].items()}
        t2["selftest"] = "operand of a da_todo subtraction off by one"
        for p_, evs in t2["acts"].items():
            k = next((i for i, e in enumerate(evs) if e.kind == 7 and e.off == 16), None)
            if k is not None:
                e2 = _copy.copy(evs[k]); e2.b = e2.b + 1; evs[k] = e2
                tampered = [t1, t2]
                break
    res = coq_replay(tag, jobs + tampered) if jobs else []
    if len(res) != len(jobs) + len(tampered):
        raise RuntimeError("global replay: %d results for %d rounds" % (len(res), len(jobs) + len(tampered)))
    if selftest and jobs and not tampered:
        st["selftest_no_suitable_round"] = 1
    for j, r in zip(tampered, res[len(jobs):]):
        st["selftest_tampered_rounds_rejected"] = st.get("selftest_tampered_rounds_rejected", 0) + (1 if r[1] != 0 else 0)
        if r[1] == 0:
            mism.append({"what": "replay self-test: a tampered round (%s) was accepted by ApplyR.sched: the replay does not "
                                 "discriminate" % j["selftest"], "detail": {"result": r},
                         "replay": {"kind": "stress", "sp": j["rd"]["parts"][0].get("sp")}})
    for j, r in zip(jobs, res):
        (done, left, index, todo, thrcnt, evt, freed, uaf, dcbad, returned, invbad, invfirst, alldone, nparts, stuck, stuck_left,
         stuck_pc) = r
        f = j["final"]
        rd = j["rd"]
        problems = []
        first_unmatched = None
        if left != 0 or done != j["nactions"]:
            if stuck in j["acts"]:
                evs = j["acts"][stuck]
                k = len(evs) - stuck_left
                first_unmatched = {"participant": stuck, "caller": stuck == 1, "action_index": k,
                                   "action": evs[k].brief() if 0 <= k < len(evs) else None,
                                   "before": [e.brief() for e in evs[max(0, k - 4):k]],
                                   "model_program_point": PC_NAMES[stuck_pc] if 0 <= stuck_pc < len(PC_NAMES) else stuck_pc,
                                   "model_words": {"da_index": index, "da_todo": todo, "da_thr_cnt": thrcnt, "event": evt,
                                                   "participants_entered": nparts}}
            problems.append("the model took %d of %d actions; then no pending action within the window of the preferred order was "
                            "enabled with the recorded outcome (first unmatched action: %s)" % (done, j["nactions"], first_unmatched))
        else:
            got = {"index": index, "todo": todo, "thrcnt": thrcnt, "evt": evt, "freed": freed, "returned": returned}
            if got != f:
                problems.append("end state of the model %s differs from the recorded one %s" % (got, f))
            if uaf or dcbad:
                problems.append("the model flags an access after free (uaf=%d) / a read of da_dc after return (dcbad=%d)" % (uaf, dcbad))
            if returned and not alldone:
                problems.append("returned although not every index below n began and ended exactly once in the model")
        if invbad:
            problems.append("inv_b is FALSE on %d state(s) of the replay, first at step %d: a reachable state contradicting the proved "
                            "invariant's executable version" % (invbad, invfirst))
        if problems:
            detail = {"seed": rd["parts"][0]["seed"], "iterations": j["n"], "thr_cnt": j["T"], "participants": len(rd["parts"]),
                      "complete": rd["complete"], "result": r, "order_head": j["order"][:60]}
            if first_unmatched:
                detail["first_unmatched_action"] = first_unmatched
            rp = {"kind": "stress", "sp": rd["parts"][0].get("sp")}
            if j["nactions"] <= 1500:          # small enough to carry: the round itself is re-judged by the model on replay
                rp = {"kind": "round", "sp": rd["parts"][0].get("sp"),
                      "round": {"n": j["n"], "T": j["T"], "order": j["order"], "final": f, "nactions": j["nactions"],
                                "acts": {str(pid): [ev_row(e) for e in evs] for pid, evs in j["acts"].items()}}}
            mism.append({"replay": rp, "what": "a recorded round of dispatch_apply is not reproduced as a run of the global model (ApplyR.sched on "
                                 "Apply.gstep): " + "; ".join(problems), "detail": detail})
            continue
        st["rounds_replayed_as_runs_of_Apply_gstep"] += 1
        st["model_actions_replayed"] += j["nactions"]
        st["states_checked_against_inv_b"] += j["nactions"] if j["nactions"] <= 700 else 1
        ks = set(e.kind for p in rd["parts"] for e in p["events"])
        st["rounds_incomplete_at_end_of_recording_replayed"] += 0 if rd["complete"] else 1
        st["rounds_with_sleeping_caller_replayed"] += 1 if 32 in ks else 0
        st["rounds_with_slow_wake_replayed"] += 1 if 34 in ks else 0
        st["rounds_ewouldblock_replayed"] += 1 if any(e.kind == 33 and e.b == 11 for p in rd["parts"] for e in p["events"]) else 0
        dp = next((p.get("depth") for p in rd["parts"] if p["wait"]), None)
        st["nested_rounds_replayed"] = st.get("nested_rounds_replayed", 0) + (1 if dp else 0)
        st["max_participants_in_a_replayed_round"] = max(st["max_participants_in_a_replayed_round"], len(rd["parts"]))
    return mism, st


def round_problems(j, r):
    """verdict of ApplyR.replay on one round (used by replay(); global_replay has the long form)"""
    (done, left, index, todo, thrcnt, evt, freed, uaf, dcbad, returned, invbad, invfirst, alldone) = r[:13]
    out = []
    if left != 0 or done != j["nactions"]:
        out.append("the model took %d of %d actions" % (done, j["nactions"]))
    else:
        got = {"index": index, "todo": todo, "thrcnt": thrcnt, "evt": evt, "freed": freed, "returned": returned}
        if got != j["final"]:
            out.append("end state of the model %s differs from the recorded one %s" % (got, j["final"]))
        if uaf or dcbad:
            out.append("uaf=%d dcbad=%d" % (uaf, dcbad))
        if returned and not alldone:
            out.append("returned although not every index began and ended once")
    if invbad:
        out.append("inv_b false on %d state(s), first at step %d" % (invbad, invfirst))
    return out


def stress_unit(ctx, exe, sp, label):
    """one stress run with the parameters sp = {seed, rounds, permille, big}: oracle failures, mismatches of the run itself,
    statistics, and the recorded runs of invoke2 (each tagged with sp)"""
    r = run_stress(ctx, exe, sp["seed"], sp["rounds"], sp["permille"], sp["big"])
    rp = {"kind": "stress", "sp": sp}
    f, st, per, hang = analyse_stress(r.stdout, label, sp)
    mism = []
    if r.returncode == 3 and hang:
        pass                                   # HANG line of the harness' progress watchdog: already a failure
    elif not harness_complete(r):
        mism.append({"what": "stress harness: rc=%s, output %s (%d bytes)" % (r.returncode, "truncated" if r.returncode == 0 else "incomplete",
                                                                             len(r.stdout or "")),
                     "stderr": (r.stderr or "")[-600:], "replay": rp})
    depths = st.pop("_depths", {})
    ps = participations(per)
    for p in ps:
        p["seed"] = sp["seed"]
        p["sp"] = sp
        p["depth"] = depths.get(p["aid"]) if p["aid"] is not None else None
    if r.returncode == 0 and (st.get("instances", 0) == 0 or not ps):
        mism.append({"what": "stress run recorded nothing: %d applies, %d runs of invoke2 (hook compiled out / recorder off?)"
                             % (st.get("instances", 0), len(ps)), "replay": rp})
    return f, mism, st, ps


def conformance(name, good):
    """per-run conformance of the selected recorded runs; returns mismatches"""
    mism = []
    cres = conform_traces(name, good)
    for (i, fin), p in zip(cres, good):
        if i != -1 or fin != 1:
            rows = [ev_row(e) for e in p["events"]]
            rp = {"kind": "stress", "sp": p.get("sp")}
            if len(rows) <= 800:
                rp = {"kind": "trace", "sp": p.get("sp"), "cfg": 2 * p["n"] + (1 if p["wait"] else 0), "rows": rows}
            mism.append({"what": "a recorded run of _dispatch_apply_invoke2 is not accepted by the model's thread automaton "
                                 "(Apply.tstep): the implementation took a step the model does not have", "replay": rp,
                         "detail": {"seed": p["seed"], "thread": p["thr"], "iterations": p["n"], "caller": p["wait"],
                                    "rejected_at": i, "ended_final": fin,
                                    "trace": [e.brief() for e in p["events"]][max(0, i - 6):i + 6] if i >= 0 else
                                    [e.brief() for e in p["events"]][-8:]}})
    return mism


def correspond(ctx):
    try:
        return _correspond(ctx)
    finally:
        cleanup_cases()


def _correspond(ctx):
    exe = build(ctx)
    quick = ctx.tier == "quick"
    mism, fails, dist = [], [], {}
    # ---- (a) width differential
    cases = gen_cases(ctx, 140 if quick else 1200)
    evals = 0
    samples = []
    for chunk0 in range(0, len(cases), 400):
        chunk = cases[chunk0:chunk0 + 400]
        m, f, st, model = width_unit(ctx, exe, chunk, 0 if chunk0 == 0 else 100, "seed%d.%d" % (ctx.seed, chunk0))
        mism += m
        fails += f
        evals += st["width_cases"]
        for k, v in st.items():
            dist[k] = dist.get(k, 0) + v
        for i in (0, 3, 5):
            if i < len(chunk) and model[i]:
                samples.append({"case": dict(zip(("n", "cpus", "nest", "onself", "widths", "blockers"), chunk[i])),
                                "model": {"header": model[i][0], "ops": model[i][1][:8]}})
    dist["width_cases_requested"] = len(cases)
    if dist.get("width_cases", 0) == 0:
        mism.append({"what": "width differential: no case out of %d produced a verdict" % len(cases),
                     "replay": {"kind": "width-chunk", "permille": 0, "cases": [list(c) for c in cases[:40]]}})
    distinct = len(set((tuple(c[4]), tuple(c[5]), c[1], min(c[0], 70), c[2], c[3]) for c in cases))
    # ---- (b) stress + (c) conformance + (d) global replay
    nseeds, rounds = (3, 40) if quick else (10, 150)
    allparts, sps = [], []
    for i in range(nseeds):
        sp = {"seed": ctx.seed * 1000 + i, "rounds": rounds, "permille": [0, 120, 350][i % 3], "big": 2 if quick else 6}
        sps.append(sp)
        f, m, st, ps = stress_unit(ctx, exe, sp, "seed%d" % sp["seed"])
        fails += f
        mism += m
        for k, v in st.items():
            dist[k] = dist.get(k, 0) + v
        allparts += ps
    gm, gst = global_replay("replay", allparts, 40000 if quick else 300000)
    mism += gm
    dist.update(gst)
    good = [p for p in allparts if not p.get("truncated")]
    dist["participations_truncated_by_end_of_recording"] = len(allparts) - len(good)
    dist["caller_participations"] = sum(1 for p in good if p["wait"])
    dist["helpers_without_index"] = sum(1 for p in good if not p["wait"] and not any(e.kind == 102 for e in p["events"]))
    dist["callers_without_index"] = sum(1 for p in good if p["wait"] and not any(e.kind == 102 for e in p["events"]))
    dist["signals"] = sum(1 for p in good for e in p["events"] if e.kind == 6 and e.off == 40)
    dist["signal_slow_wakes"] = sum(1 for p in good for e in p["events"] if e.kind == 34)
    dist["caller_futex_waits"] = sum(1 for p in good for e in p["events"] if e.kind == 32)
    dist["record_frees_seen"] = sum(1 for p in good for e in p["events"] if e.kind == 7 and e.off == 48 and e.a == 1)
    dist["participations_recorded"] = len(good)
    good = select_traces(good, 40000 if quick else 400000)
    dist["participations"] = len(good)
    # floors: a part that measured nothing is a broken tie, not a pass (unless a failure already explains it)
    if not fails:
        rp0 = {"kind": "stress", "sp": sps[0]}
        if not good:
            mism.append({"what": "trace conformance: no complete run of _dispatch_apply_invoke2 was recorded in %d stress runs" % nseeds,
                         "replay": rp0})
        if gst.get("rounds_replayed_as_runs_of_Apply_gstep", 0) == 0 and not gm:
            mism.append({"what": "global replay: no round was replayed (rounds recorded: %d)" % gst.get("rounds_recorded", 0), "replay": rp0})
    if good:
        mism += conformance("conf", good)
        evals += len(good)
        distinct += len(set(tuple((e.kind, e.off, e.order) for e in p["events"] if e.kind not in (102, 103)) for p in good))
        for p in good[:2] + [p for p in good if any(e.kind == 32 for e in p["events"])][:1]:
            samples.append({"iterations": p["n"], "caller": p["wait"], "trace": [e.brief() for e in p["events"]][:30]})
    evals += gst.get("rounds_replayed_as_runs_of_Apply_gstep", 0)
    return {"evaluations": evals, "distinct_nontrivial": distinct,
            "rule": "(a) width differential: chains of 1-4 real queues (serial / concurrent narrowed with dispatch_queue_set_width to "
                    "2..32), 0..w-1 parked items per level, CPU count 1..40, n in {0,1,2,3,cpu-1,cpu,cpu+1,64,200}, nested in an outer "
                    "apply or on the current queue; every dq_state operation of src/apply.c (hook, values included), path, final "
                    "da_thr_cnt and the states during the apply compared with Apply.width_case; oracle: states after == before, "
                    "exactly-once, index order on serial chains. (b) stress via dispatch_apply_f: n in {0,1,2,cpu-1,cpu,cpu+1,3,64,257,"
                    "1000,100000}, 11 queue kinds (auto, global x3, serial, concurrent, narrowed, chains), nesting depth 1-3, two driver "
                    "threads, barrier items thrown at the concurrent queues, perturbation 0/12/35 percent: per-index counters, "
                    "start/end/return stamps. (c) recorded runs of _dispatch_apply_invoke2 (applies of at most 300 iterations; a "
                    "selection within an event budget, rare shapes first) replayed through Apply.tstep in Coq. (d) recorded rounds (all "
                    "participants of one dispatch_apply, within an action budget) replayed as runs of the global model Apply.gstep "
                    "(ApplyR.sched), end state compared with the recorded one; inv_b is evaluated on every state passed for rounds of at "
                    "most 700 actions and on the end state only for larger ones (distribution: states_checked_against_inv_b vs "
                    "model_actions_replayed); two tampered rounds must be rejected. evaluations = width cases judged + runs conformed + "
                    "rounds replayed (what was measured, not what was requested)",
            "samples": samples[:10], "distribution": dist, "traces_validated_against_impl": len(good),
            "mismatches": mism[:20], "failures": fails[:20]}


def replay(ctx, obj):
    try:
        return _replay(ctx, obj)
    finally:
        cleanup_cases()


def _replay(ctx, obj):
    """re-execute every recorded failing input with its recorded parameters and re-judge it.
    rc 1: at least one reproduces; 0: all were executed and none reproduces; 2: nothing could be executed"""
    exe = build(ctx)
    items = [("failure", f) for f in obj.get("failures", [])]
    not_exec = []
    for b in obj.get("broken", []):
        d = b.get("detail") if isinstance(b, dict) else None
        if isinstance(b, dict) and b.get("what") == "correspondence" and isinstance(d, dict) and isinstance(d.get("replay"), dict):
            items.append(("mismatch", d))
        else:
            not_exec.append(b)
    executed, reproduced = 0, 0
    done_units = set()
    for kind, it in items:
        rp = it.get("replay") or {}
        print("recorded %s: %s" % (kind, str(it.get("what"))[:400]))
        k = rp.get("kind")
        again = []
        if k == "width":
            case = (it["n"], it["cpus"], it["nest"], it["onself"], it["widths"], it["blockers"])
            m, f, st, _ = width_unit(ctx, exe, [case], rp.get("permille", 0), "replay")
            again = [x["what"] for x in f + m]
        elif k == "width-chunk":
            cases = [tuple(c) for c in rp.get("cases", [])]
            m, f, st, _ = width_unit(ctx, exe, cases, rp.get("permille", 0), "replay")
            again = [x["what"] for x in f + m]
            if st.get("width_cases", 0) == 0:
                again.append("no case produced a verdict")
        elif k == "trace":
            res = conform_rows("replay_trace", [(rp["cfg"], rp["rows"])])
            if res[0] != (-1, 1):
                again = ["the recorded run is rejected by Apply.tstep at event %d (ended final: %d)" % res[0]]
        elif k == "round":
            j = dict(rp["round"])
            res = coq_replay("replay_round", [j])
            again = round_problems(j, res[0])
        elif k == "stress" and rp.get("sp"):
            sp = rp["sp"]
            key = tuple(sorted(sp.items()))
            if key in done_units:
                print("   (same stress run as above)")
                continue
            done_units.add(key)
            f, m, st, ps = stress_unit(ctx, exe, sp, "seed%d" % sp["seed"])
            gm, gst = global_replay("replay_stress", ps, 300000, selftest=False)
            good = select_traces([p for p in ps if not p.get("truncated")], 100000)
            cm = conformance("replay_conf", good) if good else []
            again = [x["what"] for x in f + m + gm + cm]
            print("   re-run of stress seed=%(seed)d rounds=%(rounds)d permille=%(permille)d big=%(big)d" % sp)
        else:
            not_exec.append(it)
            continue
        executed += 1
        if again:
            reproduced += 1
            print("   REPRODUCES (%d):" % len(again))
            for w in again[:5]:
                print("     ", str(w)[:500])
        else:
            print("   does not reproduce")
    for b in not_exec:
        print("not re-executable here (proof / translation / build / entry without recorded input); only a full `./check C10` "
              "re-establishes it:", str(b if isinstance(b, str) else (b.get("detail", b) if isinstance(b, dict) else b))[:500])
    if reproduced:
        return 1
    if executed:
        return 0
    return 2
