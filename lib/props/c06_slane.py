"""C06 protocol conformance: ties coq/Model/SLaneS.v (one serial lane under dispatch_async_f, root-queue workers and any
number of dispatch_suspend / dispatch_resume / dispatch_activate callers) to the running library.

harness/c06_slanes.c runs, per round, one serial queue (active or initially inactive) under async floods, random balanced
suspend/resume patterns from controller threads (in some rounds 60..100 deep: the side-counter path), suspends issued by work
items on their own queue, and dispatch_activate from one or two threads, with schedule perturbation inside the library's atomic
operations; it records, per thread and in program order, every atomic operation on the queue object plus marks for API
call / return and callout begin / end.  This module

  (a) turns each thread's recording of a round into observations on dq_state (loads and failed compare-exchanges: OSee,
      successful compare-exchanges: OCas old new, the DIRTY xor: OXor, marks) and replays them INSIDE Coq against
      SLaneS.gstep itself (Model/SLaneSR.v: the set of program points the thread may be at is advanced with gstep on synthetic
      states; every successful RMW must be the commit of the generated body gstep uses at one of them, applied to the recorded
      old value); a suspend/resume/activate call made by a work item is replayed as a thread of its own (same tid);
  (b) rebuilds the exact global order of the successful dq_state transitions of the round (old -> new chain from the initial to
      the final word, respecting each thread's program order) and judges the real-time property on the marks: a callout that
      BEGINS while some dispatch_suspend has returned whose dispatch_resume has not been called (tickets of the marks) is legal
      only if the drainer's last read of dq_state before it returned a non-suspended word that lies on the chain segment of that
      drain (the read precedes the suspending RMW); on a queue created inactive no callout begins before the first
      dispatch_activate call;
  (c) every submitted item has run when the round's watchdog expires after the final resume, the word is back at its idle value
      and the side counter at 0.

correspond(ctx) returns the usual dict; lib/props/c06.py merges it into its own result."""
import os

import common
import conc
import driver

PROPERTIES_FILE = "Properties/Properties_C06_slane.v"
COQ_DEPS = ["Proofs/SLaneS_progress.vo", "Proofs/SLaneS_realtime.vo", "Model/SLaneSR.vo"]
GEN_MODULES = ["Gen_dqstate"]
LEVEL = "proof"
TRUSTED = [
    "Model/SLaneS.v (hand-written: program points, list / side-lock / side-counter steps, ghost state; every dq_state transition "
    "in it is a body of Gen_dqstate regenerated from the source) is tied to the running library by the in-Coq replay of every "
    "recorded thread trace against SLaneS.gstep (Model/SLaneSR.v) and by the chain / real-time oracle of lib/props/c06_slane.py",
    "what the hook cannot see is searched over small candidate sets inside Coq (item list empty / one / several items; "
    "dq_side_suspend_cnt 0 / 32 / more): plain reads of dq_items_tail and of the side counter are not observable",
    "normalisation of the recordings (lib/props/c06_slane.py): only operations on the dq_state word and the harness marks are "
    "replayed; calls made from inside a callout are split off as threads of their own",
    "the DISPATCH_VERIF hook reports each os_atomic_* operation with the values it saw (src/shims/atomic.h)",
]
ASSUMPTIONS = ["a worker enters _dispatch_queue_drain_try_lock with QoS floor 0 (no HAVE_PTHREAD_WORKQUEUE_QOS on this build)",
               "the stress runs explore the schedules the OS and the perturbation hook produce; the theorems, not the runs, cover all interleavings"]
IMPORTS = ["Word", "Conc", "Gen_consts", "Gen_dqstate", "SLaneS", "SLaneSR"]
M64 = (1 << 64) - 1
API = {1: "async", 2: "suspend", 3: "resume", 4: "activate"}


HARNESS_TIMEOUT = 600


def run_harness(seed, rounds, permille, scale=1):
    """returns (stdout, None) or (stdout so far, why the client died).  A wall-clock expiry alone is load, not a verdict: the
    same run is repeated once, alone, with ten times the limit; only a second expiry is reported (as a hang)."""
    exe, msg = common.build_harness("c06_slanes", ["c06_slanes.c"], whitebox=True, extra=["-I" + common.VERIF + "/harness"])
    if exe is None:
        raise RuntimeError("harness build failed: " + msg)
    cmd = [exe, str(seed), str(rounds), str(permille), str(scale)]
    r = common.run(cmd, timeout=HARNESS_TIMEOUT)
    if r.returncode == 124:
        r = common.run(cmd, timeout=10 * HARNESS_TIMEOUT)
        if r.returncode == 124:
            return r.stdout or "", "no output end after %d s, twice (second time alone): the client hangs" % (10 * HARNESS_TIMEOUT)
    if r.returncode != 0:
        k = [l for l in (r.stdout or "").split("\n") if l.startswith("K ")]
        why = "the library crashed with signal %s in round %s (DISPATCH_CLIENT_CRASH raises SIGILL)" % tuple(k[0].split()[1:3]) if k \
            else "rc=%s %s" % (r.returncode, (r.stderr or "")[-300:])
        return r.stdout or "", why
    return r.stdout, None


def parse(text):
    other, per = conc.parse_dump(text)
    O = [l.split() for l in other if l.startswith("O ")]
    if not O:
        raise RuntimeError("no layout line in the dump")
    o = [int(x) for x in O[0][1:]]
    lay = {"lane_size": o[0], "state": o[1], "tail": o[2], "head": o[3], "sidelock": o[4], "sidecnt": o[5], "ENQ": o[6],
           "DIRTY": o[7], "SI": o[8], "HAS_SIDE": o[9], "INACTIVE": o[10], "NA": o[11], "ANON": o[12], "ROLE_MASK": o[13]}
    rounds = []
    for l in other:
        if l.startswith("R "):
            v = [int(x) for x in l.split()[1:]]
            rounds.append({"round": v[0], "addr": v[1], "inactive": v[2], "nsub": v[3], "nctl": v[4], "nitems": v[5], "wq": v[6],
                           "st0": v[7], "st1": v[8], "seq0": v[9], "seq1": v[10], "ran": v[11], "ok": v[12], "nsusp": v[13],
                           "nres": v[14], "nact": v[15], "deep": v[16], "side": v[17], "role": v[18], "wq_end": v[19] if len(v) > 19 else v[6]})
    return lay, rounds, per


class Obs:
    __slots__ = ("k", "a", "b", "seq", "line", "thr", "idx", "side")

    def __init__(self, k, a, b, seq, line, thr):
        self.k, self.a, self.b, self.seq, self.line, self.thr, self.idx, self.side = k, a, b, seq, line, thr, -1, None

    def coq(self):
        if self.k == "call":
            if isinstance(self.a, tuple):
                return "OAsync [%s]" % "; ".join(str(q) for q in self.a[1])
            return "OCall (%s)" % self.a
        if self.k == "ret":
            return "ORet"
        if self.k == "begin":
            return "OBegin"
        if self.k == "end":
            return "OEnd"
        if self.k == "see":
            return "OSee %d" % self.a
        if self.k == "cas":
            if self.side is not None:
                return "OCasSide %d %d %d" % (self.a, self.b, self.side)
            return "OCas %d %d" % (self.a, self.b)
        return "OXor %d" % self.a

    def brief(self):
        return "%s(%s%s L%d)" % (self.k, self.a, "->%s" % self.b if self.k == "cas" else "", self.line)


def normalise(lay, rd, per):
    """returns (streams, notes): streams = list of dict(thr, tid, nested, obs=[Obs]) for the round"""
    streams, notes = [], []
    for thr, evs in per.items():
        mine = [e for e in evs if e.obj == rd["round"] and rd["seq0"] <= e.seq < rd["seq1"] + 10 ** 9]
        if not mine:
            continue
        top = {"thr": thr, "tid": mine[0].tid, "nested": False, "obs": []}
        cur, in_callout, nested = top, False, None
        out = [top]
        for e in mine:
            o = None
            if e.kind == 100:
                api = e.a & 255
                wq = e.a >> 8
                c = {1: ("async", sorted(set([wq, rd["wq_end"]]) if rd["inactive"] else set([wq]))), 2: "CSuspend", 3: "CResume",
                     4: "CActivate"}.get(api)
                if c is None:
                    notes.append("unknown api code %d" % api)
                    continue
                o = Obs("call", c, e.b, e.seq, 0, thr)
                if in_callout and nested is None:
                    nested = {"thr": thr, "tid": e.tid, "nested": True, "obs": []}
                    out.append(nested)
                    cur = nested
            elif e.kind == 101:
                o = Obs("ret", e.a & 255, e.b, e.seq, 0, thr)
            elif e.kind == 102:
                o = Obs("begin", e.a, 0, e.seq, 0, thr)
                in_callout = True
            elif e.kind == 103:
                o = Obs("end", e.a, 0, e.seq, 0, thr)
                in_callout = False
            elif e.kind < 32 and e.off == lay["state"] and e.size == 8:
                if e.kind == 1:
                    o = Obs("see", e.a, 0, e.seq, e.line, thr)
                elif e.kind in (4, 5):
                    o = Obs("cas", e.a, e.b, e.seq, e.line, thr) if (e.ok & 1) else Obs("see", e.a, 0, e.seq, e.line, thr)
                elif e.kind == 10 and e.b == lay["DIRTY"]:
                    o = Obs("xor", e.a, (e.a ^ e.b) & M64, e.seq, e.line, thr)
                else:
                    notes.append("operation on dq_state that the model has no step for: %s" % e.brief())
                    continue
            elif e.kind < 32 and lay["state"] <= e.off < lay["state"] + 8:
                notes.append("narrow operation on dq_state: %s" % e.brief())
                continue
            else:
                continue
            cur["obs"].append(o)
            if o.k == "ret" and cur is nested:
                cur, nested = top, None
        for s in out:
            for i, o in enumerate(s["obs"]):
                o.idx = i
            if s["obs"]:
                streams.append(s)
    return streams, notes


def chain_once(events, start, limit):
    """order the successful transitions so that old(e_k) = new(e_{k-1}) (old(e_0) = start), keeping every thread's program
    order; depth-first with the recorder's ticket as the preference. returns (ordered list or None, value reached)"""
    byth = {}
    for e in events:
        byth.setdefault(e.thr, []).append(e)
    for t in byth:
        byth[t].sort(key=lambda e: e.seq)      # a thread's tickets are in its program order (nested calls were split off)
    pos = {t: 0 for t in byth}
    order, cur, steps = [], start, 0
    stack = []
    n = len(events)
    while len(order) < n:
        cands = sorted([byth[t][pos[t]] for t in byth if pos[t] < len(byth[t]) and byth[t][pos[t]].a == cur], key=lambda e: e.seq)
        stack.append([cands, 0, cur])
        while True:
            steps += 1
            if steps > limit or not stack:
                return None, cur
            top = stack[-1]
            if top[1] < len(top[0]):
                e = top[0][top[1]]
                top[1] += 1
                order.append(e)
                pos[e.thr] += 1
                cur = e.b
                break
            stack.pop()
            if not order:
                return None, cur
            e = order.pop()
            pos[e.thr] -= 1
            cur = stack[-1][2] if stack else start
    return order, cur


def chain(events, start, limit=400000):
    """the order search has a step budget; exhausting it is not a verdict: one more attempt with ten times the budget"""
    order, cur = chain_once(events, start, limit)
    if order is None:
        order, cur = chain_once(events, start, 10 * limit)
    return order, cur


def eval_retry(name, body, timeout):
    """coq_eval; a wall-clock expiry is repeated once with ten times the limit (R3)"""
    ok, vals, raw = driver.coq_eval(name, IMPORTS, body, timeout=timeout)
    if not ok and "TIMEOUT" in raw:
        ok, vals, raw = driver.coq_eval(name, IMPORTS, body, timeout=10 * timeout)
    return ok, vals, raw


def coq_replay(name, jobs, chunk_obs=9000, timeout=900):
    """jobs: list of (rb, tid, [Obs]); returns list of (first rejected index, idle at end)"""
    out = []
    i = 0
    part_no = 0
    while i < len(jobs):
        part, n = [], 0
        while i < len(jobs) and (not part or n + len(jobs[i][2]) <= chunk_obs):
            part.append(jobs[i])
            n += len(jobs[i][2])
            i += 1
        body = ["Definition jobs : list (Z * Z * list obs) := ["]
        body.append(";\n".join("(%d, %d, [%s])" % (rb, tid, "; ".join(o.coq() for o in tr)) for rb, tid, tr in part))
        body.append("].")
        body.append("Eval vm_compute in map (fun '(rb, t, tr) => let '(i, d) := replay rb t tr in [i; d]) jobs.")
        ok, vals, raw = eval_retry("%s_%d_%d" % (name, os.getpid(), part_no), "\n".join(body) + "\n", timeout)
        part_no += 1
        if not ok or len(vals) != 1:
            raise RuntimeError("coq replay evaluation failed: " + raw[-2000:])
        xs = driver.ints(vals[0])
        if len(xs) != 2 * len(part):
            raise RuntimeError("coq replay printed %d numbers for %d traces" % (len(xs), len(part)))
        out += [(xs[2 * k], xs[2 * k + 1]) for k in range(len(part))]
    return out


def coq_diag(name, rb, tid, tr):
    body = "Eval vm_compute in replay_diag %d %d [%s].\n" % (rb, tid, "; ".join(o.coq() for o in tr))
    ok, vals, raw = eval_retry("%s_%d" % (name, os.getpid()), body, 300)
    return vals[0] if ok and vals else raw[-500:]


def suspended(lay, w):
    return w >= lay["NA"]


def judge_round(lay, rd, streams, label):
    """chain + real-time oracle. returns (failures, mismatches, stats)"""
    fails, mism = [], []
    st = {"late_licensed": 0, "begins": 0, "begins_while_owed": 0, "transitions": 0, "slow_suspend": 0, "slow_resume": 0,
          "resume_took_lock": 0, "resume_dirty_locked": 0, "finish_reenqueue": 0, "unlock_suspended": 0,
          "lock_refused_suspended": 0, "activation_by_activate": 0, "activation_by_resume": 0, "wakeup_suspended_no_enq": 0,
          "suspend_in_callout": 0, "max_count": 0}
    trans = [o for s in streams for o in s["obs"] if o.k in ("cas", "xor")]
    order, reached = chain(trans, rd["st0"])
    if order is None or (not rd.get("crashed") and reached != rd["st1"]):
        mism.append({"what": "%s: the successful dq_state transitions do not form one chain from the initial to the final word "
                             "(a state change escaped the recorder, or a recorded value is wrong)" % label,
                     "detail": {"transitions": len(trans), "reached": reached, "final": rd.get("st1")}})
        return fails, mism, st
    st["transitions"] = len(order)
    pos = {id(e): k for k, e in enumerate(order)}
    vals = [rd["st0"]] + [e.b for e in order]        # vals[k] = word after k transitions
    SI, HS, NA, IN = lay["SI"], lay["HAS_SIDE"], lay["NA"], lay["INACTIVE"]
    side, bad_side = 0, False      # dq_side_suspend_cnt along the chain: it only changes with the transfers, under the side lock
    for e in order:
        d = (e.b >> 58) - (e.a >> 58)
        st["max_count"] = max(st["max_count"], (e.b >> 58) + side)
        if d == -31:
            st["slow_suspend"] += 1
            e.side = side
            side += 32
        elif d == 31:
            st["slow_resume"] += 1
            e.side = side
            side -= 32
        # the side bit mirrors the side counter (binv: b_ssc), at every word of the chain
        if bool(e.b & HS) != (side > 0) and not bad_side:
            bad_side = True
            mism.append({"what": "%s: HAS_SIDE_SUSPEND_CNT in %#x does not mirror the side counter (%d after this transfer) "
                                 "(the model's counting invariant b_ssc)" % (label, e.b, side),
                         "detail": {"old": e.a, "new": e.b, "line": e.line}})
        oa, ob = e.a & 0x3fffffff, e.b & 0x3fffffff
        if suspended(lay, e.a) and not suspended(lay, e.b):
            if ob and not oa:
                st["resume_took_lock"] += 1
            elif oa and ob == oa:
                st["resume_dirty_locked"] += 1
        if oa and not ob and suspended(lay, e.a):
            st["unlock_suspended"] += 1
        if oa and not ob and not suspended(lay, e.b) and (e.b & lay["DIRTY"]) and (e.b & lay["ENQ"]):
            st["finish_reenqueue"] += 1
        if suspended(lay, e.a) and e.b == e.a ^ lay["ENQ"] and (e.a & lay["ENQ"]):
            st["lock_refused_suspended"] += 1
        if suspended(lay, e.a) and (e.b >> 55) == (e.a >> 55) and oa == ob and (e.b & lay["DIRTY"]) and not (e.b & lay["ENQ"]) \
                and not (e.a & lay["ENQ"]) and e.b != e.a:
            st["wakeup_suspended_no_enq"] += 1
        if (e.a & (NA | IN)) == (NA | IN) and not (e.b & (NA | IN)):
            st["activation_by_activate"] += 1
        if (e.a & NA) and not (e.a & IN) and not (e.b & NA):
            st["activation_by_resume"] += 1
    if rd.get("crashed"):
        return fails, mism, st
    if side != rd["side"] and not bad_side:
        mism.append({"what": "%s: the side counter is %d at the end of the round, the transfers on the chain sum to %d" % (label, rd["side"], side)})
    # marks
    susp_ret = sorted(o.seq for s in streams for o in s["obs"] if o.k == "ret" and o.a == 2)
    res_call = sorted(o.seq for s in streams for o in s["obs"] if o.k == "call" and o.a == "CResume")
    act_call = sorted(o.seq for s in streams for o in s["obs"] if o.k == "call" and o.a == "CActivate")
    import bisect
    for s in streams:
        if s["nested"]:
            st["suspend_in_callout"] += sum(1 for o in s["obs"] if o.k == "call" and o.a == "CSuspend")
            continue
        obs = s["obs"]
        for i, o in enumerate(obs):
            if o.k != "begin":
                continue
            st["begins"] += 1
            if rd["inactive"] and (not act_call or act_call[0] > o.seq):
                fails.append({"key": "started-before-activate", "what": "%s: item %d of a queue created inactive began its callout "
                              "before dispatch_activate was called" % (label, o.a), "round": rd["round"]})
            owed = bisect.bisect_left(susp_ret, o.seq) - bisect.bisect_left(res_call, o.seq)
            if owed <= 0:
                continue
            st["begins_while_owed"] += 1
            # the drainer's last look at dq_state before this callout, after its previous callout / its lock
            j, look = i - 1, None
            while j >= 0 and obs[j].k not in ("end", "cas", "xor"):
                if obs[j].k == "see" and look is None:
                    look = obs[j]
                j -= 1
            prev_rmw = next((obs[k] for k in range(i - 1, -1, -1) if obs[k].k in ("cas", "xor")), None)
            next_rmw = next((obs[k] for k in range(i + 1, len(obs)) if obs[k].k in ("cas", "xor")), None)
            if look is None:
                fails.append({"key": "start-while-suspended-unchecked", "what": "%s: item %d began while %d dispatch_suspend call(s) had "
                              "returned and not been resumed, and the drainer had not read dq_state since its previous item" % (label, o.a, owed),
                              "round": rd["round"]})
                continue
            if suspended(lay, look.a):
                fails.append({"key": "start-while-suspended", "what": "%s: item %d began while %d dispatch_suspend call(s) had returned "
                              "and not been resumed although the drainer's last read of dq_state (%#x) showed the queue suspended" %
                              (label, o.a, owed, look.a), "round": rd["round"]})
                continue
            lo = pos[id(prev_rmw)] + 1 if prev_rmw is not None else 0
            hi = pos[id(next_rmw)] if next_rmw is not None else len(order)
            # the read must return a value of the chain segment of this drain that precedes a suspended value
            ks = [k for k in range(lo, hi + 1) if vals[k] == look.a]
            later_susp = [k for k in range(lo, hi + 1) if suspended(lay, vals[k])]
            if not ks or not later_susp or min(ks) > max(later_susp):
                fails.append({"key": "start-while-suspended-unlicensed", "what": "%s: item %d began while %d suspension(s) were owed and the "
                              "drainer's last read of dq_state (%#x) does not precede the suspending RMW in the word's chain" %
                              (label, o.a, owed, look.a), "round": rd["round"]})
                continue
            st["late_licensed"] += 1
    return fails, mism, st


MUST = ["begins", "transitions", "resume_took_lock", "unlock_suspended", "slow_suspend", "slow_resume", "suspend_in_callout",
        "activations"]
RULE = ("per round one serial queue (active / initially inactive) under dispatch_async_f floods from 1-4 threads, balanced "
        "random dispatch_suspend / dispatch_resume from 1-3 controller threads (nesting 1-4; round 1 of every run and a third of "
        "the others: one controller nests 62-100 deep), suspends issued by work items on their own queue and resumed by a "
        "helper thread, dispatch_activate from 1-2 threads (round 2 of every run is created inactive); perturbation 0 / 150 / "
        "400 per mille of the atomic operations; every thread trace replayed in Coq against SLaneS.gstep, dq_state chain "
        "rebuilt, real-time oracle on API / callout marks; evaluations = observations actually replayed in Coq")


def judge_run(tag, seed, rounds, permille, scale):
    """one harness run with these parameters, completely judged (oracle, chain, Coq replay).
    returns dict(fails, mism, notes, stats, samples, observations, streams, rounds_done)"""
    out = {"fails": [], "mism": [], "notes": [], "stats": {}, "samples": [], "observations": 0, "streams": 0, "rounds_done": 0,
           "inactive_rounds": 0, "deep_rounds": 0, "nested_calls": 0}
    fails, mism = out["fails"], out["mism"]
    run = {"seed": seed, "rounds": rounds, "permille": permille, "scale": scale}
    run_label = "seed %d perturbation %d/1000" % (seed, permille)
    text, died = run_harness(seed, rounds, permille, scale)
    jobs, jobinfo = [], []
    try:
        lay, rds, per = parse(text)
    except Exception as e:      # noqa
        if died:
            fails.append(dict(run, key="stress-client-died", what="the stress client crashed or hung (%s): %s" % (run_label, died)))
        else:
            mism.append(dict(run, what="%s: the recorder's output could not be parsed (empty or truncated): %r" % (run_label, e)))
        return out
    if died:
        fails.append(dict(run, key="stress-client-died", what="the stress client crashed or hung (%s): %s" % (run_label, died)))
        # the recording made up to the crash is still judged: it shows the first transition the model does not allow
        try:
            bl = [l.split() for l in text.split("\n") if l.startswith("B ")]
            if bl and (not rds or int(bl[-1][1]) != rds[-1]["round"]):
                b = [int(x) for x in bl[-1][1:]]
                rdc = {"round": b[0], "addr": b[1], "inactive": b[2], "st0": b[3], "seq0": b[4], "seq1": 1 << 62, "wq_end": 4,
                       "role": lay["ANON"], "crashed": True}
                streams, nn = normalise(lay, rdc, per)
                lbl = "%s round %d (crashed)" % (run_label, b[0])
                f2, m2, _ = judge_round(lay, rdc, streams, lbl)
                mism += [dict(m, **run) for m in m2]
                for st_ in streams:
                    jobs.append((1, st_["tid"] & 0x3fffffff, st_["obs"]))
                    jobinfo.append((lbl, rdc, st_))
        except Exception as e:      # noqa
            out["notes"].append("partial recording of the crashed run could not be judged: %r" % (e,))
    elif len(rds) != rounds:
        # a round that is not reported although the client exited normally was not measured: say so (R2)
        mism.append(dict(run, what="%s: %d rounds requested, %d reported by the stress client" % (run_label, rounds, len(rds))))
    agg = out["stats"]
    for rd in rds:
        label = "%s round %d" % (run_label, rd["round"])
        out["rounds_done"] += 1
        out["inactive_rounds"] += rd["inactive"]
        out["deep_rounds"] += 1 if rd["deep"] else 0
        rp = dict(run, round=rd["round"])
        if not rd["ok"] or rd["ran"] != rd["nitems"]:
            fails.append(dict(rp, key="not-all-run-after-final-resume",
                              what="%s: %d of %d submitted items had run although nothing was suspended any more and no item had "
                                   "started for 20 s (suspends %d, resumes %d, final dq_state %#x)" % (
                                       label, rd["ran"], rd["nitems"], rd["nsusp"], rd["nres"], rd["st1"])))
        if suspended(lay, rd["st1"]) or rd["side"] != 0:
            fails.append(dict(rp, key="still-suspended-after-balanced-history",
                              what="%s: after %d suspends and %d resumes the word is %#x and the side counter %d" % (
                                  label, rd["nsusp"], rd["nres"], rd["st1"], rd["side"])))
        streams, nn = normalise(lay, rd, per)
        for n in nn[:5]:
            mism.append(dict(rp, what="%s: %s" % (label, n)))
        if not streams:
            mism.append(dict(rp, what="%s: no operation on the queue was recorded" % label))
        rb = 1 if rd["role"] == lay["ANON"] else 0
        for st_ in streams:
            jobs.append((rb, st_["tid"] & 0x3fffffff, st_["obs"]))
            jobinfo.append((label, rd, st_))
            out["nested_calls"] += 1 if st_["nested"] else 0
        out["streams"] += len(streams)
        f2, m2, stt = judge_round(lay, rd, streams, label)
        fails += [dict(f, **rp) for f in f2]
        mism += [dict(m, **rp) for m in m2]
        for k, v in stt.items():
            agg[k] = max(agg.get(k, 0), v) if k == "max_count" else agg.get(k, 0) + v
        if len(out["samples"]) < 3:
            out["samples"].append({"run": label, "inactive": rd["inactive"], "deep": rd["deep"], "items": rd["nitems"],
                                   "suspends": rd["nsusp"], "transitions": stt["transitions"], "streams": len(streams)})
    # (a) replay of every thread trace against gstep, inside Coq
    res = []
    if jobs:
        try:
            res = coq_replay("%s_s%d" % (tag, seed), jobs)
        except RuntimeError as e:
            mism.append(dict(run, what="%s: replay of the recorded traces against SLaneS.gstep could not be evaluated" % run_label,
                             detail=str(e)[-1500:]))
        if res and len(res) != len(jobs):
            mism.append(dict(run, what="%s: %d traces sent to Coq, %d verdicts came back" % (run_label, len(jobs), len(res))))
            res = []
    rejected = 0
    for (idx, idle), (label, rd, st_), (rb, tid, tr) in zip(res, jobinfo, jobs):
        out["observations"] += len(tr)
        if idx >= 0 or (not idle and not rd.get("crashed")):
            rejected += 1
            if rejected <= 3:
                lo = max(0, idx - 6)
                detail = {"thread": st_["thr"], "tid": tid, "nested": st_["nested"], "index": idx, "idle_at_end": idle,
                          "around": [o.brief() for o in tr[lo:idx + 3]] if idx >= 0 else [o.brief() for o in tr[-6:]]}
                if idx >= 0:
                    detail["candidates"] = coq_diag("%s_diag%d" % (tag, rejected), rb, tid, tr[:idx + 1])[:600]
                    # the rejected trace from the thread's last return to idle, so that it can be fed to the model again
                    cut = max([k for k in range(idx) if tr[k].k == "ret"] + [-1]) + 1
                    if idx + 1 - cut <= 1500:
                        detail["trace"] = {"rb": rb, "tid": tid, "obs": [o.coq() for o in tr[cut:idx + 1]]}
                mism.append(dict(run, round=rd["round"],
                                 what="%s: the model (SLaneS.gstep) does not allow observation #%d of thread %d: %s" % (
                                     label, idx, st_["thr"], tr[idx].brief() if 0 <= idx < len(tr) else
                                     "thread not idle at the end of the round"), detail=detail))
    if rejected > 3:
        mism.append(dict(run, what="%s: %d further thread traces rejected by the model" % (run_label, rejected - 3)))
    return out


def correspond(ctx, tag="c06_slane"):
    quick = ctx.tier == "quick"
    plans = [(0, 4 if quick else 10, 1), (150, 8 if quick else 24, 1), (400, 6 if quick else 20, 1)]
    if not quick:
        plans.append((250, 10, 2))
    mism, fails, notes, samples = [], [], [], []
    dist = {"runs": 0, "rounds": 0, "inactive_rounds": 0, "deep_rounds": 0, "streams": 0, "nested_calls": 0, "observations": 0}
    agg = {}
    for permille, rounds, scale in plans:
        seed = ctx.rng.below(1 << 30) + 1
        try:
            o = judge_run(tag, seed, rounds, permille, scale)
        except RuntimeError as e:      # the harness could not be built
            mism.append({"what": "stress client seed %d: %s" % (seed, str(e)[-1500:])})
            continue
        dist["runs"] += 1
        fails += o["fails"]
        mism += o["mism"]
        notes += o["notes"]
        samples += o["samples"][:2]
        dist["rounds"] += o["rounds_done"]
        for k in ("inactive_rounds", "deep_rounds", "streams", "nested_calls", "observations"):
            dist[k] += o[k]
        for k, v in o["stats"].items():
            agg[k] = max(agg.get(k, 0), v) if k == "max_count" else agg.get(k, 0) + v
    dist.update(agg)
    dist["activations"] = dist.get("activation_by_activate", 0) + dist.get("activation_by_resume", 0)
    # floors (R2): a run that measured nothing, or never reached the paths this part exists for, ties nothing
    if dist["rounds"] == 0 or dist["observations"] == 0:
        mism.append({"what": "the protocol part recorded %d rounds and replayed %d observations: nothing was measured" % (
            dist["rounds"], dist["observations"])})
    elif not fails and not mism:
        missing = [k for k in MUST if not dist.get(k)]
        if missing:
            mism.append({"what": "the stress runs never reached: %s (they are not a test of those paths of the protocol)" % ", ".join(missing),
                         "detail": {k: dist.get(k, 0) for k in MUST}})
    return {"evaluations": dist["observations"], "distinct_nontrivial": dist["streams"], "rule": RULE,
            "samples": samples[:6], "distribution": dist, "mismatches": mism[:20], "failures": fails[:20], "notes": notes}


def replay(ctx, obj):
    """re-executes every recorded run (same seed, round count, perturbation, scale) on the current build and judges it again with
    the whole judge (oracle, chain, Coq replay).  rc 1: a recorded failure (same key) or, for a recorded mismatch, any mismatch
    shows again; 0: none does; 2: an entry names no run that could be executed."""
    entries = [("failure", f) for f in obj.get("failures", [])]
    for b in obj.get("broken", []):
        d = b.get("detail") if isinstance(b, dict) else None
        entries.append(("mismatch", d if isinstance(d, dict) else {"what": str(b)}))
    reproduced = unexecutable = 0
    done = {}
    for kind, e in entries:
        print("recorded %s: %s" % (kind, e.get("what")))
        tr = (e.get("detail") or {}).get("trace") if isinstance(e.get("detail"), dict) else None
        if tr:
            body = "Eval vm_compute in replay %d %d [%s].\n" % (tr["rb"], tr["tid"], "; ".join(tr["obs"]))
            ok, vals, raw = eval_retry("c06_slane_rp_%d" % os.getpid(), body, 300)
            print("  the recorded trace against the model built from the current tree: %s" % (
                ("first rejected observation, idle at end = " + " ".join(vals[0].split())) if ok and vals else "could not be evaluated"))
        if not all(k in e for k in ("seed", "rounds", "permille", "scale")):
            print("  names no stress run: nothing to execute; only a full ./check re-establishes it")
            unexecutable += 1
            continue
        key = (e["seed"], e["rounds"], e["permille"], e["scale"])
        if key not in done:
            try:
                done[key] = judge_run("c06_slane_rp", *key)
            except RuntimeError as ex:
                print("  the stress client could not be built: %s" % str(ex)[-300:])
                unexecutable += 1
                continue
        o = done[key]
        again = [f for f in o["fails"] if f.get("key") == e.get("key")] if kind == "failure" else list(o["mism"])
        if again:
            reproduced += 1
            print("  re-run of seed %d (%d rounds, %d/1000, scale %d) REPRODUCES: %s" % (key + (again[0]["what"][:400],)))
        else:
            print("  re-run of seed %d (%d rounds, %d/1000, scale %d): does not reproduce (%d rounds, %d observations judged, "
                  "%d other failures, %d mismatches)" % (key + (o["rounds_done"], o["observations"], len(o["fails"]), len(o["mism"]))))
    if not entries:
        print("the replay file names nothing for the protocol part")
        return 2
    return 1 if reproduced else (2 if unexecutable else 0)
