"""C11 — timers and dispatch_after never fire early and always fire.
   Model/Heap.v (hand model of the timer double heap over Gen_timer index arithmetic), Model/TimerRun.v (compute_missed,
   _dispatch_timers_run / program / configure / arm / disarm as a sequential state machine, plus the source side: the
   rules of src/source.c for issuing them).  Tie: white-box harness harness/c11_heap.c which #includes src/event/event.c
   and drives the static functions on private records; c11_cfg.c (#include source.c), c11_epoll.c (#include
   event_epoll.c), c11_trace.c (recorded runs of the whole library replayed through the model), c11_e2e.c (public API)."""
import os
import common
import driver

PROPERTIES_FILE = "Properties/Properties_C11.v"
COQ_DEPS = ["Proofs/Heap_proofs.vo", "Proofs/TimerRun_proofs.vo", "Proofs/TimerSys_proofs.vo", "Proofs/TimerSrc_proofs.vo"]
GEN_MODULES = ["Gen_timer"]
LEVEL = "proof"
COQ_TIMEOUT = 2400
TRUSTED = [
    "Model/Heap.v and Model/TimerRun.v are hand-written; tied by running the library's own static functions "
    "(_dispatch_timer_heap_insert/remove/update, _dispatch_timer_unote_compute_missed, _dispatch_timers_run, "
    "_dispatch_timers_program, _dispatch_event_loop_drain_timers, _dispatch_timer_unote_configure/resume/unregister, "
    "_dispatch_timer_config_create, _dispatch_interval_config_create, _dispatch_after) on the same inputs / operation "
    "sequences and comparing the complete state after every operation, including whether the unote is registered "
    "(white-box harnesses that #include src/event/event.c resp. src/source.c).  Masked in that comparison: cells of the "
    "heap segments beyond dth_count that once held a segment pointer keep the stale pointer in the library and are "
    "canonicalised to NULL before comparing (the library never reads them)",
    "GRANULARITY / ATOMICITY (not proved): one model step is one whole C function, executed atomically "
    "(one _dispatch_timers_run iteration, one _dispatch_source_latch_and_call with _dispatch_source_timer_data, one "
    "_dispatch_timer_unote_configure ...), while in the library the manager thread, the thread draining the source and "
    "client threads share ds_pending_data, dt_pending_config and dt_timer.  C11_count_bound, C11_latch_count, "
    "C11_state_invariant, C11_always_fires and C11_after_at_most_once are theorems about interleavings of whole steps.  "
    "Why this is taken to be adequate: every heap operation, _dispatch_timers_run, and configure / resume of an armed "
    "timer run on the manager thread only (source.c:771-776 and :866-869 hop to the manager queue first; checked on every "
    "recorded run, key trace:thread); ds_pending_data is only accessed atomically - manager: relaxed load event.c:1092, "
    "os_atomic_or_orig :1094, stores :1062 :1105 :1109(release) :879; handler: os_atomic_xchg source.c:534 - and the one "
    "window inside a step (load :1092, or_orig :1094) resolves to the model's latch-then-fire order because the run "
    "continues with the value or_orig returned; dt_pending_config is exchanged atomically on both sides (source.c:1320, "
    "event.c:870); dt_timer is written off the manager thread only by the handler's catch-up (source.c:505-526) and only "
    "after it latched the DISARMED marker, i.e. while the timer is out of the heap and before the rearm of the same invoke "
    "(source.c:866 after :801), ordered by the release store event.c:1109 / the dependency fence source.c:515.  No "
    "weak-memory model backs this; the trace replay checks it on real multi-thread executions (each recorded "
    "_dispatch_unote_resume / fire / latch sees exactly the state the atomic-step model predicts)",
    "the latch differential of the white-box harness (command l, harness/c11_heap.c:225-237) runs a TRANSCRIPTION of "
    "source.c:529-546 + 505-526, not source.c itself (event.c and source.c cannot be #included together).  source.c's "
    "real latch is tied by the trace replay instead: harness/c11_trace.c links the library's own source.c, the "
    "DISPATCH_VERIF hook records its os_atomic_xchg of ds_pending_data (source.c:534) with thread and value, the handler "
    "records dispatch_source_get_data, and the state of the timer at the following _dispatch_unote_resume (target, "
    "deadline after the catch-up of source.c:521) must equal the model's after `latch` (keys trace:latch-data, "
    "trace:resume-state); the end-to-end oracle checks the reported counts of the real library against the boundaries",
    "the source side (Model/TimerRun.v: wake_needed = _dispatch_source_wakeup's test, invoke_step = the order of actions in "
    "_dispatch_source_invoke2, xstep = where dx_wakeup is called) is modelled by reading src/source.c:715-975.  wake_needed and "
    "invoke_step are extracted (Extract_c11.v) and evaluated by the trace replay at every recorded source-side call of the "
    "library (_dispatch_timer_unote_configure, _dispatch_unote_resume, _dispatch_unote_unregister, the latch of source.c): "
    "wake_needed must be true of the model's state there (key trace:wake-needed) and the state after the library's own action "
    "must equal the state invoke_step produces (key trace:invoke-step; counts trace_src_wake_checks / trace_src_invoke_compared; "
    "not compared, only counted in trace_src_invoke_skipped: a call made while a configuration raced in or the source was "
    "suspended during the call).  NOT tied by any execution: xstep's placement of dx_wakeup at the client operations (the "
    "recorder does not hook dx_wakeup; the necessary direction - the library invokes only when wake_needed holds - is what is "
    "checked), and x_enq itself, which abstracts the lane's enqueue / DIRTY protocol: that an enqueued unsuspended source is "
    "eventually invoked and that a dx_wakeup racing with an invoke is not lost belongs to C01/C04 and is NOT proved here; one "
    "XInvoke = one action of invoke2.  A library transition the xstep system does not have: a set_timer between invoke2's "
    "configure test and its rearm test makes invoke2 resume an armed timer with the old values (counted: "
    "trace_resume_with_config_pending)",
    "C11_never_early and C11_set_timer_replaces are definitional (they restate run_loop's guard / unfold configure): their "
    "content is the correspondence of run_loop and configure with the library.  C11_count_bound speaks about one repeating "
    "timer between two set_timer calls; C11_kernel_timer_refines is a per-step, one-directional refinement",
    "the segmented storage of the heap is modelled as a flat map; get_slot's cell computation is modelled separately "
    "(slot_addr), proved injective and in bounds, and compared with the addresses the library computes",
    "clock readings are parameters; in the white-box runs the manager's clock cache is faked, in the end-to-end runs the "
    "handlers read the real clocks (CLOCK_MONOTONIC / CLOCK_BOOTTIME / CLOCK_REALTIME)",
    "kernel side: _dispatch_timeout_program / _dispatch_event_loop_timer_arm/_delete / _dispatch_event_merge_timer of "
    "src/event/event_epoll.c are modelled (timeout_program, merge_timer_k, kernel_expired) and tied by harness/c11_epoll.c "
    "(#include of event_epoll.c; only timerfd_create / timerfd_settime / epoll_ctl are recorders); that the kernel delivers "
    "the expiry of an armed timerfd through epoll is assumed (step SExpire may happen at any time)",
    "the guards of the system theorems (resume only without the DISARMED marker pending, values set before activation, one "
    "thread touches the heaps, configuration ranges) are checked on recorded runs of the whole library: harness/c11_trace.c "
    "runs a public-API scenario in a real multi-threaded process whose event.c is the #included copy, records every entry "
    "into the timer machinery (DISPATCH_VERIF atomic hook for the accesses of src/source.c), and props/c11_trace.py replays "
    "the record through the extracted model, comparing every manager pass (fires, kernel calls, timer states); events of "
    "other threads are ordered by the values the manager's loads observed, a replay cut short by an unresolvable race is "
    "counted in trace_traces_cut_short_by_a_cross_thread_race",
    "the hop of the fired source to its target queue (dux_merge_evt -> handler) is outside the model (C15/C01)",
]
ASSUMPTIONS = ["at most 2^30 - 12 timer records (N with 2N + 2 <= capacity of 29 heap segments); index arithmetic is 32 bit",
               "clock values below 2^62 - 1 (Model/Time.v clocks_ok, as for C12) resp. below 2^63 for cached readings",
               "the manager thread runs _dispatch_event_loop_drain_timers whenever the dirty bits are set and when the programmed "
               "timerfd expires (kernel, scheduler); within one call the clock readings are the cached ones (constant)",
               "C11_always_fires / C11_rearm_progress / C11_after_at_most_once: the lane invokes an enqueued, unsuspended source "
               "(x_enq; C01/C04); histories are restricted by xguard: no dispatch_source_cancel before dispatch_activate "
               "(source.c:649-652 handles that case, the model does not), no dispatch_suspend of an inactive source, "
               "SINGLE-LEVEL suspension (t_susp is a flag, not dq_state's suspend count: suspend;suspend;resume is outside the "
               "theorems), dispatch_after sources are never cancelled or reconfigured (they are private to _dispatch_after)",
               "whole C functions are atomic steps (see TRUSTED, GRANULARITY)"]

U64 = 1 << 64
I63 = (1 << 63) - 1
INVALID = 0xFFFFFFFF


def Z(x):
    return "(%d)" % x if x < 0 else "%d" % x


# ---------------------------------------------------------------------------------------------------------
# heap operation sequences

def pick_key(rng, mode):
    if mode == 0:
        return rng.below(3)
    if mode == 1:
        return rng.below(40)
    if mode == 2:
        return rng.choice([0, 1, I63 - 1, I63, I63 + 1, U64 - 1, U64 - 2, rng.range(0, U64 - 1)])
    return rng.range(0, 1 << 40)


def gen_heap_seq(rng, nt, length, mode):
    """valid operation sequence over timers 1..nt; phases of growth and shrinking so that segments come and go"""
    inh = []
    ops = []
    grow = True
    for i in range(length):
        if i % max(4, nt) == 0:
            grow = rng.chance(3, 5)
        out = [t for t in range(1, nt + 1) if t not in inh]
        want_ins = rng.chance(7, 10) if grow else rng.chance(1, 6)
        if (want_ins and out) or not inh:
            t = rng.choice(out)
            a = pick_key(rng, mode)
            b = pick_key(rng, mode) if rng.chance(1, 3) else min(U64 - 1, a + rng.below(4))
            ops.append(("I", t, a, b))
            inh.append(t)
        elif rng.chance(1, 2):
            t = rng.choice(inh)
            ops.append(("D", t))
            inh.remove(t)
        else:
            t = rng.choice(inh)
            a = pick_key(rng, mode)
            b = pick_key(rng, mode) if rng.chance(1, 3) else min(U64 - 1, a + rng.below(4))
            ops.append(("U", t, a, b))
    return ops


def heap_input(nt, ops):
    lines = ["N %d" % nt]
    for o in ops:
        if o[0] == "D":
            lines.append("D %d" % o[1])
        else:
            lines.append("K %d %d %d" % (o[1], o[2], o[3]))
            lines.append("%s %d" % (o[0], o[1]))
    return lines


def hop(o):
    if o[0] == "D":
        return "HDel %d" % o[1]
    return "%s %d %d %d" % ("HIns" if o[0] == "I" else "HUpd", o[1], o[2], o[3])


def former_pointer_cells(segs):
    """cells (by idx) of the non-last segments k >= 1 that held the segment pointer table while segment k was the last
    one: after a grow they are ordinary timer cells again but keep the stale table entries until a timer is stored
    there (they are >= dth_count whenever that is the case: the library never reads them)"""
    cells = set()
    for k in range(1, segs - 1):
        hi = 8 << k
        for i in range(hi - k, hi):
            cells.add(i + 2)
    return cells


def parse_dump(line):
    d = [int(x) for x in line.replace("|", " ").split()]
    count, segs, cap = d[0], d[1], d[3]
    for idx in former_pointer_cells(segs):
        if idx >= count and idx < cap and d[4 + idx] == -1:
            d[4 + idx] = 0     # stale segment pointer beyond count, in a cell that legitimately held one
    return d


def exhaustive_seqs(nt, depth):
    """all valid sequences of `depth` operations over nt timers; insert key = fixed per timer (with ties), update toggles
    between two key pairs"""
    k_ins = {1: (1, 1), 2: (1, 2), 3: (0, 2), 4: (2, 2), 5: (1, 0)}
    k_upd = {1: (2, 0), 2: (0, 0), 3: (3, 3), 4: (0, 1), 5: (1, 1)}
    res = []

    def rec(seq, inh, toggled):
        if len(seq) == depth:
            res.append(list(seq))
            return
        for t in range(1, nt + 1):
            if t not in inh:
                seq.append(("I", t) + k_ins[t]); inh.add(t)
                rec(seq, inh, toggled)
                inh.discard(t); seq.pop()
            else:
                seq.append(("D", t)); inh.discard(t)
                rec(seq, inh, toggled)
                inh.add(t); seq.pop()
                k = k_ins[t] if t in toggled else k_upd[t]
                was = t in toggled
                seq.append(("U", t) + k)
                toggled.symmetric_difference_update({t})
                rec(seq, inh, toggled)
                toggled.symmetric_difference_update({t})
                seq.pop()
    rec([], set(), set())
    return res


LOAD_RETRIES = {"n": 0}


def run3(cmd, input=None, timeout=600):
    """common.run with the load rule: a wall-clock expiry alone never decides anything.  On expiry the unit is re-run ONCE,
       alone, with ten times the limit; only that second result is used (a second expiry is reported as such)"""
    r = common.run(cmd, input=input, timeout=timeout)
    if r.returncode == 124:
        LOAD_RETRIES["n"] += 1
        r = common.run(cmd, input=input, timeout=10 * timeout)
    return r


def run_both(exe, mexe, lines):
    """feed the same command lines to the library harness and to the extracted model; returns (impl_lines, model_lines, err)"""
    inp = "\n".join(lines) + "\n"
    r = run3([exe], input=inp, timeout=1800)
    if r.returncode != 0:
        return None, None, "harness exit %s: %s" % (r.returncode, (r.stderr or "")[-1500:])
    m = run3([mexe], input=inp, timeout=1800)
    if m.returncode != 0:
        return None, None, "model driver exit %s: %s" % (m.returncode, (m.stderr or "")[-1500:])
    return [l for l in r.stdout.split("\n") if l.strip()], [l for l in m.stdout.split("\n") if l.strip()], ""


def run_heap(exe, mexe, seqs):
    """seqs: list of (nt, ops). returns (impl dumps, model dumps) per sequence as int lists"""
    lines = []
    for nt, ops in seqs:
        lines += heap_input(nt, ops)
    out, mout, err = run_both(exe, mexe, lines)
    if out is None:
        return None, None, err
    res, mres, pos = [], [], 0
    for nt, ops in seqs:
        res.append([parse_dump(l) for l in out[pos:pos + len(ops)]])
        mres.append([[int(x) for x in l.split()] for l in mout[pos:pos + len(ops)]])
        pos += len(ops)
    if pos != len(out) or pos != len(mout):
        return None, None, "harness printed %d lines, model %d, expected %d" % (len(out), len(mout), pos)
    return res, mres, ""


def check_heap(seqs, dumps, mdumps):
    """entry-by-entry comparison of the complete dump after every operation"""
    mism, total = [], 0
    if not (len(seqs) == len(dumps) == len(mdumps)):
        return [{"what": "timer heap: %d sequences, %d library dumps, %d model dumps" % (len(seqs), len(dumps), len(mdumps)), "detail": {}}], 0
    for (nt, ops), ds, ms in zip(seqs, dumps, mdumps):
        if not (len(ops) == len(ds) == len(ms)):
            mism.append({"what": "timer heap: a sequence of %d operations produced %d library dumps and %d model dumps" % (len(ops), len(ds), len(ms)),
                         "detail": {"timers": nt, "ops": [list(o) for o in ops[:60]]}})
            continue
        for i, (d, m) in enumerate(zip(ds, ms)):
            total += 1
            if d != m:
                where = next((k for k in range(min(len(d), len(m))) if d[k] != m[k]), min(len(d), len(m)))
                mism.append({"what": "timer heap: library and Model/Heap.v differ after operation %d (%s) of a sequence, dump entry %d" % (i, list(ops[i]), where),
                             "detail": {"kind": "heap", "timers": nt, "ops": [list(o) for o in ops[:i + 1]], "impl_dump": d[:200], "model_dump": m[:200]}})
                break
        if len(mism) >= 10:
            break
    return mism, total


# ---------------------------------------------------------------------------------------------------------
# executable judge of the heap part (independent of the model): the library's dump must be a double heap

def judge_dump(d, keys, nt, present):
    """d = [count segs np | cap slots.. | ents..]; returns None or a description of what is wrong"""
    count, segs, np_, cap = d[0], d[1], d[2], d[3]
    slots = d[4:4 + cap]
    ents = d[4 + cap:]
    if count != 2 * len(present):
        return "count %d for %d stored timers" % (count, len(present))
    for hid in (0, 1):
        ids = [slots[i] for i in range(hid, count, 2)]
        if sorted(ids) != sorted(present):
            return "heap %d holds %s, stored set is %s" % (hid, ids, sorted(present))
        for k, t in enumerate(ids):
            if ents[2 * (t - 1) + hid] != 2 * k + hid:
                return "dt_heap_entry[%d] of timer %d is %d, the timer is at %d" % (hid, t, ents[2 * (t - 1) + hid], 2 * k + hid)
            if k > 0:
                p = ids[(k - 1) // 2]
                if keys[p][hid] > keys[t][hid]:
                    return "heap %d order broken: parent timer %d key %d > child timer %d key %d" % (hid, p, keys[p][hid], t, keys[t][hid])
        if ids and keys[ids[0]][hid] != min(keys[t][hid] for t in present):
            return "min slot %d is not a minimum" % hid
    for t in range(1, nt + 1):
        if t not in present and (ents[2 * (t - 1)] != INVALID or ents[2 * (t - 1) + 1] != INVALID):
            return "timer %d not stored but has heap entries" % t
    if any(s != 0 for s in slots[count:]):
        return "non-NULL cell beyond count"
    return None


def judge_heap(seqs, dumps, tag):
    fails = []
    for si, ((nt, ops), ds) in enumerate(zip(seqs, dumps)):
        keys, present = {}, []
        for i, (o, d) in enumerate(zip(ops, ds)):
            if o[0] == "I":
                keys[o[1]] = (o[2], o[3]); present.append(o[1])
            elif o[0] == "U":
                keys[o[1]] = (o[2], o[3])
            else:
                present.remove(o[1])
            w = judge_dump(d, keys, nt, present)
            if w:
                fails.append({"key": "heap:%s" % w.split(":")[0][:40], "what": "timer heap after %s: %s" % (list(o), w),
                              "kind": "heap", "timers": nt, "ops": [list(x) for x in ops[:i + 1]]})
                break
        if len(fails) >= 5:
            break
    return fails


# ---------------------------------------------------------------------------------------------------------
# compute_missed: boundary-directed values

LONG_MAX = I63
UINT64_MAX = U64 - 1


def gen_missed(rng, n):
    cases = []
    fixed = [(100, 150, 10, 135, 0), (100, 150, 10, 100, 0), (100, 100, 1, 100, 0), (5, 9, I63 - 1, I63 - 1, 0),
             (5, 9, I63, 7, 0), (5, 9, UINT64_MAX, 7, 3), (1, 1, 1, I63 - 1, 0), (1, 1, 1, I63 - 1, I63 - 5),
             (1, 2, 1, 100, LONG_MAX), (1, 2, 1, 100, LONG_MAX - 100), (1, 2, 1, 100, LONG_MAX - 99), (1, 2, 1, 100, LONG_MAX - 101),
             (0, 0, 3, 10, 0), (10, 12, 3, 9, 0)]
    cases += fixed
    for _ in range(n):
        kind = rng.below(8)
        itv = rng.choice([1, 2, 3, 7, 10, 1000, 10**9, I63 - 1, I63, I63 + 1, UINT64_MAX, rng.range(1, 1 << 40), rng.range(1, I63)])
        tg = rng.choice([1, 2, 1000, 10**18, I63 - 2, rng.range(1, 1 << 62)])
        lee = rng.choice([0, 1, itv // 2 if itv < I63 else 5, rng.below(1000)])
        dl = min(tg + lee, UINT64_MAX)
        if kind == 0:     # exactly on a boundary
            now = tg + itv * rng.below(50) if itv < (1 << 50) else tg
        elif kind == 1:   # one before / after a boundary
            now = tg + itv * rng.below(50) + rng.choice([-1, 1]) if itv < (1 << 50) else tg + 1
        elif kind == 2:
            now = tg
        elif kind == 3:
            now = I63 - 1
        elif kind == 4:   # now < target: never called so, still a defined unsigned computation
            now = max(0, tg - rng.range(1, 5))
        else:
            now = tg + rng.range(0, 1 << rng.range(1, 62))
        now = max(0, min(now, UINT64_MAX))
        prev = rng.choice([0, 0, 0, 1, 5, LONG_MAX, LONG_MAX - 1, LONG_MAX - rng.below(200), rng.range(0, 1 << 40)])
        cases.append((tg, dl, itv, now, prev))
    return cases


def judge_missed(c, out):
    """property side, in Python integers: for target <= now < 2^63, 1 <= interval, no clamp: count = boundaries passed,
    new target is the first boundary after now"""
    tg, dl, itv, now, prev = c
    r, ntg, ndl = out
    if not (tg <= now < (1 << 63) and itv >= 1 and prev + (now - tg) // itv + 1 <= LONG_MAX):
        return None
    k = (now - tg) // itv + 1
    if r - prev != k:
        return "count %d, boundaries passed %d" % (r - prev, k)
    if itv < I63:
        if ntg != tg + k * itv or not (ntg > now and ntg - itv <= now):
            return "new target %d is not the first boundary after now" % ntg
        if ndl != (dl + k * itv) % U64:
            return "deadline not pushed with the target"
    else:
        if ntg != UINT64_MAX:
            return "one-shot timer keeps a finite target"
    return None


# ---------------------------------------------------------------------------------------------------------
# _dispatch_timer_config_create / _dispatch_after (src/source.c), white-box harness c11_cfg.c

FOREVER = U64 - 1
WALLNOW = U64 - 2
MONONOW = 1 << 63
M62 = (1 << 62) - 1


def enc_time(clock, v):
    return v % U64 if clock == 0 else (v | MONONOW) % U64 if clock == 1 else (-v) % U64


def py_decode(when, wall_now):
    """_dispatch_time_to_clock_and_value in Python integers (property side)"""
    if when >= (1 << 63):
        if when & (1 << 62):
            clock, v = 2, (wall_now if when == WALLNOW else (-when) % U64)
        else:
            clock, v = 1, when & ((1 << 63) - 1)
    else:
        clock, v = 0, when
    return clock, (U64 - 1 if v > M62 else v)


def gen_cfg_cases(rng, n):
    import time as _t
    nows = [_t.clock_gettime_ns(_t.CLOCK_MONOTONIC), _t.clock_gettime_ns(_t.CLOCK_BOOTTIME), _t.clock_gettime_ns(_t.CLOCK_REALTIME)]
    G, H = [], []
    def a_time():
        k = rng.below(12)
        clock = rng.below(3)
        if k == 0:
            return rng.choice([0, MONONOW, WALLNOW, FOREVER])
        if k == 1:
            return enc_time(clock, rng.choice([1, 2, 3, M62 - 1, M62, M62 + 1, (1 << 62) + 5, I63 - 1, I63]))
        if k == 2:
            return rng.range(0, U64 - 1)
        d = rng.choice([1, 1000, 10**6, 9 * 10**6, 10**7, 10**7 + 11, 5 * 10**8, 10**9, 599 * 10**9, 600 * 10**9, 601 * 10**9, 10**13,
                        rng.range(1, 10**12), -rng.range(1, 10**9), -1])
        return enc_time(clock, max(1, nows[clock] + d))
    for _ in range(n):
        itv = rng.choice([0, 1, 2, 3, 1000, 10**9, I63 - 1, I63, I63 + 1, U64 - 1, rng.range(0, U64 - 1), rng.range(1, 1 << 40)])
        h = itv // 2 if itv < I63 else rng.range(0, 1000)
        lee = rng.choice([0, 1, h, h + 1, max(h - 1, 0), I63, I63 + 1, U64 - 1, rng.range(0, U64 - 1), rng.range(0, 1 << 30)])
        G.append((a_time(), itv, lee, rng.choice([0, 4, 8])))
        H.append((a_time(),))
    return G, H


def judge_cfg(case, obs):
    """ranges that compute_missed and the heap rely on, on the library's own output"""
    start, itv, lee, fl = case
    clock, tg, dl, iv = obs
    if not (1 <= iv <= I63):
        return "interval %d outside [1, INT64_MAX]" % iv
    if dl > I63:
        return "deadline %d above INT64_MAX" % dl
    if tg < I63:
        if not (tg <= dl):
            return "deadline %d before target %d" % (dl, tg)
        if iv < I63 and dl - tg > iv // 2:
            return "leeway %d above interval/2 (interval %d)" % (dl - tg, iv)
        if not (1 <= tg < (1 << 62)):
            return "armable target %d outside [1, 2^62)" % tg
    return None


def check_cfg(ctx, mexe, mism, fails, dist, samples, cases=None):
    exe, msg = common.build_harness("c11_cfg", ["c11_cfg.c"], whitebox=True, exclude_objs=("source.c.o",))
    if exe is None:
        mism.append({"what": "harness build failed (white-box include of src/source.c)", "detail": msg[-1500:]})
        return 0
    G, H = gen_cfg_cases(ctx.rng, 300 if ctx.tier == "quick" else 10000) if cases is None else ([tuple(x) for x in cases[0]], [tuple(x) for x in cases[1]])
    # DISPATCH_SOURCE_TYPE_INTERVAL: start NOW or FOREVER, interval >= 1 (ms or frames), leeway permille <= 1000 or UINT64_MAX
    J = [] if cases is None else [tuple(x) for x in cases[2]]
    rng = ctx.rng
    for _ in range(len(G) // 3 if cases is None else 0):
        anim = rng.below(2)
        lim = 31536000000000000 // (16666666 if anim else 1000000)
        itv = rng.choice([1, 2, 16, 1000, lim - 1, lim, lim + 1, lim // 2, 18446744073709 if not anim else 1106804644, U64 - 1,
                          rng.range(1, lim), rng.range(1, 10**6), rng.range(1, U64 - 1)])
        lee = rng.choice([0, 1, 500, 999, 1000, U64 - 1, rng.below(1001)])
        J.append((rng.choice([0, 0, 0, FOREVER]), itv, lee, anim))
    lines = ["G %d %d %d %d" % g for g in G] + ["H %d" % h for h in H] + ["J %d %d %d %d" % j for j in J]
    r = run3([exe], input="\n".join(lines) + "\n", timeout=600)
    out = [l for l in r.stdout.split("\n") if l.strip()]
    if r.returncode != 0 or len(out) != len(lines):
        mism.append({"what": "harness run failed (config_create / dispatch_after)", "detail": {"rc": r.returncode, "lines": len(out), "err": (r.stderr or "")[-800:]}})
        return 0
    obs, clk = [], []
    for l in out:
        a, b = l.split("|")
        obs.append([int(x) for x in a.split()])
        c = [int(x) for x in b.split()]
        clk.append((c[:3], c[3:]))
    # model input: the clock readings bracket the ones made inside the call
    mlines, plan = [], []
    for g, o, (c1, c2) in zip(G, obs[:len(G)], clk[:len(G)]):
        now = list(c1)     # up mono wall
        x = o[0]
        if c1[x] <= o[1] <= c2[x]:
            now[x] = o[1]      # a NOW-relative start: the target IS the reading made inside the call
        mlines.append("G %d %d %d %d %d %d %d" % (g[0], g[1], g[2], (g[3] >> 2) & 3, now[2], now[0], now[1]))
    for h, (c1, c2) in zip(H, clk[len(G):]):
        for c in (c1, c2):
            mlines.append("H %d %d %d %d" % (h[0], c[2], c[0], c[1]))
    for j, (c1, c2) in zip(J, clk[len(G) + len(H):]):
        for c in (c1, c2):
            mlines.append("J %d %d %d %d %d" % (j + (c[0],)))
    m = run3([mexe], input="\n".join(mlines) + "\n", timeout=600)
    mout = [[int(x) for x in l.split()] for l in m.stdout.split("\n") if l.strip()]
    if m.returncode != 0 or len(mout) != len(G) + 2 * len(H) + 2 * len(J):
        mism.append({"what": "model driver failed (config_create / dispatch_after)", "detail": (m.stderr or "")[-800:]})
        return 0
    kinds = {0: 0, 1: 0, 2: 0}
    wrap = 0
    for g, o, mo in zip(G, obs[:len(G)], mout[:len(G)]):
        if o != mo:
            mism.append({"what": "_dispatch_timer_config_create differs from Model/TimerRun.v config_create",
                         "detail": {"kind": "cfg", "case": list(g), "start,interval,leeway,flags": list(g), "impl": o, "model": mo}})
        w = judge_cfg(g, o)
        if w:
            fails.append({"key": "config:" + w.split()[0], "what": "_dispatch_timer_config_create(start=%d, interval=%d, leeway=%d, flags=%d) -> clock %d target %d deadline %d interval %d: %s"
                          % (g + tuple(o) + (w,)), "kind": "cfg", "case": list(g)})
    for i, (h, o) in enumerate(zip(H, obs[len(G):])):
        r1, r2 = mout[len(G) + 2 * i], mout[len(G) + 2 * i + 1]
        oo = o[:4] if o[0] == 2 else o[:1]
        kinds[o[0]] += 1
        ok = oo == r1 or oo == r2
        if not ok and o[0] == 2 and r1[0] == 2 and r2[0] == 2 and o[1] == r1[1] and r1[1:3] == r2[1:3]:
            if o[2] == r1[2]:
                ok = min(r1[3], r2[3]) <= o[3] <= max(r1[3], r2[3])
            elif o[1] == 2 and clk[len(G) + i][0][2] <= o[2] <= clk[len(G) + i][1][2]:
                ok = True     # DISPATCH_WALLTIME_NOW read inside the call
        if not ok:
            mism.append({"what": "_dispatch_after differs from Model/TimerRun.v dispatch_after_model (evaluated at the clock readings before and after the call)",
                         "detail": {"kind": "after", "when": h[0], "impl": o, "model_before": r1, "model_after": r2}})
        if o[0] == 2:
            c, v = py_decode(h[0], o[2])
            if o[4] != UINT64_MAX or not (o[5] & 0x40):
                fails.append({"key": "after:one-shot", "what": "dispatch_after(when=%d): interval %d flags %d (must be a one-shot AFTER timer)" % (h[0], o[4], o[5]), "kind": "after", "when": h[0]})
            if (o[1], o[2]) != (c, v):
                fails.append({"key": "after:target", "what": "dispatch_after(when=%d): timer target %d on clock %d, `when` denotes %d on clock %d" % (h[0], o[2], o[1], v, c), "kind": "after", "when": h[0]})
            if o[2] < I63 and not (o[2] + 10**6 <= o[3] <= o[2] + 60 * 10**9):
                fails.append({"key": "after:leeway", "what": "dispatch_after(when=%d): deadline %d target %d: leeway outside [1ms, 60s]" % (h[0], o[3], o[2]), "kind": "after", "when": h[0]})
            if o[2] >= I63:
                wrap += 1
    nwrap = 0
    for i, (j, o) in enumerate(zip(J, obs[len(G) + len(H):])):
        base = len(G) + 2 * len(H) + 2 * i
        r1, r2 = mout[base], mout[base + 1]
        if o != r1 and o != r2:
            mism.append({"what": "_dispatch_interval_config_create differs from Model/TimerRun.v interval_config_create (evaluated at the uptime readings before and after the call)",
                         "detail": {"kind": "icfg", "case": list(j), "start,interval,leeway,animation": list(j), "impl": o, "model_before": r1, "model_after": r2}})
        (c1, c2) = clk[len(G) + len(H) + i]
        clock, tg, dl, iv = o
        w = None
        if j[0] == FOREVER:
            if (tg, dl, iv) != (I63, I63, I63):
                w = "FOREVER start must give INT64_MAX values"
        else:
            if not (1 <= iv <= 31536000000000000):
                w = "interval %d outside [1, one year]" % iv
            elif tg % iv != 0 or not (c1[0] < tg <= c2[0] + iv):
                w = "target %d is not the next multiple of the interval %d after now (%d..%d)" % (tg, iv, c1[0], c2[0])
            elif not (tg <= dl <= tg + iv):
                w = "deadline %d outside [target, target + interval]" % dl
            elif clock != 0:
                w = "clock %d, interval timers run on the uptime clock" % clock
            if j[2] <= 1000 and iv * j[2] >= U64:
                nwrap += 1
        if w:
            fails.append({"key": "interval-config:" + w.split()[0], "what": "_dispatch_interval_config_create(start=%d, interval=%d, leeway=%d, animation=%d) -> %s: %s" % (j + (o, w)),
                          "kind": "icfg", "case": list(j)})
    dist["interval_config_cases"] = len(J)
    dist["interval_config_leeway_product_wrapped"] = nwrap
    dist["config_create_cases"] = len(G)
    dist["dispatch_after_cases"] = len(H)
    dist["dispatch_after_kinds(dropped,async,timer)"] = [kinds[0], kinds[1], kinds[2]]
    dist["dispatch_after_out_of_range_when"] = wrap
    if cases is not None:
        return len(G) + len(H) + len(J)
    samples.append({"config_create": list(G[0]), "impl": obs[0]})
    return len(G) + len(H) + len(J) + check_timer_data(ctx, exe, mexe, mism, dist)


# ---------------------------------------------------------------------------------------------------------
# kernel side of the timers (src/event/event_epoll.c), white-box harness c11_epoll.c

def check_timer_data(ctx, exe, mexe, mism, dist, cases=None):
    """source.c's own _dispatch_source_timer_data (the handler-side catch-up, source.c:505-526) against the model's latch:
       the white-box latch command of c11_heap.c is a transcription, this is the real function (real clock read inside)"""
    rng = ctx.rng
    n = 150 if ctx.tier == "quick" else 4000
    given = cases is not None
    cases = [tuple(c) for c in cases] if given else []
    for _ in range(0 if given else n):
        clock = rng.below(3)
        itv = rng.choice([1, 7, 1000, 10**6, 10**9, 3 * 10**9 + 1, I63 - 1, I63, UINT64_MAX, rng.range(1, 10**10)])
        small = itv if itv < 10**12 else 10**9
        back = rng.choice([0, 1, small - 1, small, small + 1, 10 * small + 3, 1000 * small, -5, -10**9, rng.range(0, 10**11)])
        lee = rng.choice([0, 5, small // 2])
        cnt = rng.choice([0, 1, 5, 1 << 40, rng.range(0, 1 << 20)])
        absolute = rng.choice([0, 0, 0, 0, 0, 0, I63, I63 - 1, UINT64_MAX, 1, 12345])
        if absolute:
            lee = 0
        cases.append((clock, back, lee, itv, (cnt << 1) | 1, absolute))
    r = run3([exe], input="\n".join("T %d %d %d %d %d %d" % c for c in cases) + "\n", timeout=300)
    out = [l for l in r.stdout.split("\n") if l.strip()]
    if r.returncode != 0 or len(out) != len(cases):
        mism.append({"what": "harness run failed (_dispatch_source_timer_data)", "detail": {"rc": r.returncode, "lines": len(out), "err": (r.stderr or "")[-800:]}})
        return 0
    ml, obs = [], []
    for c, l in zip(cases, out):
        a, b = l.split("|")
        tg, dl, data, tg2, dl2 = [int(x) for x in a.split()]
        ck = [int(x) for x in b.split()]
        obs.append((data, tg2, dl2))
        nb, na = ck[c[0]], ck[3 + c[0]]
        # the reading made inside the call lies in [nb, na]; if the target moved, it lies in [target' - interval, target' - 1]
        inside = min(max(tg2 - c[3], nb), na) if (tg2 != tg and c[3] < I63) else nb
        for now in (nb, na, inside):
            ml += ["N 1", "t 1 %d" % (c[0] << 2), "c 1 %d %d %d %d" % (c[0], tg, dl % U64, c[3]), "g 1", "p 1 %d" % c[4], "l 1 %d" % now, "S"]
    m = run3([mexe], input="\n".join(ml) + "\n", timeout=600)
    mo = [[int(x) for x in l.split()] for l in m.stdout.split("\n") if l.strip()]
    if m.returncode != 0 or len(mo) != 6 * len(cases):
        mism.append({"what": "model driver failed (_dispatch_source_timer_data)", "detail": {"lines": len(mo), "err": (m.stderr or "")[-800:]}})
        return 0
    caught = moved = 0
    for i, (c, o) in enumerate(zip(cases, obs)):
        res = []
        for k in (0, 1, 2):
            d = mo[6 * i + 2 * k][0]
            stt = mo[6 * i + 2 * k + 1]
            res.append((d, stt[16 + 2], stt[16 + 3]))
        if o not in res:
            mism.append({"what": "_dispatch_source_timer_data (src/source.c, the handler-side catch-up) differs from Model/TimerRun.v latch "
                                 "(evaluated at the clock readings before and after the call and at the reading in between that the new target implies)",
                         "detail": {"kind": "timer-data", "case": list(c), "clock,back,leeway,interval,prev,abs": list(c), "impl data,target,deadline": list(o), "model_before": list(res[0]), "model_after": list(res[1]), "model_inside": list(res[2])}})
        if o[0] != c[4] >> 1:
            caught += 1
    dist["timer_data_calls"] = len(cases)
    dist["timer_data_catch_ups"] = caught
    return len(cases)


def check_epoll(ctx, mexe, mism, fails, dist, samples, script=None):
    exe, msg = common.build_harness("c11_epoll", ["c11_epoll.c"], whitebox=True, exclude_objs=("event_epoll.c.o",))
    if exe is None:
        mism.append({"what": "harness build failed (white-box include of src/event/event_epoll.c)", "detail": msg[-1500:]})
        return 0
    rng = ctx.rng
    n = 400 if ctx.tier == "quick" else 20000
    cl, ml = ([], ["N 3"]) if script is None else (list(script[0]), list(script[1]))
    for _ in range(n if script is None else 0):
        k = rng.below(10)
        i = rng.below(3)
        if k < 4:
            tg = rng.choice([1, 10**9 + 7, rng.range(1, 1 << 62), I63 - 1, I63, I63 + 1, U64 - 1])
            cl.append("a %d %d" % (i, tg)); ml.append("ka %d %d" % (i, tg))
        elif k < 6:
            d, nw = rng.choice([1, 1000, I63 - 1, I63]), rng.range(1, 1 << 61)
            cl.append("A %d %d %d" % (i, d, nw)); ml.append("kA %d %d %d" % (i, d, nw))
        elif k < 8:
            cl.append("d %d" % i); ml.append("kd %d" % i)
        elif k < 9:
            cl.append("x %d" % i); ml.append("kx %d" % i)
        else:
            a, b = rng.below(2), rng.below(2)
            cl.append("h %d %d %d" % (i, a, b)); ml.append("kh %d %d %d" % (i, a, b))
    r = run3([exe], input="\n".join(cl) + "\n", timeout=300)
    m = run3([mexe], input="\n".join(ml) + "\n", timeout=300)
    out = [l for l in r.stdout.split("\n") if l.strip()]
    mout = [l for l in m.stdout.split("\n") if l.strip()]
    if r.returncode != 0 or m.returncode != 0 or len(out) != len(cl) or len(mout) != len(cl) or len(ml) != len(cl) + 1:
        mism.append({"what": "harness / model run failed (epoll timers)", "detail": {"rc": [r.returncode, m.returncode], "lines": [len(out), len(mout), len(cl)], "err": (r.stderr or "")[-500:] + (m.stderr or "")[-500:]}})
        return 0
    narm = 0
    for ci, (c, l, mm) in enumerate(zip(cl, out, mout)):
        script_here = {"script": [cl[:ci + 1], ml[:ci + 2]]} if ci < 6000 else {}
        calls, ks, hs, dy = l[1:].split("#")
        li = []
        for tk in calls.split():
            li += [1] if tk == "c" else ([2, int(tk[2:])] if tk[0] == "s" else [3, int(tk[2:])])
        li += [-1] + [int(x) for x in ks.split()] + [-1] + [int(x) for x in hs.split()] + [-1, int(dy)]
        mi = [int(x) for x in mm.split()]
        if li != mi:
            mism.append({"what": "event_epoll.c timer functions differ from Model/TimerRun.v (timeout_program / merge_timer)",
                         "detail": dict({"kind": "epoll", "command": c, "impl": li, "model": mi}, **script_here)})
            break
        a = c.split()
        if a[0] in "aA":
            tg = int(a[2]) if a[0] == "a" else (int(a[2]) + int(a[3])) % U64
            kk = [int(x) for x in ks.split()][3 * int(a[1]):3 * int(a[1]) + 3]
            if tg < I63:
                narm += 1
                st = [int(tk[2:]) for tk in calls.split() if tk[0] == "s"]
                if kk != [1, 1, 1] or st != [tg]:
                    fails.append({"key": "epoll-arm", "what": "after programming clock %s to %d the timerfd is created/registered/armed = %s and timerfd_settime got %s" % (a[1], tg, kk, st), "kind": "epoll", "command": c, **script_here})
    dist["epoll_timer_commands"] = len(cl)
    dist["epoll_timer_arms_below_forever"] = narm
    return len(cl)


# ---------------------------------------------------------------------------------------------------------
# trace replay: harness c11_trace.c records what a real process does; props/c11_trace.py replays it through the model

def check_trace(ctx, mexe, mism, fails, dist, samples, seeds=None):
    from props import c11_trace
    exe, msg = common.build_harness("c11_trace", ["c11_trace.c"], whitebox=True, exclude_objs=("event.c.o",))
    if exe is None:
        mism.append({"what": "trace harness build failed (white-box include of src/event/event.c in a full process)", "detail": msg[-1500:]})
        return 0
    runs = (2 if ctx.tier == "quick" else 15) if seeds is None else len(seeds)
    tot, done = {}, 0
    for ri in range(runs):
        sd = ctx.rng.next() % (1 << 62) if seeds is None else seeds[ri]
        r = run3([exe, str(sd)], timeout=120)
        lines = r.stdout.split("\n")
        if r.returncode != 0 or not any(l.startswith("END") and l.endswith("ok") for l in lines):
            mism.append({"what": "trace recorder did not finish", "detail": {"kind": "trace", "seed": sd, "rc": r.returncode, "tail": lines[-3:], "err": (r.stderr or "")[-400:]}})
            continue
        log = [tuple(int(x) for x in l.split()) for l in lines if l and l[0].isdigit()]
        rep = {}
        try:
            probs = c11_trace.replay(mexe, log, rep)
        except Exception as e:  # noqa
            import traceback
            mism.append({"what": "trace replay crashed", "detail": traceback.format_exc()[-1500:]})
            continue
        for k, v in rep.items():
            if isinstance(v, int):
                tot[k] = tot.get(k, 0) + v
        if "aborted" in rep:
            tot["traces_cut_short_by_a_cross_thread_race"] = tot.get("traces_cut_short_by_a_cross_thread_race", 0) + 1
        for pb in probs[:6]:
            mism.append({"what": "recorded run of the library does not replay through Model/TimerRun.v under the guards of the system theorems: "
                                 + pb["what"], "detail": {"kind": "trace", "seed": sd, "key": pb["key"]}})
        done += 1
    for k, v in tot.items():
        dist["trace_" + k] = v
    dist["trace_runs"] = done
    # an incompletely recorded last pass is not compared (counted); at least 95% of the recorded passes must have been
    total_p = tot.get("passes", 0) + tot.get("incomplete_tail_pass", 0)
    if total_p and tot.get("passes", 0) * 100 < 95 * total_p:
        mism.append({"what": "trace replay: only %d of %d recorded manager passes were compared" % (tot.get("passes", 0), total_p), "detail": {}})
    if done == 0:
        mism.append({"what": "trace replay: no recorded run was replayed", "detail": {}})
    samples.append({"trace_replay_totals": tot})
    return tot.get("passes", 0) + tot.get("resume", 0) + tot.get("latch", 0) + tot.get("configure", 0)


# ---------------------------------------------------------------------------------------------------------
# state machine sequences (valid usage of the unote functions)

ITVS = [1, 2, 3, 7, 10, 1000, I63 - 1, I63, UINT64_MAX]


def gen_tseq(rng, nt, length):
    lines = ["N %d" % nt]
    now = 1000
    st = {}   # id -> dict(after, dead, reg)
    marks = []   # (target, deadline) pairs handed to the library: `now` is aimed at / between them
    def values(after=False):
        v = values0(after)
        if v[0] < I63:
            marks.append((v[0], v[1]))
        return v
    def values0(after=False):
        tg = rng.choice([now + rng.range(-30, 120), now, now + 1, now - 1, I63, I63 - 1, I63 + 5, rng.range(1, now + 500)])
        tg = max(1, tg)
        itv = UINT64_MAX if after else rng.choice(ITVS)
        lee = rng.choice([0, 1, 5, 50, 120, (itv // 2) if itv < I63 else 7])
        dl = min(tg + lee, I63) if not after else (tg + lee) % U64
        return tg, dl, itv
    def create(t):
        after = rng.chance(1, 4)
        clock = rng.below(3)
        lines.append("t %d %d" % (t, (clock << 2) | (0x40 if after else 0)))
        if after:
            tg, dl, itv = values(True)
            lines.append("a %d %d %d" % (t, tg, dl))
        else:
            tg, dl, itv = values()
            lines.append("c %d %d %d %d %d" % (t, clock if rng.chance(5, 6) else rng.below(3), tg, dl, itv))
        lines.append("g %d" % t)
        lines.append("r %d" % t)
        st[t] = {"after": after, "dead": False}
    for t in range(1, nt + 1):
        if rng.chance(3, 4):
            create(t)
    for _ in range(length):
        k = rng.below(100)
        t = rng.range(1, nt)
        if t not in st or st[t]["dead"]:
            if rng.chance(1, 2):
                create(t)
            continue
        after = st[t]["after"]
        if k < 30:
            ahead = [m for m in marks if m[1] >= now and m[0] <= now + 300 and m[1] <= now + 1000]
            if ahead and rng.chance(2, 3):
                m = rng.choice(ahead)      # exactly at the target, between target and deadline, at the deadline, one before
                now = max(now, rng.choice([m[0], m[0] - 1, m[1], (m[0] + m[1]) // 2, m[0] + 1]))
            else:
                now += rng.choice([0, 1, 3, 10, 50, 200])
            lines.append("R %d %d" % (rng.below(3), now))
        elif k < 38:
            lines.append("P %d %d" % (rng.below(3), now))
        elif k < 45:
            ahead = [m for m in marks if m[1] >= now and m[0] <= now + 300 and m[1] <= now + 1000]
            if ahead and rng.chance(1, 2):
                m = rng.choice(ahead)
                now = max(now, rng.choice([m[0], m[1], (m[0] + m[1]) // 2]))
            else:
                now += rng.choice([0, 1, 10, 100])
            lines.append("W %d %d %d" % (now, now + rng.below(3), now + rng.below(3)))
        elif k < 60 and not after:
            tg, dl, itv = values()
            clock = rng.below(3)
            lines.append("c %d %d %d %d %d" % (t, clock, tg, dl, itv))
            if rng.chance(1, 2):
                lines.append("f %d" % t)
                lines.append("S")
        elif k < 68 and not after:
            lines.append("s %d 1" % t)
        elif k < 78 and not after:
            lines.append("s %d 0" % t)
            lines.append("r %d" % t)
        elif k < 90:
            lines.append("l %d %d" % (t, now))
            if not after:
                lines.append("r %d" % t)
        elif k < 95 and not after:
            lines.append("u %d" % t)
            st[t]["dead"] = True
        else:
            lines.append("S")
    for i in range(3):
        now += 1000
        lines.append("R %d %d" % (i, now))
        lines.append("P %d %d" % (i, now))
    lines.append("W %d %d %d" % (now + 500, now + 500, now + 500))
    return lines


def parse_state(tokens, nt):
    """-> (heaps: list of (count,np,armed,min0,min1), timers: list of tuples(armed ident tg dl itv pending e0 e1 cfg); the 10th column (registered) is compared, not judged)"""
    tokens = tokens[1:]      # dirty bit
    heaps = [tuple(tokens[5 * i:5 * i + 5]) for i in range(3)]
    rest = tokens[15:]
    w = len(rest) // nt if nt else 0
    timers = [tuple(rest[w * i:w * i + 9]) for i in range(nt)]
    return heaps, timers


def impl_line_to_list(line, nt):
    """canonical int list of a harness output line of the state machine protocol (same shape as the model's)"""
    if line.startswith("W"):
        evs, calls, state = line.split("#")
        out = []
        for tk in evs[1:].split():
            a, b = tk.split(":")
            out += [int(a), int(b)]
        out.append(-1)
        for tk in calls.split():
            parts = tk.split(":")
            out += [1, int(parts[1]), int(parts[2]), int(parts[3])] if parts[0] == "arm" else [0, int(parts[1]), 0, 0]
        out.append(-1)
        state = state.strip()
        out.append(int(state.split()[0]))
        state = " ".join(state.split()[1:])
    elif line.startswith("E") or line.startswith("P"):
        head, state = line.split("#")
        toks = head[1:].split()
        out = []
        for tk in toks:
            parts = tk.split(":")
            if parts[0] == "arm":
                out += [1, int(parts[1]), int(parts[2]), int(parts[3])]
            elif parts[0] == "del":
                out += [0, int(parts[1]), 0, 0]
            else:
                out += [int(parts[0]), int(parts[1])]
        out.append(-1)
        state = state.strip()
    else:
        out, state = [], line
    if "|" in state:
        hs, ts = state.split("|")
        ht = [int(x) for x in hs.split()]      # dirty, then 5 per heap
        tt = [int(x) for x in ts.split()]
        flat = list(ht)
        for i in range(nt):
            flat += tt[11 * i:11 * i + 10]     # drop the reference count column
        return out + flat
    return out + [int(x) for x in state.split()]


def judge_tseq(lines, out, nt):
    """property judges on the library's own outputs: never early, count bound, run fixpoint, programming"""
    fails = []
    outs = iter(out)
    last_state = None
    cfg, expect = {}, None
    prog = {}
    for ln in lines:
        c = ln[0]
        if c == "c":
            a = [int(x) for x in ln[1:].split()]
            cfg[a[0]] = a[2:5]
        if c == "f":
            t = int(ln[1:].split()[0])
            expect = (t, cfg.get(t))
        if c not in "RPSlW":
            continue
        o = next(outs)
        if c == "l":
            continue
        if c == "W":
            nows = [int(x) for x in ln[1:].split()]
            lst = impl_line_to_list(o, nt)
            k1 = lst.index(-1)
            k2 = lst.index(-1, k1 + 1)
            calls = lst[k1 + 1:k2]
            for j in range(0, len(calls), 4):
                prog[calls[j + 1]] = calls[j + 2] if calls[j] == 1 else None
            dirty = lst[k2 + 1]
            heaps, timers = parse_state(lst[k2 + 2:], nt)
            if dirty:
                fails.append({"key": "drain-dirty", "what": "_dispatch_event_loop_drain_timers returned with dirty bits set"})
            for tidx in range(3):
                mem = [(t[2], i + 1) for i, t in enumerate(timers) if t[0] == 1 and t[1] == tidx]
                due = [i for tg, i in mem if tg <= nows[tidx]]
                if due:
                    fails.append({"key": "drain-fixpoint", "what": "after the manager's timer pass at now=%d timer(s) %s of clock %d are armed with target <= now" % (nows[tidx], due, tidx)})
                if mem:
                    mn = min(tg for tg, _ in mem)
                    if heaps[tidx][1] != 0 or heaps[tidx][2] != 1 or prog.get(tidx) != mn:
                        fails.append({"key": "drain-programmed", "what": "after the manager's timer pass clock %d has armed timers with minimum target %d but needs_program=%d, kernel timer armed=%d, last programmed expiry %s"
                                      % (tidx, mn, heaps[tidx][1], heaps[tidx][2], prog.get(tidx))})
            last_state = (heaps, timers)
            continue
        if c == "S":
            last_state = parse_state(impl_line_to_list(o, nt), nt)
            if expect and expect[1]:
                t, (tg, dl, itv) = expect
                tm = last_state[1][t - 1]
                if list(tm[2:5]) != [tg, dl, itv] or tm[5] != 0 or tm[8] != 0:
                    fails.append({"key": "configure-replaces", "what": "after _dispatch_timer_unote_configure of timer %d with the pending "
                                  "configuration (target %d, deadline %d, interval %d) the timer has target %d deadline %d interval %d, "
                                  "ds_pending_data %d (stale data of the replaced settings must be cleared), pending config %d"
                                  % (t, tg, dl, itv, tm[2], tm[3], tm[4], tm[5], tm[8])})
            expect = None
            continue
        args = [int(x) for x in ln[1:].split()]
        tidx, now = args
        lst = impl_line_to_list(o, nt)
        k = lst.index(-1)
        heaps, timers = parse_state(lst[k + 1:], nt)
        if c == "R":
            armed_due = [i + 1 for i, t in enumerate(timers) if t[0] == 1 and t[1] == tidx and t[2] <= now]
            if armed_due:
                fails.append({"key": "run-fixpoint", "what": "after _dispatch_timers_run(tidx=%d, now=%d) timer(s) %s are still armed with target <= now" % (tidx, now, armed_due)})
            ev = lst[:k]
            for j in range(0, len(ev), 2):
                t, pend = ev[j], ev[j + 1]
                tm = timers[t - 1]
                # after the fire a repeating timer's target was pushed by count*interval: target_before = target - count*interval
                cnt = pend >> 1
                if tm[4] < I63 and not (pend & 1) and tm[2] < I63:
                    before = tm[2] - cnt * tm[4]
                    if before > now:
                        fails.append({"key": "early-fire", "what": "timer %d fired at now=%d with target %d" % (t, now, before)})
                    if tm[2] <= now or tm[2] - tm[4] > now:
                        fails.append({"key": "count-bound", "what": "timer %d reported %d intervals at now=%d but its next target is %d (interval %d)" % (t, cnt, now, tm[2], tm[4])})
        if c == "P" and k > 0:
            calls = lst[:k]
            for j in range(0, len(calls), 4):
                prog[calls[j + 1]] = calls[j + 2] if calls[j] == 1 else None
            mins = [t[2] for t in timers if t[0] == 1 and t[1] == tidx]
            if calls[0] == 1:
                if not mins or calls[2] != min(mins):
                    fails.append({"key": "program-min", "what": "kernel timer %d programmed to %d, minimum armed target is %s" % (tidx, calls[2], min(mins) if mins else None)})
        if c == "P":
            h = heaps[tidx]
            mins = [t[2] for t in timers if t[0] == 1 and t[1] == tidx]
            if h[1] == 0 and mins and now < min(mins) < I63 and h[2] == 0:
                fails.append({"key": "program-lost", "what": "heap %d has a future minimum target %d, needs_program is clear and no kernel timer is armed" % (tidx, min(mins))})
        last_state = (heaps, timers)
        if len(fails) > 5:
            break
    return fails


def correspond(ctx):
    ok, msg = common.ensure_build()
    exe, msg = common.build_harness("c11_heap", ["c11_heap.c"], whitebox=True, exclude_objs=("event.c.o",))
    if exe is None:
        return {"mismatches": [{"what": "harness build failed (white-box include of src/event/event.c)", "detail": msg}],
                "failures": [], "evaluations": 0}
    okc, outc = common.coq_make(["Extract/Extract_c11.vo"], timeout=900)
    if not okc and "TIMEOUT" in (outc or "").upper():
        LOAD_RETRIES["n"] += 1
        okc, outc = common.coq_make(["Extract/Extract_c11.vo"], timeout=9000)
    mexe, msg = common.build_ocaml("c11_driver.ml", extracted=("c11_model",)) if okc else (None, outc[-1500:])
    if mexe is None:
        return {"mismatches": [{"what": "extraction / OCaml build of the model failed", "detail": msg}], "failures": [], "evaluations": 0}
    rng = ctx.rng
    quick = ctx.tier == "quick"
    mism, fails, dist, samples = [], [], {}, []
    evals = 0
    # 1. heap: random sequences (growth past several segments, shrink, ties)
    seqs = []
    plan = [(5, 40, 0), (5, 40, 1), (9, 60, 0), (12, 80, 1), (20, 120, 0), (40, 200, 1), (40, 160, 2), (70, 300, 3), (150, 600, 1)]
    reps = 4 if quick else 40
    for nt, ln, mode in plan:
        for _ in range(reps):
            seqs.append((nt, gen_heap_seq(rng, nt, ln, mode)))
    # exhaustive: all valid sequences of `depth` operations over 5 timers (validation, not proof)
    depth = 5 if quick else 7
    ex = [(5, s) for s in exhaustive_seqs(5, depth)]
    dist["heap_exhaustive_depth"] = depth
    dist["heap_exhaustive_sequences"] = len(ex)
    for name, ss in (("random", seqs), ("exhaustive", ex)):
        for c0 in range(0, len(ss), 20000):
            part = ss[c0:c0 + 20000]
            dumps, mdumps, m = run_heap(exe, mexe, part)
            if dumps is None:
                mism.append({"what": "harness run failed (heap, %s)" % name, "detail": m})
                break
            fails += judge_heap(part, dumps, name)
            mm, n = check_heap(part, dumps, mdumps)
            mism += mm
            evals += n
            if name == "random" and c0 == 0:
                dist["heap_random_sequences"] = len(seqs)
                dist["heap_random_ops"] = sum(len(o) for _, o in seqs)
                dist["heap_max_segments_seen"] = max(d[1] for ds in dumps for d in ds)
                dist["heap_max_count_seen"] = max(d[0] for ds in dumps for d in ds)
                samples.append({"heap_ops": [list(o) for o in part[0][1][:4]], "impl_dump_after_4": dumps[0][3][:24]})
    # 2. cell addresses of get_slot for every segment count reached by growing
    lines = ["N 300"]
    for t in range(1, 300):
        lines += ["K %d %d %d" % (t, t, t), "I %d" % t]
        if t in (1, 2, 5, 6, 9, 10, 17, 18, 32, 33, 63, 64, 126, 127, 250, 299):
            lines.append("A")
    out, mout, err = run_both(exe, mexe, lines)
    want = [l[0] for l in lines if l[0] in "IA"]          # the commands that answer with one line each
    if out is None:
        mism.append({"what": "harness run failed (addresses)", "detail": err})
    elif not (len(out) == len(mout) == len(want)):
        mism.append({"what": "addresses: %d commands with an answer, %d library lines, %d model lines" % (len(want), len(out), len(mout)), "detail": {}})
    else:
        na, maxcells = 0, 0
        for wk, l, m in zip(want, out, mout):
            if wk != "A":
                continue
            li = [int(x) for x in l.replace("|", " ").split()]
            mi = [int(x) for x in m.split()]
            na += 1
            maxcells = max(maxcells, (len(li) - 2) // 2)
            if li != mi:
                where = next((k for k in range(min(len(li), len(mi))) if li[k] != mi[k]), min(len(li), len(mi)))
                mism.append({"what": "get_slot: cell (segment, offset) differs from Model/Heap.v slot_addr (entry %d)" % where,
                             "detail": {"kind": "addr", "impl": li[max(0, where - 10):where + 20], "model": mi[max(0, where - 10):where + 20]}})
        if na != 16:
            mism.append({"what": "address maps: %d of 16 compared" % na, "detail": {}})
        evals += na
        dist["address_maps_compared"] = na
        dist["address_map_largest_cells"] = maxcells
    # 3. compute_missed
    mc = gen_missed(rng, 400 if quick else 20000)
    out, mout, err = run_both(exe, mexe, ["M %d %d %d %d %d" % c for c in mc])
    if out is None:
        mism.append({"what": "harness run failed (compute_missed)", "detail": err})
    elif not (len(out) == len(mout) == len(mc)):
        mism.append({"what": "compute_missed: %d cases, %d library answers, %d model answers" % (len(mc), len(out), len(mout)), "detail": {}})
    else:
        nclamp = nmc = 0
        for c, l, m in zip(mc, out, mout):
            nmc += 1
            li = [int(x) for x in l.split()]
            mi = [int(x) for x in m.split()]
            evals += 1
            if li != mi:
                mism.append({"what": "_dispatch_timer_unote_compute_missed differs from Model/TimerRun.v compute_missed",
                             "detail": {"kind": "missed", "case": list(c), "target,deadline,interval,now,prev": list(c), "impl": li, "model": mi}})
            w = judge_missed(c, li)
            if w:
                fails.append({"key": "missed:" + w.split(",")[0][:30], "what": "compute_missed(target=%d, deadline=%d, interval=%d, now=%d, prev=%d) -> %s: %s" % (c + (li, w)),
                              "kind": "missed", "case": list(c)})
            if c[4] + (c[3] - c[0]) // max(c[2], 1) + 1 > LONG_MAX:
                nclamp += 1
        dist["compute_missed_cases"] = nmc
        dist["compute_missed_clamped"] = nclamp
        samples.append({"compute_missed": list(mc[0]), "impl": out[0]})
    # 4. the state machine: run / program / configure / resume / unregister / latch
    nseq = 12 if quick else 300
    nstate = nseq_done = 0
    nfires = narm = ndel = 0
    corpus = [
        # a due timer changes clock while the manager's pass has already run the heap it moves to: the pass must go round again
        (2, ["N 2", "t 1 8", "c 1 2 100 100 1000", "g 1", "r 1", "t 2 0", "c 2 0 5000 5000 7", "g 2", "r 2",
             "c 1 0 50 50 1000", "W 200 200 200", "S", "W 3000 3000 3000", "W 5000 5000 5000"]),
        (2, ["N 2", "t 1 4", "c 1 1 100 100 10", "g 1", "r 1", "c 1 0 199 199 10", "W 200 200 200", "l 1 200", "r 1", "W 260 260 260"]),
        # set_timer on a disarmed timer with a latched fire (the seeded C11-1 shape)
        (1, ["N 1", "t 1 0", "c 1 0 100 100 18446744073709551615", "g 1", "r 1", "W 150 150 150", "c 1 0 9000 9000 18446744073709551615",
             "f 1", "S", "l 1 160", "r 1", "W 170 170 170", "W 9001 9001 9001"]),
        (1, ["N 1", "t 1 0", "c 1 0 100 100 10", "g 1", "r 1", "s 1 1", "W 150 150 150", "c 1 0 9000 9100 10", "f 1", "S", "s 1 0",
             "l 1 160", "r 1", "W 170 170 170"]),
    ]
    for si in range(len(corpus) + nseq):
        if si < len(corpus):
            nt, lines = corpus[si]
        else:
            nt = rng.choice([3, 5, 8, 20])
            lines = gen_tseq(rng, nt, rng.choice([40, 120, 300]))
        out, mout, err = run_both(exe, mexe, lines)
        if out is None:
            mism.append({"what": "harness run failed (state machine)", "detail": {"err": err, "lines": lines[:400]}})
            continue
        cmds = [l for l in lines if l[0] in "RPSlW"]
        if not (len(out) == len(mout) == len(cmds)):
            mism.append({"what": "state machine: %d commands with an answer, %d library answers, %d model answers" % (len(cmds), len(out), len(mout)),
                         "detail": {"kind": "tseq-tie", "timers": nt, "commands": lines[:600]}})
            continue
        nseq_done += 1
        for l in out:
            if l.startswith("E"):
                nfires += len(l.split("#")[0].split()) - 1 + (1 if len(l.split("#")[0]) > 1 and l[1] != " " else 0)
            elif l.startswith("P"):
                narm += l.count("arm:"); ndel += l.count("del:")
        for i, (l, m) in enumerate(zip(out, mout)):
            mi = [int(x) for x in m.split()]
            li = impl_line_to_list(l, nt)
            nstate += 1
            if cmds[i][0] in "RW":
                if mi[0] != 1:
                    mism.append({"what": "model of _dispatch_timers_run ran out of fuel", "detail": {"cmd": cmds[i]}})
                mi = mi[1:]
            if li != mi:
                where = next((k for k in range(min(len(li), len(mi))) if li[k] != mi[k]), min(len(li), len(mi)))
                upto = lines.index(cmds[i]) if cmds[i] in lines else 0
                mism.append({"what": "timer state machine: library and Model/TimerRun.v differ at answer %d (%s), entry %d" % (i, cmds[i], where),
                             "detail": {"kind": "tseq-tie", "timers": nt, "impl": li[:80], "model": mi[:80], "commands": lines[:1200]}})
                break
        for f in judge_tseq(lines, out, nt):
            f["kind"] = "tseq"; f["lines"] = lines; f["timers"] = nt
            fails.append(f)
        if si == 0:
            samples.append({"state_machine_commands": lines[:12], "impl_answer": out[0][:160]})
    evals += nstate
    dist["state_machine_sequences"] = nseq_done
    if nseq_done == 0:
        mism.append({"what": "state machine: no sequence was compared", "detail": {}})
    dist["state_machine_answers_compared"] = nstate
    dist["state_machine_fire_events"] = nfires
    dist["state_machine_kernel_arm_calls"] = narm
    dist["state_machine_kernel_delete_calls"] = ndel
    # 4b. arithmetic of dispatch_source_set_timer / dispatch_after (src/source.c)
    evals += check_cfg(ctx, mexe, mism, fails, dist, samples)
    # 4c. kernel side of the timers (src/event/event_epoll.c)
    evals += check_epoll(ctx, mexe, mism, fails, dist, samples)
    # 4d. recorded runs of the whole library replayed through the model (callers' guards, manager thread discipline)
    evals += check_trace(ctx, mexe, mism, fails, dist, samples)
    # 5. end-to-end oracle through the public API (real time; deadlines read back on the clock they were expressed in)
    e2e, m5 = common.build_harness("c11_e2e", ["c11_e2e.c"], whitebox=False)
    if e2e is None:
        mism.append({"what": "end-to-end harness build failed", "detail": m5})
    else:
        runs = 3 if quick else 30
        scale = 1 if quick else 2
        e2e_done = 0
        tot = {"afters": 0, "timers": 0, "reconf": 0, "reconf_fired_with_new_settings": 0, "once": 0, "fired": 0}
        for i in range(runs):
            sd = rng.next() % (1 << 62)
            r = run3([e2e, str(sd), str(scale)], timeout=120)
            summ = [l for l in r.stdout.split("\n") if l.startswith("SUMMARY")]
            if not summ:
                mism.append({"what": "end-to-end harness did not finish", "detail": {"kind": "e2e", "scale": scale, "seed": sd, "rc": r.returncode, "err": (r.stderr or "")[-500:]}})
                continue
            for kv in summ[0].split()[1:]:
                k, v = kv.split("=")
                if k in tot:
                    tot[k] += int(v)
            for l in r.stdout.split("\n"):
                if l.startswith("FAIL"):
                    kind = l.split()[1]
                    fails.append({"key": "e2e:" + kind, "what": "public API, seed %d: %s" % (sd, l[5:]), "kind": "e2e", "seed": sd, "scale": scale})
            evals += 1
            e2e_done += 1
        dist["e2e_runs"] = e2e_done
        if e2e_done == 0:
            mism.append({"what": "end-to-end oracle: no run finished", "detail": {}})
        for k, v in tot.items():
            dist["e2e_" + k] = v
        samples.append({"e2e_summary": tot})
    dist["load_retries(units re-run alone after a wall-clock expiry)"] = LOAD_RETRIES["n"]
    # dedupe failures by key
    seen, uf = set(), []
    for f in fails:
        if f["key"] not in seen:
            seen.add(f["key"]); uf.append(f)
    return {"evaluations": evals, "distinct_nontrivial": evals,
            "rule": "white-box harness (#include of src/event/event.c) and the OCaml extraction of Model/Heap.v + Model/TimerRun.v are fed "
                    "the same command stream; after EVERY heap operation the whole array by idx, count, segments, needs_program, both "
                    "min slots and every timer's dt_heap_entry are compared entry by entry (random sequences with ties, growth past 6 "
                    "segments and shrink back to empty; all valid sequences of %d operations over 5 timers); get_slot's cell per idx vs "
                    "slot_addr; compute_missed on boundary-directed values; _dispatch_timers_run / _program / configure / resume / "
                    "unregister on random life cycles with the fired events, kernel timer calls and full state (incl. the registered bit of "
                    "du_state) compared; the latch command of that harness is a transcription of source.c:529-546 (event.c and source.c "
                    "cannot share a translation unit): source.c's own _dispatch_source_timer_data is run in harness/c11_cfg.c "
                    "(#include of source.c) against the model's latch at the bracketing clock readings, and source.c's own latch, "
                    "invoke2 order and rearm rule are tied by replaying recorded runs of the whole library (harness/c11_trace.c) "
                    "through the model, every manager pass compared and the extracted wake_needed / invoke_step evaluated at "
                    "every source-side call; the "
                    "library's outputs are additionally judged in Python against the property (double heap shape, count = boundaries, "
                    "never early, run fixpoint, programmed expiry = minimum, configure replaces and clears pending data); "
                    "second layer: public-API runs (dispatch_after, timer sources on uptime / monotonic / wall clocks, suspend-resume "
                    "churn, set_timer while suspended / with a blocked target queue / from the handler) judged by reading the clock "
                    "inside the handler against the deadline decoded from the dispatch_time_t, zero tolerance (no elapsed-time window "
                    "decides a verdict: 'fires' is awaited with a progress watchdog)" % depth,
            "samples": samples, "distribution": dist, "mismatches": mism[:30], "failures": uf[:20]}


def _model_exe():
    okc, outc = common.coq_make(["Extract/Extract_c11.vo"], timeout=9000)
    if not okc:
        return None
    mexe, _ = common.build_ocaml("c11_driver.ml", extracted=("c11_model",))
    return mexe


def _replay_one(ctx, f, exe, mexe):
    """re-execute one recorded failure / broken-tie entry and re-judge it: 1 reproduces, 0 does not, 2 nothing could be executed"""
    kind = f.get("kind")
    mism, fails, dist, samples = [], [], {}, []
    tie = f.get("_tie", False)          # a correspondence mismatch (library vs model), not a property failure
    def verdict(what_now):
        if what_now:
            for w in what_now[:4]:
                print("  reproduces:", str(w)[:700])
            return 1
        print("  does not reproduce")
        return 0
    if kind == "heap" and "ops" in f:
        seqs = [(f["timers"], [tuple(o) for o in f["ops"]])]
        dumps, mdumps, err = run_heap(exe, mexe, seqs)
        if dumps is None:
            print("  could not execute:", err); return 2
        now = [x["what"] for x in judge_heap(seqs, dumps, "replay")]
        now += [x["what"] for x in check_heap(seqs, dumps, mdumps)[0]]
        return verdict(now)
    if kind == "missed" and "case" in f:
        c = tuple(f["case"])
        out, mout, err = run_both(exe, mexe, ["M %d %d %d %d %d" % c])
        if out is None or len(out) != 1 or len(mout) != 1:
            print("  could not execute:", err); return 2
        li, mi = [int(x) for x in out[0].split()], [int(x) for x in mout[0].split()]
        now = []
        w = judge_missed(c, li)
        if w: now.append("compute_missed%s -> %s: %s" % (list(c), li, w))
        if li != mi: now.append("compute_missed%s: library %s, model %s" % (list(c), li, mi))
        return verdict(now)
    if kind in ("tseq", "tseq-tie") and (f.get("lines") or f.get("commands")):
        lines = f.get("lines") or f.get("commands")
        nt = f["timers"]
        out, mout, err = run_both(exe, mexe, lines)
        cmds = [l for l in lines if l[0] in "RPSlW"]
        if out is None:
            print("  could not execute:", err); return 2
        now = []
        if not (len(out) == len(mout) == len(cmds)):
            now.append("state machine: %d commands with an answer, %d library answers, %d model answers" % (len(cmds), len(out), len(mout)))
        else:
            for i, (l, m) in enumerate(zip(out, mout)):
                mi = [int(x) for x in m.split()]
                if cmds[i][0] in "RW":
                    mi = mi[1:]
                if impl_line_to_list(l, nt) != mi:
                    now.append("state machine: library and model differ at answer %d (%s)" % (i, cmds[i])); break
            now += [g["what"] for g in judge_tseq(lines, out, nt)]
        return verdict(now)
    if kind in ("cfg", "after", "icfg"):
        cases = ([f["case"]], [], []) if kind == "cfg" else ([], [(f["when"],)], []) if kind == "after" else ([], [], [f["case"]])
        n = check_cfg(ctx, mexe, mism, fails, dist, samples, cases=cases)
        if n == 0:
            print("  could not execute:", str(mism)[:400]); return 2
        return verdict([x["what"] for x in fails] + [x["what"] + " " + str(x.get("detail"))[:300] for x in mism])
    if kind == "timer-data" and "case" in f:
        cexe, msg = common.build_harness("c11_cfg", ["c11_cfg.c"], whitebox=True, exclude_objs=("source.c.o",))
        if cexe is None:
            print("  could not execute: harness build failed"); return 2
        n = check_timer_data(ctx, cexe, mexe, mism, dist, cases=[f["case"]])
        if n == 0:
            print("  could not execute:", str(mism)[:400]); return 2
        return verdict([x["what"] + " " + str(x.get("detail"))[:300] for x in mism])
    if kind == "epoll" and "script" in f:
        n = check_epoll(ctx, mexe, mism, fails, dist, samples, script=f["script"])
        if n == 0:
            print("  could not execute:", str(mism)[:400]); return 2
        return verdict([x["what"] for x in fails] + [x["what"] for x in mism])
    if kind == "trace" and "seed" in f:
        # the interleaving of a re-recorded run differs; the same scenario (seed) is recorded and judged again, three times
        n = check_trace(ctx, mexe, mism, fails, dist, samples, seeds=[f["seed"]] * 3)
        if dist.get("trace_runs", 0) == 0 and not mism:
            print("  could not execute"); return 2
        return verdict([x["what"] for x in mism])
    if kind == "e2e" and "seed" in f:
        e2e, m5 = common.build_harness("c11_e2e", ["c11_e2e.c"], whitebox=False)
        if e2e is None:
            print("  could not execute: harness build failed"); return 2
        now = []
        for _ in range(3):      # real threads and real time: the same scenario (seed, scale) three times
            r = run3([e2e, str(f["seed"]), str(f.get("scale", 1))], timeout=120)
            if not any(l.startswith("SUMMARY") for l in r.stdout.split("\n")):
                now.append("end-to-end harness did not finish (rc %s)" % r.returncode)
            now += [l for l in r.stdout.split("\n") if l.startswith("FAIL")]
        return verdict(now)
    print("  not re-executable from this file (kind %r): only a full ./check C11 re-establishes it" % kind)
    return 2


def replay(ctx, obj):
    """re-executes every recorded failing input / broken tie against the current build and judges it again.
       1 = at least one reproduces, 0 = all were executed and none reproduces, 2 = nothing (or not everything) could be executed"""
    common.ensure_build()
    exe, msg = common.build_harness("c11_heap", ["c11_heap.c"], whitebox=True, exclude_objs=("event.c.o",))
    mexe = _model_exe()
    if exe is None or mexe is None:
        print("harness / model build failed: nothing could be executed", (msg or "")[-400:])
        return 2
    res = []
    for f in obj.get("failures", []):
        print("recorded failure:", str(f.get("what"))[:600])
        res.append(_replay_one(ctx, f, exe, mexe))
    for b in obj.get("broken", []):
        d = b.get("detail", b) if isinstance(b, dict) else {}
        print("recorded as no longer shown:", str(b.get("what") if isinstance(b, dict) else b)[:200], "-", str(d.get("what", ""))[:500] if isinstance(d, dict) else "")
        inner = d.get("detail") if isinstance(d, dict) and isinstance(d.get("detail"), dict) else None
        if inner is None or "kind" not in inner:
            print("  not re-executable from this file (a proof obligation, a build or a tie without a recorded input): only a full ./check C11 re-establishes it")
            res.append(2)
            continue
        g = dict(inner); g["_tie"] = True
        res.append(_replay_one(ctx, g, exe, mexe))
    if not res:
        print("the file records nothing to execute")
        return 2
    if 1 in res:
        return 1
    if 2 in res:
        return 2
    return 0
