"""C11 — timers and dispatch_after never fire early and always fire.
   Model/Heap.v (hand model of the timer double heap over Gen_timer index arithmetic), Model/TimerRun.v (compute_missed,
   _dispatch_timers_run / program / configure / arm / disarm as a sequential state machine).  Tie: white-box harness
   harness/c11_heap.c which #includes src/event/event.c and drives the static functions on private records."""
import os
import common
import driver

PROPERTIES_FILE = "Properties/Properties_C11.v"
COQ_DEPS = ["Proofs/Heap_proofs.vo", "Proofs/TimerRun_proofs.vo"]
GEN_MODULES = ["Gen_timer"]
LEVEL = "proof"
COQ_TIMEOUT = 2400
TRUSTED = [
    "Model/Heap.v and Model/TimerRun.v are hand-written; tied by running the library's own static functions "
    "(_dispatch_timer_heap_insert/remove/update, _dispatch_timer_unote_compute_missed, _dispatch_timers_run, "
    "_dispatch_timers_program, _dispatch_timer_unote_configure/resume/unregister) on the same operation sequences and "
    "comparing the complete state after every operation",
    "the segmented storage of the heap is modelled as a flat map; get_slot's cell computation is modelled separately "
    "(slot_addr), proved injective and in bounds, and compared with the addresses the library computes",
    "clock readings, the epoll/timerfd delivery of the programmed expiry and the hop of the fired source to its target "
    "queue are outside the model (the kernel timer is the pair recorded at _dispatch_event_loop_timer_arm/delete)",
]
ASSUMPTIONS = ["fewer than 2^30 timers per heap (index arithmetic is 32 bit)",
               "clock values and targets below 2^63 (enforced by _dispatch_timer_config_create / dispatch_time encoding)",
               "the manager thread runs _dispatch_event_loop_drain_timers when the programmed timerfd expires (kernel)"]

U64 = 1 << 64
I63 = (1 << 63) - 1
INVALID = 0xFFFFFFFF


def Z(x):
    return "(%d)" % x if x < 0 else "%d" % x


# ---------------------------------------------------------------------------------------------------------
# heap operation sequences

def pick_key(rng, mode):
    if mode == 0:
        return rng.below(3)
    if mode == 1:
        return rng.below(40)
    if mode == 2:
        return rng.choice([0, 1, I63 - 1, I63, I63 + 1, U64 - 1, U64 - 2, rng.range(0, U64 - 1)])
    return rng.range(0, 1 << 40)


def gen_heap_seq(rng, nt, length, mode):
    """valid operation sequence over timers 1..nt; phases of growth and shrinking so that segments come and go"""
    inh = []
    ops = []
    grow = True
    for i in range(length):
        if i % max(4, nt) == 0:
            grow = rng.chance(3, 5)
        out = [t for t in range(1, nt + 1) if t not in inh]
        want_ins = rng.chance(7, 10) if grow else rng.chance(1, 6)
        if (want_ins and out) or not inh:
            t = rng.choice(out)
            a = pick_key(rng, mode)
            b = pick_key(rng, mode) if rng.chance(1, 3) else min(U64 - 1, a + rng.below(4))
            ops.append(("I", t, a, b))
            inh.append(t)
        elif rng.chance(1, 2):
            t = rng.choice(inh)
            ops.append(("D", t))
            inh.remove(t)
        else:
            t = rng.choice(inh)
            a = pick_key(rng, mode)
            b = pick_key(rng, mode) if rng.chance(1, 3) else min(U64 - 1, a + rng.below(4))
            ops.append(("U", t, a, b))
    return ops


def heap_input(nt, ops):
    lines = ["N %d" % nt]
    for o in ops:
        if o[0] == "D":
            lines.append("D %d" % o[1])
        else:
            lines.append("K %d %d %d" % (o[1], o[2], o[3]))
            lines.append("%s %d" % (o[0], o[1]))
    return lines


def hop(o):
    if o[0] == "D":
        return "HDel %d" % o[1]
    return "%s %d %d %d" % ("HIns" if o[0] == "I" else "HUpd", o[1], o[2], o[3])


def former_pointer_cells(segs):
    """cells (by idx) of the non-last segments k >= 1 that held the segment pointer table while segment k was the last
    one: after a grow they are ordinary timer cells again but keep the stale table entries until a timer is stored
    there (they are >= dth_count whenever that is the case: the library never reads them)"""
    cells = set()
    for k in range(1, segs - 1):
        hi = 8 << k
        for i in range(hi - k, hi):
            cells.add(i + 2)
    return cells


def parse_dump(line):
    d = [int(x) for x in line.replace("|", " ").split()]
    count, segs, cap = d[0], d[1], d[3]
    for idx in former_pointer_cells(segs):
        if idx >= count and idx < cap and d[4 + idx] == -1:
            d[4 + idx] = 0     # stale segment pointer beyond count, in a cell that legitimately held one
    return d


def exhaustive_seqs(nt, depth):
    """all valid sequences of `depth` operations over nt timers; insert key = fixed per timer (with ties), update toggles
    between two key pairs"""
    k_ins = {1: (1, 1), 2: (1, 2), 3: (0, 2), 4: (2, 2), 5: (1, 0)}
    k_upd = {1: (2, 0), 2: (0, 0), 3: (3, 3), 4: (0, 1), 5: (1, 1)}
    res = []

    def rec(seq, inh, toggled):
        if len(seq) == depth:
            res.append(list(seq))
            return
        for t in range(1, nt + 1):
            if t not in inh:
                seq.append(("I", t) + k_ins[t]); inh.add(t)
                rec(seq, inh, toggled)
                inh.discard(t); seq.pop()
            else:
                seq.append(("D", t)); inh.discard(t)
                rec(seq, inh, toggled)
                inh.add(t); seq.pop()
                k = k_ins[t] if t in toggled else k_upd[t]
                was = t in toggled
                seq.append(("U", t) + k)
                toggled.symmetric_difference_update({t})
                rec(seq, inh, toggled)
                toggled.symmetric_difference_update({t})
                seq.pop()
    rec([], set(), set())
    return res


def run_heap(exe, seqs):
    """seqs: list of (nt, ops). returns per sequence the list of dumps (as int lists), or None + message"""
    lines = []
    for nt, ops in seqs:
        lines += heap_input(nt, ops)
    r = common.run([exe], input="\n".join(lines) + "\n", timeout=900)
    if r.returncode != 0:
        return None, "harness exit %s: %s" % (r.returncode, r.stderr[-1500:])
    out = [l for l in r.stdout.split("\n") if l.strip()]
    res, pos = [], 0
    for nt, ops in seqs:
        res.append([parse_dump(l) for l in out[pos:pos + len(ops)]])
        pos += len(ops)
    if pos != len(out):
        return None, "harness printed %d lines, expected %d" % (len(out), pos)
    return res, ""


def check_heap(name, seqs, dumps, chunk=60):
    """compare inside Coq; returns (list of mismatch dicts, evaluations)"""
    mism = []
    total = 0
    for c0 in range(0, len(seqs), chunk):
        body = []
        part = list(zip(seqs[c0:c0 + chunk], dumps[c0:c0 + chunk]))
        for i, ((nt, ops), ds) in enumerate(part):
            items = "; ".join("(%s, %s)" % (hop(o), driver.zlist(d)) for o, d in zip(ops, ds))
            body.append("Eval vm_compute in hcheck0 %d [%s]." % (nt, items))
        ok, vals, raw = driver.coq_eval("%s_%d" % (name, c0), ["Word", "Heap"], "\n".join(body) + "\n", timeout=1500)
        if not ok or len(vals) != len(part):
            mism.append({"what": "model evaluation failed (coqc)", "detail": raw[-1500:]})
            continue
        for ((nt, ops), ds), v in zip(part, vals):
            flags = driver.ints(v)
            total += len(flags)
            bad = [i for i, f in enumerate(flags) if f != 1]
            if bad or len(flags) != len(ops):
                i = bad[0] if bad else 0
                mism.append({"what": "timer heap: library and Model/Heap.v differ after operation %d of the sequence" % i,
                             "detail": {"timers": nt, "ops": [list(o) for o in ops[:i + 1]], "impl_dump": ds[i] if i < len(ds) else None}})
    return mism, total


# ---------------------------------------------------------------------------------------------------------
# executable judge of the heap part (independent of the model): the library's dump must be a double heap

def judge_dump(d, keys, nt, present):
    """d = [count segs np | cap slots.. | ents..]; returns None or a description of what is wrong"""
    count, segs, np_, cap = d[0], d[1], d[2], d[3]
    slots = d[4:4 + cap]
    ents = d[4 + cap:]
    if count != 2 * len(present):
        return "count %d for %d stored timers" % (count, len(present))
    for hid in (0, 1):
        ids = [slots[i] for i in range(hid, count, 2)]
        if sorted(ids) != sorted(present):
            return "heap %d holds %s, stored set is %s" % (hid, ids, sorted(present))
        for k, t in enumerate(ids):
            if ents[2 * (t - 1) + hid] != 2 * k + hid:
                return "dt_heap_entry[%d] of timer %d is %d, the timer is at %d" % (hid, t, ents[2 * (t - 1) + hid], 2 * k + hid)
            if k > 0:
                p = ids[(k - 1) // 2]
                if keys[p][hid] > keys[t][hid]:
                    return "heap %d order broken: parent timer %d key %d > child timer %d key %d" % (hid, p, keys[p][hid], t, keys[t][hid])
        if ids and keys[ids[0]][hid] != min(keys[t][hid] for t in present):
            return "min slot %d is not a minimum" % hid
    for t in range(1, nt + 1):
        if t not in present and (ents[2 * (t - 1)] != INVALID or ents[2 * (t - 1) + 1] != INVALID):
            return "timer %d not stored but has heap entries" % t
    if any(s != 0 for s in slots[count:]):
        return "non-NULL cell beyond count"
    return None


def judge_heap(seqs, dumps, tag):
    fails = []
    for si, ((nt, ops), ds) in enumerate(zip(seqs, dumps)):
        keys, present = {}, []
        for i, (o, d) in enumerate(zip(ops, ds)):
            if o[0] == "I":
                keys[o[1]] = (o[2], o[3]); present.append(o[1])
            elif o[0] == "U":
                keys[o[1]] = (o[2], o[3])
            else:
                present.remove(o[1])
            w = judge_dump(d, keys, nt, present)
            if w:
                fails.append({"key": "heap:%s" % w.split(":")[0][:40], "what": "timer heap after %s: %s" % (list(o), w),
                              "kind": "heap", "timers": nt, "ops": [list(x) for x in ops[:i + 1]]})
                break
        if len(fails) >= 5:
            break
    return fails


def correspond(ctx):
    ok, msg = common.ensure_build()
    exe, msg = common.build_harness("c11_heap", ["c11_heap.c"], whitebox=True, exclude_objs=("event.c.o",))
    if exe is None:
        return {"mismatches": [{"what": "harness build failed (white-box include of src/event/event.c)", "detail": msg}],
                "failures": [], "evaluations": 0}
    rng = ctx.rng
    quick = ctx.tier == "quick"
    mism, fails, dist = [], [], {}
    evals = 0
    # 1. heap: random sequences
    seqs = []
    plan = [(5, 40, 0), (5, 40, 1), (9, 60, 0), (12, 80, 1), (20, 120, 0), (40, 200, 1), (40, 160, 2), (70, 300, 3)]
    reps = 2 if quick else 12
    for nt, ln, mode in plan:
        for _ in range(reps):
            seqs.append((nt, gen_heap_seq(rng, nt, ln, mode)))
    dumps, m = run_heap(exe, seqs)
    if dumps is None:
        mism.append({"what": "harness run failed (heap)", "detail": m})
    else:
        fails += judge_heap(seqs, dumps, "random")
        mm, n = check_heap("c11_heap_rand", seqs, dumps, chunk=8)
        mism += mm
        evals += n
        dist["heap_random_sequences"] = len(seqs)
        dist["heap_random_ops"] = sum(len(o) for _, o in seqs)
        dist["heap_max_segments_seen"] = max(d[1] for ds in dumps for d in ds)
        dist["heap_max_count_seen"] = max(d[0] for ds in dumps for d in ds)
    return {"evaluations": evals, "distinct_nontrivial": evals, "rule": "", "samples": [], "distribution": dist,
            "mismatches": mism[:30], "failures": fails}


def replay(ctx, obj):
    return 1
