"""C02 for the MAIN QUEUE — Model/MainQ.v (global model, theorems in Properties_C02_mainq.v) and Model/MainQT.v (per-thread
observation automaton).  Exposes correspond(ctx) for lib/props/c02.py:

  harness/c02_mainq.c runs one scenario per process (the main queue is process-global): the main thread services the eventfd
  handle (_dispatch_get_main_queue_handle_4CF: poll / read) and calls _dispatch_main_queue_callback_4CF; other threads flood
  dispatch_async_f / dispatch_barrier_async_f / dispatch_sync_f / dispatch_barrier_sync_f / dispatch_async_and_wait_f /
  dispatch_barrier_async_and_wait_f onto dispatch_get_main_queue() and onto serial queues targeting it, under schedule
  perturbation; work items that run a nested service of the handle; work items that dispatch_async_f more items onto the main
  queue from inside their callout (scenario resubmit); callbacks without a read; dispatch_main() from the main
  thread with pushers still running (workers take over, the process exits from the coordinator once the queue is at rest).
  1. every thread's recording (atomic operations on &_dispatch_main_q and on the callers' thread events, eventfd reads / writes,
     call / return / callout marks) is replayed through MainQT.tstep INSIDE Coq: every dq_state compare-exchange (successful or
     not) must carry the value of the generated Gen_dqstate body of its program point applied to the value observed;
  2. API-level oracle on the same runs: no two items of the main queue overlap, every callout of the thread-bound phase is on the
     main thread (including the blocks of synchronous callers), per-producer submission order, synchronous calls return after
     their block finished, exactly once, everything submitted runs (stuck watchdog: a lost eventfd poke strands the queue);
  3. scenario `direct`: the total order of callouts equals the order of the tail exchanges (chain of dq_items_tail values,
     segmented by the bound thread's snapshots)."""
import os
import re

import common
import conc
import driver

PROPERTIES_FILE = "Properties/Properties_C02_mainq.v"
COQ_DEPS = ["Proofs/MainQ_proofs.vo", "Proofs/MainQ_extra.vo", "Model/MainQT.vo", "Proofs/MainQT_sites.vo"]
GEN_MODULES = ["Gen_dqstate", "Gen_mainq", "Gen_lanesites", "Gen_fields"]
LEVEL = "proof"
TRUSTED = [
    "Model/MainQ.v (global model of the thread-bound main queue and of its hand-over to the lane protocol at dispatch_main()) is "
    "hand-written control flow around generated pieces: every dq_state transition is a Gen_dqstate body; the MPSC list, the eventfd "
    "counter and the thread events are hand-modelled.  It is tied to the running library by Model/MainQT.v: every recorded thread "
    "trace of the stress runs must be accepted by MainQT.tstep (evaluated in Coq), which follows MainQ's program points one to one; "
    "MainQT's atomic sites (kind, word, memory order, program order) are proved equal to the site lists src2v reads from the source "
    "of the main-queue functions on every run (C02_mainq_sites_match, module Gen_mainq of src2v/targets.json)",
    "atomicity: each os_atomic_* operation is one step, an rmw loop is its successful compare-exchange; sequentially consistent "
    "interleaving (the C11 memory model is not formalised)",
    "kernel: eventfd_write adds to the counter, the bound thread's read resets it; futex_wait may return spuriously, FUTEX_WAKE wakes "
    "the sleeper; plain (non-atomic) reads of the source (dq_items_tail in the drains, the max-QoS byte in _dispatch_queue_need_override) "
    "are not observable: the automaton accepts both continuations there",
    "the QoS argument of the rmw bodies is existential (0..7) in the trace replay",
]
ASSUMPTIONS = [
    "API contract of the 4CF entry points: only the bound (main) thread reads the main queue's handle and calls "
    "_dispatch_main_queue_callback_4CF (scheduler constraint of the model, mbegin MService / MCallback)",
    "MODEL SCOPE (restrictions of Model/MainQ.v on the client, not API contracts; the theorems are silent outside them): "
    "dispatch_main() is called when no dispatch_sync / dispatch_async_and_wait onto the main queue is in flight and NO such call "
    "is started afterwards at all (MSync is disabled once dispatch_main() was called; a context still queued would be handed the "
    "drain lock on the ordinary-lane paths of Model/SyncWait.v); a work item may dispatch_async_f onto the main queue from inside "
    "its callout on the bound thread (modelled: mbegin MAsync at MB_incall, theorems hold over it, scenario resubmit), but not "
    "from inside its callout on a worker after dispatch_main() and not synchronously (those pushes are accepted by the trace "
    "automaton and judged by the oracle in scenarios phase2 / phase2_sync, not by the global model); the main queue is never "
    "suspended or retargeted",
    "fair scheduling for 'everything submitted runs' (the harness watchdog is progress-based: 10 s without any submission, "
    "callout or return)",
]
IMPORTS = ["Word", "Conc", "Gen_consts", "Gen_dqstate", "SLane", "MainQ", "MainQT"]
MASK = 0x3fffffff
TAGS = {1: "push_was_empty", 2: "push_not_empty", 3: "override_wakeup_bound", 4: "override_wakeup_lane", 5: "dirty_wakeup_bound",
        6: "dirty_wakeup_lane", 7: "probe_saw_empty_no_poke", 8: "probe_saw_items", 9: "poke_cas_failed", 10: "poke_merged_qos",
        11: "reset_cleared_qos_probe_again", 12: "lane_probe_saw_items", 13: "lane_wakeup_enqueued", 14: "lane_wakeup_cas_failed",
        15: "wait_already_signalled", 16: "wait_before_signal", 17: "futex_wait", 18: "futex_wait_returned", 19: "callback_nothing_queued",
        20: "drain_head_not_published", 21: "snapshot_captured", 22: "bound_thread_pushes_inside_drain", 23: "nested_read_in_item",
        24: "signal_before_wait", 25: "signal_needs_futex_wake", 26: "drain_exit_wakeup", 27: "cleanup2_rmw", 28: "cleanup2_list_not_empty",
        29: "cleanup2_released_empty", 30: "cleanup2_saw_dirty", 31: "cleanup2_enqueued_lane", 32: "worker_lock_attempt",
        33: "worker_locked", 34: "worker_lock_refused", 35: "worker_pop_last", 36: "worker_pop_raced_push", 37: "worker_unlocked",
        38: "worker_unlock_refused_dirty", 39: "worker_head_not_published", 40: "stale_bound_wakeup_found_handle_closed",
        41: "item_on_bound_thread_submits_to_main_queue", 42: "item_on_worker_submits_to_main_queue"}
# every stress run of the quick tier reaches these (dozens to thousands of times); missing one means the run did not test the protocol
REQUIRED = [1, 2, 3, 5, 7, 8, 16, 17, 21, 25, 26, 27, 32, 33, 37, 41]


def build():
    exe, msg = common.build_harness("c02_mainq", ["c02_mainq.c"], whitebox=True, extra=["-I" + common.VERIF + "/harness"])
    if exe is None:
        raise RuntimeError("harness build failed: " + msg)
    return exe


HARNESS_LIMIT = 240


def run_harness(exe, seed, scn, permille, scale):
    """-> (stdout, died).  The harness has its own progress-based watchdog (rc 3 + a FAIL STUCK line after 10 s without any
    submission / callout / return): that is a verdict.  The wall-clock limit here is only a guard: when it expires the run
    is repeated ONCE, alone, with ten times the limit, and only that second run is judged."""
    cmd = [exe, str(seed), scn, str(permille), str(scale)]
    r = common.run(cmd, timeout=HARNESS_LIMIT)
    if r.returncode == 124:
        r = common.run(cmd, timeout=10 * HARNESS_LIMIT)
        if r.returncode == 124:
            return r.stdout or "", "no exit within %d s (run alone, after a first expiry of %d s)" % (10 * HARNESS_LIMIT, HARNESS_LIMIT)
    if r.returncode not in (0, 1, 3):
        return r.stdout or "", "rc=%s %s" % (r.returncode, (r.stderr or "")[-300:])
    return r.stdout, None


class NEv:
    __slots__ = ("kind", "order", "obj", "off", "size", "a", "b", "ok", "seq", "line", "thr")

    def __init__(self, kind, order, obj, off, size, a, b, ok, seq, line, thr):
        (self.kind, self.order, self.obj, self.off, self.size, self.a, self.b, self.ok, self.seq, self.line,
         self.thr) = kind, order, obj, off, size, a, b, ok, seq, line, thr

    def coq(self):
        return "mkEv %d %d %d %d %d %d %d %d" % (self.kind, self.order, self.obj, self.off, self.size, self.a, self.b, self.ok)

    def brief(self):
        return "%s(o%d+%d sz%d %x->%x ok=%d L%d)" % (conc.KIND_NAMES.get(self.kind, str(self.kind)), self.obj, self.off, self.size,
                                                    self.a, self.b, self.ok, self.line)


def parse(text):
    other, per = conc.parse_dump(text)
    lay, main_tid, roles, fails, stats = None, None, {}, [], {}
    for l in other:
        f = l.split()
        if f[0] == "Q":
            lay = {k: int(v) for k, v in (t.split("=") for t in f[1:])}
        elif f[0] == "M":
            main_tid = int(f[1])
        elif f[0] == "T":
            roles[int(f[2])] = f[3]
        elif f[0] == "FAIL":
            fails.append(l[5:])
        elif f[0] == "S":
            for tok in f[1:]:
                k, _, v = tok.partition("=")
                stats[k] = int(v)
    return lay, main_tid, roles, fails, stats, per


def normalise(lay, per):
    """recorder events -> MainQT events; pointer values are renamed to small numbers (the automaton only compares them)"""
    offs = {lay["off_state"]: 0, lay["off_tail"]: 8, lay["off_head"]: 16, lay["off_flags"]: 24, lay["off_next"]: 32, 24: 40}
    ptr = {0: 0}

    def pid(v):
        if v not in ptr:
            ptr[v] = len(ptr)
        return ptr[v]
    out, dropped = {}, 0
    for thr, evs in per.items():
        tr = []
        for e in evs:
            ok = e.ok & 1
            if e.kind >= 100:
                if e.kind in (102, 103):
                    tr.append(NEv(e.kind, 0, e.obj, 0, 0, e.a, e.b & MASK, 1, e.seq, 0, thr))
                else:
                    tr.append(NEv(e.kind, 0, e.obj, 0, 0, e.a, e.b, 1, e.seq, 0, thr))
            elif e.obj == 1:
                o = offs.get(e.off)
                if o is None:
                    dropped += 1
                    continue
                if o in (8, 16, 32, 40):
                    tr.append(NEv(e.kind, e.order, 0, o, e.size, pid(e.a), pid(e.b), ok, e.seq, e.line, thr))
                else:
                    tr.append(NEv(e.kind, e.order, 0, o, e.size, e.a, e.b, ok, e.seq, e.line, thr))
            elif e.kind in (32, 33, 34):
                tr.append(NEv(e.kind, 0, e.obj & MASK, 0, 0, e.a, e.b, ok, e.seq, e.line, thr))
            elif e.size == 4:
                tr.append(NEv(e.kind, e.order, e.obj & MASK, 0, 4, e.a, e.b, ok, e.seq, e.line, thr))
            elif e.size == 8 and e.kind in (1, 2):
                tr.append(NEv(e.kind, e.order, e.obj & MASK, 0, 8, pid(e.a), pid(e.b), ok, e.seq, e.line, thr))
            else:
                dropped += 1
        if tr:
            out[thr] = tr
    return out, dropped


class TieBroken(Exception):
    pass


def coq_conform(name, jobs, chunk_events=5000, timeout=900):
    """jobs: list of (self, ismain, floor, main, p2, [NEv]) -> list of int lists [idx, idle, counts...], one per job.
    Raises TieBroken when Coq does not deliver exactly one result per trace (after one repetition with ten times the limit
    when the first attempt hit the wall-clock limit)."""
    res, i, ci = [], 0, 0
    while i < len(jobs):
        part, n = [], 0
        while i < len(jobs) and (not part or n + len(jobs[i][5]) <= chunk_events):
            part.append(jobs[i])
            n += len(jobs[i][5])
            i += 1
        rows = ["(%d, %d, %d, %d, %d, [%s])" % (sv, im, fl, mn, p2, "; ".join(e.coq() for e in tr)) for (sv, im, fl, mn, p2, tr) in part]
        body = ["Definition jobs : list (Z * Z * Z * Z * Z * list event) := [", ";\n".join(rows), "].",
                "Eval vm_compute in map (fun '(sv, im, fl, mn, p2, tr) => conform sv im fl mn p2 tr) jobs."]
        ok, vals, raw = driver.coq_eval("%s_%d" % (name, ci), IMPORTS, "\n".join(body) + "\n", timeout=timeout)
        if not ok and "TIMEOUT" in raw:
            ok, vals, raw = driver.coq_eval("%s_%d" % (name, ci), IMPORTS, "\n".join(body) + "\n", timeout=10 * timeout)
        ci += 1
        if not ok or len(vals) != 1:
            raise TieBroken("the Coq evaluation of MainQT.conform on %d recorded traces failed: %s" % (len(part), raw[-1500:]))
        got = [driver.ints(r) for r in re.findall(r"\[([^\[\]]*)\]", vals[0])]
        if len(got) != len(part) or any(len(g) < 2 for g in got):
            raise TieBroken("the Coq evaluation of MainQT.conform returned %d results for %d traces: %s" % (len(got), len(part), vals[0][:300]))
        res += got
    return res


def case_name(ctx, what):
    """file name under .cache/cases: carries the property id and the process id (two checks may run at the same time)"""
    return "c02mq_%s_%s_%d" % (what, re.sub(r"\W", "_", str(getattr(ctx, "pid", "x"))), os.getpid())


def total_order_oracle(per, main_thr):
    """scenario `direct`: callouts on the bound thread are in tail-exchange order.  Every exchange of dq_items_tail returns the
    previous tail; the bound thread's snapshots (xchg to NULL) cut the chain into segments; an item address is unique inside a
    segment (it is freed only after it ran), so consuming, segment by segment, the earliest unconsumed exchange of each address
    rebuilds the exact order.  Returns a list of problems."""
    pushes = {}     # address -> list of (seq, prev, ticket) in seq order
    for thr, evs in per.items():
        ticket = None
        for e in evs:
            if e.kind == 100:
                ticket = e.a
            elif e.kind == 101:
                ticket = None
            elif e.kind == 3 and e.obj == 0 and e.off == 8 and e.b != 0:
                pushes.setdefault(e.b, []).append((e.seq, e.a, ticket))
    for v in pushes.values():
        v.sort()
    order, probs = [], []
    callouts = [e.a for e in per[main_thr] if e.kind == 102]
    for e in per[main_thr]:
        if e.kind == 3 and e.obj == 0 and e.off == 8 and e.b == 0:
            seg, cur, guard = [], e.a, 0
            while cur != 0 and guard < 100000:
                guard += 1
                lst = pushes.get(cur)
                if not lst:
                    probs.append("snapshot at stamp %d: address %x in the chain was never exchanged into the tail" % (e.seq, cur))
                    break
                seq, prev, ticket = lst.pop(0)
                seg.append(ticket)
                cur = prev
            order += list(reversed(seg))
    if None in order:
        return probs     # a push from outside a marked call (not in this scenario)
    if order != callouts[:len(order)] or len(order) != len(callouts):
        k = next((i for i, (x, y) in enumerate(zip(order, callouts)) if x != y), min(len(order), len(callouts)))
        probs.append("callouts are not in tail-exchange order: position %d: exchange order has item %s, the callout was item %s "
                     "(%d exchanged, %d run)" % (k, order[k] if k < len(order) else None, callouts[k] if k < len(callouts) else None,
                                                len(order), len(callouts)))
    return probs


def skipped_pokes(traces, main_thr):
    """thread-bound wakeups that found items (probe of dq_items_tail != NULL, then the poke loop) and returned without writing
    the eventfd: legitimate only once dispatch_main() has been called (the handle is closed at the end of cleanup2).
    Returns the stamps of skips that happened before the main thread's MARK 3 (or anywhere if there is none)."""
    m3 = next((e.seq for e in traces.get(main_thr, []) if e.kind == 104 and e.obj == 3), None)
    bad = []
    for thr, tr in traces.items():
        bound, st = False, 0     # st: 0 idle, 1 saw probe != 0 in a thread-bound wakeup, 2 saw the poke loop's load
        for e in tr:
            if e.kind == 1 and e.obj == 0 and e.off == 24:
                bound, st = bool(e.a & 0x40000), 0
            elif e.kind == 1 and e.obj == 0 and e.off == 8 and e.order == 5:
                st = 1 if (bound and e.a != 0) else 0
            elif st == 1 and e.kind == 1 and e.obj == 0 and e.off == 0:
                st = 2
            elif st == 2 and e.kind == 5 and e.obj == 0 and e.off == 0:
                pass
            elif st == 2:
                if not (e.kind == 104 and e.obj == 5) and (m3 is None or e.seq < m3):
                    bad.append((thr, e.seq))
                st = 0
    return bad


PLANS = {   # (scenario, permille, scale)
    "quick": [("direct", 0, 1), ("direct", 200, 1), ("targeting", 150, 1), ("nested", 100, 1), ("spurious", 300, 1), ("resubmit", 150, 1),
              ("phase2", 100, 1), ("phase2", 350, 1), ("phase2_sync", 150, 1)],
    "thorough": [("direct", 0, 2), ("direct", 200, 2), ("direct", 450, 1), ("targeting", 150, 2), ("targeting", 400, 1),
                 ("nested", 100, 2), ("nested", 350, 1), ("spurious", 300, 2), ("resubmit", 0, 2), ("resubmit", 300, 2), ("phase2", 0, 2), ("phase2", 100, 2),
                 ("phase2", 350, 2), ("phase2_sync", 150, 2), ("phase2_sync", 400, 1)],
}


def analyse(text, died, scn, label, args):
    """-> (failures, jobs, meta, stats, main_thr, ties): `ties` are broken-tie dicts of this run (no usable output, truncated
    output, no trace recorded): never a silent pass"""
    fails, jobs, meta, ties = [], [], [], []
    lay, main_tid, roles, flines, stats, per = parse(text)
    for what in flines:
        key = "%s:%s" % (scn, " ".join(what.split()[:5]))
        if not any(f["key"] == key for f in fails):
            fails.append({"key": key, "what": ("%s [scenario %s, run %s]" % (what[:300], scn, label)), "args": args})
    if died:
        fails.append({"key": "%s:died" % scn, "what": "stress client died in scenario %s (%s): %s" % (scn, label, died), "args": args})
    if lay is None or main_tid is None:
        ties.append({"what": "a stress run of harness/c02_mainq.c printed no layout / main-thread line: nothing of this run was judged",
                     "detail": {"run": label, "args": args, "output_bytes": len(text or ""), "died": died}})
        return fails, jobs, meta, stats, None, ties
    if not died and "fails" not in stats and not any(w.startswith("STUCK") for w in flines):   # (the watchdog exits without statistics)
        ties.append({"what": "the output of a stress run of harness/c02_mainq.c is truncated (no final statistics line): the run "
                             "cannot be judged", "detail": {"run": label, "args": args, "output_bytes": len(text or "")}})
    traces, dropped = normalise(lay, per)
    main_thr = next((thr for thr, tr in traces.items() if per[thr][0].tid == main_tid), None)
    if main_thr is None or len(traces) < 2:
        ties.append({"what": "a stress run of harness/c02_mainq.c recorded no trace of the main thread or of any client thread "
                             "(recording hook compiled out / dump missing?)",
                     "detail": {"run": label, "args": args, "threads_recorded": len(traces)}})
    if scn == "direct" and main_thr is not None and not died and not flines:
        for p in total_order_oracle(traces, main_thr):
            fails.append({"key": "%s:order" % scn, "what": "%s [scenario %s, run %s]" % (p, scn, label), "args": args})
    if main_thr is not None:
        for thr, sq in skipped_pokes(traces, main_thr)[:3]:
            fails.append({"key": "%s:nopoke" % scn, "what": "a thread-bound wakeup found items on the main queue and returned without "
                          "writing the eventfd (thread #%d, stamp %d) although dispatch_main() had not been called: the bound thread is "
                          "never told [scenario %s, run %s]" % (thr, sq, scn, label), "args": args})
    if scn != "phase2_sync":      # synchronous contexts queued across dispatch_main(): outside the model, oracle only
        for thr, tr in sorted(traces.items()):
            tid = per[thr][0].tid
            jobs.append((tid & MASK, 1 if tid == main_tid else 0, 0, main_tid & MASK, 1 if scn.startswith("phase2") else 0, tr))
            meta.append({"run": label, "args": args, "thread": thr, "tid": tid,
                         "role": "main" if tid == main_tid else roles.get(tid, "worker")})
    stats["dropped_events"] = dropped
    return fails, jobs, meta, stats, main_thr, ties


def judge(ctx, exe, runs, what):
    """run the harness on every (seed, scenario, permille, scale) of `runs`, judge the output with the oracle and replay every
    recorded thread trace through MainQT.tstep in Coq.  Used by correspond() and, on the recorded inputs, by replay()."""
    fails, mism, jobs, meta, dist, nitems = [], [], [], [], {}, 0
    for (seed, scn, pm, scale) in runs:
        text, died = run_harness(exe, seed, scn, pm, scale)
        label = "seed%d/%s/%d/%d" % (seed, scn, pm, scale)
        f, j, m, st, _, ties = analyse(text, died, scn, label, [seed, scn, pm, scale])
        fails += f
        mism += ties
        jobs += j
        meta += m
        nitems += st.get("items", 0)
        for k in ("reads", "nested_reads", "pokes", "spurious", "phase2_runs", "async", "dropped_events", "resub", "resub_last"):
            dist[k] = dist.get(k, 0) + st.get(k, 0)
        dist["runs_" + scn] = dist.get("runs_" + scn, 0) + 1
        if "fails" in st and st.get("items", 0) <= 0 and not died:
            mism.append({"what": "a stress run of harness/c02_mainq.c submitted no item at all", "detail": {"run": label, "args": [seed, scn, pm, scale]}})
    counts, nev = [0] * 64, 0
    try:
        res = coq_conform(case_name(ctx, what), jobs) if jobs else []
    except TieBroken as e:
        mism.append({"what": "the recorded traces could not be replayed through MainQT.tstep in Coq (evaluation failed: nothing ties "
                             "the model to these runs)", "detail": {"error": str(e)[-1800:], "plan": [list(r) for r in runs]}})
        res = None
    if res is not None:
        if not (len(res) == len(jobs) == len(meta)):
            mism.append({"what": "internal: %d conformance results for %d traces (%d descriptions)" % (len(res), len(jobs), len(meta)),
                         "detail": {"plan": [list(r) for r in runs]}})
        for g, (sv, im, fl, mn, p2, tr), mt in zip(res, jobs, meta):
            nev += len(tr)
            i, idle = g[0], g[1]
            for k, c in enumerate(g[2:]):
                counts[k] += c
            if i != -1 or idle != 1:
                lo = max(0, i - 10)
                mism.append({"what": "a recorded thread trace of the library is not accepted by the main-queue thread automaton "
                                     "(MainQT.tstep): the implementation took a step the model does not have, or a dq_state "
                                     "compare-exchange does not carry the value of the generated body of its program point",
                             "detail": dict(mt, rejected_at=i, ended_idle=idle,
                                            around=[e.brief() for e in tr[lo:i + 3]] if i >= 0 else [e.brief() for e in tr[-8:]])})
    return {"fails": fails, "mism": mism, "jobs": jobs, "meta": meta, "dist": dist, "nitems": nitems, "counts": counts, "nev": nev}


def required_for(runs):
    """the branches every run of these scenarios reaches (dozens to thousands of times)"""
    scns = set(r[1] for r in runs)
    req = set()
    if scns & set(("direct", "targeting", "nested", "spurious", "resubmit", "phase2")):
        req |= set((1, 2, 3, 5, 7, 8, 21, 26))
    if scns & set(("direct", "targeting", "nested", "spurious")):
        req |= set((16, 17, 25))
    if "resubmit" in scns:
        req.add(41)
    if "phase2" in scns:
        req |= set((27, 32, 33, 37))
    return sorted(req)


def correspond(ctx):
    exe = build()
    plan = PLANS["quick" if ctx.tier == "quick" else "thorough"]
    runs = [(ctx.seed * 1000 + i, scn, pm, scale) for i, (scn, pm, scale) in enumerate(plan)]
    r = judge(ctx, exe, runs, "conf")
    fails, mism, jobs, meta, dist, counts, nev = r["fails"], r["mism"], r["jobs"], r["meta"], r["dist"], r["counts"], r["nev"]
    for k, name in TAGS.items():
        dist["branch_" + name] = counts[k]
    missing = [TAGS[k] for k in REQUIRED if counts[k] == 0]
    if missing and not mism:
        mism.append({"what": "the stress runs did not reach these branches of the main-queue protocol: " + ", ".join(missing),
                     "detail": {"branch_counts": {TAGS[k]: counts[k] for k in TAGS}, "plan": [list(x) for x in runs]}})
    if dist.get("runs_resubmit", 0) and dist.get("resub", 0) <= 0 and not mism:
        mism.append({"what": "scenario resubmit: no work item submitted to the main queue from inside its callout",
                     "detail": {"plan": [list(x) for x in runs if x[1] == "resubmit"]}})
    if (not jobs or nev <= 0) and not mism:
        mism.append({"what": "no thread trace was recorded and replayed in this run (%d traces, %d events): nothing ties the model "
                             "to the code" % (len(jobs), nev), "detail": {"plan": [list(x) for x in runs]}})
    dist["runs_requested"] = len(runs)
    dist["runs_with_traces"] = len(set(m["run"] for m in meta))
    shapes = len([c for c in counts if c])
    samples = [dict(meta[k], first_events=[e.brief() for e in jobs[k][5][:20]]) for k in range(min(3, len(jobs)))]
    return {"evaluations": nev, "distinct_nontrivial": shapes,
            "rule": "stress runs of harness/c02_mainq.c, one scenario per process (direct, targeting, nested, spurious, resubmit, "
                    "phase2, phase2_sync), 4..7 client threads against the main thread acting as the run loop, schedule perturbation "
                    "inside the library's atomic operations (0..45 percent of events); every atomic operation on &_dispatch_main_q "
                    "and on the waiters' thread events, every eventfd read / write, futex call and call / return / callout mark is "
                    "recorded per thread and each thread's whole trace is replayed through MainQT.tstep inside Coq (every dq_state "
                    "compare-exchange checked against the generated body of its program point; phase2_sync: oracle only); API-level "
                    "oracle on the same runs: overlap counter, callouts of the thread-bound phase on the main thread, per-producer "
                    "order (the bound thread / the draining worker being one more producer when items resubmit from inside their "
                    "callout), total tail-exchange order (scenario direct), synchronous calls return after completion and exactly "
                    "once, stuck watchdog (progress-based); evaluations = recorded events actually replayed; distinct = distinct "
                    "automaton branches taken",
            "samples": samples, "distribution": dist, "traces_validated_against_impl": len(jobs), "items_judged": r["nitems"],
            "mismatches": mism[:20], "failures": fails[:20]}


def replay(ctx, obj):
    """re-executes the recorded inputs (seed, scenario, perturbation, scale: the same parameters) against the current build and
    judges them again with the oracle and the Coq conformance.  1: a failure / rejected trace shows again; 0: every recorded
    input was re-executed and judged clean; 2: nothing in the file could be re-executed (a proof or a site tie that no longer
    checked: only a full ./check re-establishes those)."""
    runs, plans, unexec = [], [], []

    def add(a):
        if isinstance(a, (list, tuple)) and len(a) == 4:
            t = (int(a[0]), str(a[1]), int(a[2]), int(a[3]))
            if t not in runs:
                runs.append(t)
            return True
        return False
    for f in obj.get("failures", []):
        print("recorded failure:", f.get("what"))
        if not add(f.get("args")):
            unexec.append(f.get("what"))
    for b in obj.get("broken", []):
        d = b.get("detail")
        dd = d.get("detail") if isinstance(d, dict) else None
        if b.get("what") == "correspondence" and isinstance(dd, dict) and (dd.get("args") or dd.get("plan")):
            print("recorded broken tie:", d.get("what"))
            if dd.get("args"):
                add(dd["args"])
            else:
                plan = [tuple(x) for x in dd["plan"] if len(x) == 4]
                plans.append((d.get("what", ""), plan))
                for x in plan:
                    add(x)
        else:
            print("no longer checked (not re-executable from this file; only a full ./check re-establishes it):",
                  str(d if not isinstance(d, dict) else d.get("what", d))[:600])
            unexec.append(b.get("what"))
    if not runs:
        print("nothing in this replay file could be re-executed")
        return 2
    exe = build()
    r = judge(ctx, exe, runs, "replay")
    bad = 0
    for f in r["fails"]:
        print("REPRODUCED failure:", f["what"])
        bad += 1
    for m in r["mism"]:
        print("REPRODUCED broken tie:", m["what"], str(m.get("detail"))[:700])
        bad += 1
    for what, plan in plans:
        if "did not reach these branches" in what:
            miss = [TAGS[k] for k in required_for(plan) if r["counts"][k] == 0]
            if miss:
                print("REPRODUCED: the recorded plan still does not reach: " + ", ".join(miss))
                bad += 1
    print("re-executed %d recorded run(s): %s; %d events replayed through MainQT.tstep" % (len(runs), ", ".join("seed%d/%s/%d/%d" % x for x in runs), r["nev"]))
    if bad:
        return 1
    print("does not reproduce: every recorded input was re-executed against the current build and judged clean")
    if unexec:
        print("(%d entr%s of the file could not be re-executed, see above)" % (len(unexec), "y" if len(unexec) == 1 else "ies"))
    return 0
