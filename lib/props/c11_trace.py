"""C11 helper: replay of a log recorded by harness/c11_trace.c (a real multi-threaded libdispatch process) through the
extracted model (ocaml/c11_driver.ml, interactive), checking the guards of the system theorems at every recorded call."""
import subprocess

U64 = 1 << 64
I63 = (1 << 63) - 1
T63 = 1 << 63
(E_CREATE, E_SETTIMER, E_REGISTER, E_CONFIGURE, E_RESUME, E_UNREGISTER, E_DRAIN_BEGIN, E_NOW, E_FIRE, E_KARM, E_KDEL, E_SUSP,
 E_DRAIN_END, E_LATCH, E_HANDLER, E_PLOAD, E_HEAPFLAGS, E_SNAP, E_AFTERRUN, E_CXCHG) = range(1, 21)


class Driver:
    def __init__(self, exe):
        self.p = subprocess.Popen([exe], stdin=subprocess.PIPE, stdout=subprocess.PIPE, text=True, bufsize=1)
        self.ncmd = 0

    def send(self, line, answer=False):
        self.p.stdin.write(line + "\n")
        self.p.stdin.flush()
        self.ncmd += 1
        if answer:
            return [int(x) for x in self.p.stdout.readline().split()]
        return None

    def close(self):
        try:
            self.p.stdin.close()
            self.p.wait(timeout=10)
        except Exception:
            self.p.kill()


def parse_obs(st, nt):
    """obs_state list -> (dirty, heaps[(count,np,armed,min0,min1)], timers[(armed,ident,tg,dl,itv,pending,e0,e1,cfg,registered)])"""
    dirty = st[0]
    heaps = [tuple(st[1 + 5 * i:6 + 5 * i]) for i in range(3)]
    rest = st[16:]
    timers = [tuple(rest[10 * i:10 * i + 10]) for i in range(nt)]
    return dirty, heaps, timers


def unpack_e(e):
    return (e >> 62) & 1, (e >> 61) & 1, e & ((1 << 61) - 1)     # armed, hascfg, pending


def replay(driver_exe, log, report):
    """log: list of (kind, t, th, a, b, c, d, e). report: dict collecting statistics; returns list of problems"""
    probs = []
    nt = max([ev[1] for ev in log] + [1])
    d = Driver(driver_exe)
    try:
        # configurations handed to set_timer, through the model of _dispatch_timer_config_create
        cfgs = {}
        for i, ev in enumerate(log):
            if ev[0] == E_SETTIMER:
                r = d.send("G %d %d %d 0 1 1 1" % (ev[5], ev[6], ev[7]), True)
                cfgs[i] = r            # clock tg dl itv
        d.send("N %d" % nt)
        consumed = set()
        known = set()
        heap_thread = None
        floating = []              # indices of LATCH events waiting for the model to catch up
        last_fire_now = {}         # timer -> cached clock reading of the manager pass that fired it last

        def src_check(t, now, canc, what, skip=False):
            """the extracted source-side model at a recorded source-side call of the library: _dispatch_source_wakeup's test
               (wake_needed) must hold of the model's timer (the source was invoked for a reason the model knows), and the
               first applicable action of invoke_step gives the prediction the caller compares with the state after the
               library's own action (returned: predicted obs_state, or None if not applicable)"""
            w = d.send("xw %d %d" % (t, canc), True)
            report["src_wake_checks"] = report.get("src_wake_checks", 0) + 1
            if w != [1]:
                probs.append({"key": "trace:wake-needed", "what": "%s of timer %d although Model/TimerRun.v wake_needed is false of its state (no reason to invoke the source)" % (what, t)})
            if skip:
                report["src_invoke_skipped"] = report.get("src_invoke_skipped", 0) + 1
                return None
            # the model's suspended flag is a parameter supplied at each use (the recorded readings of
            # DISPATCH_QUEUE_IS_SUSPENDED): invoke2 acting means the source was not suspended at its test
            d.send("s %d 0" % t)
            return d.send("xi %d %d %d" % (t, min(max(now, 0), T63 - 1), canc), True)[1:]

        def src_compare(t, pred, what):
            if pred is None:
                return
            report["src_invoke_compared"] = report.get("src_invoke_compared", 0) + 1
            cur = d.send("S", True)
            if cur != pred:
                where = next((k for k in range(min(len(cur), len(pred))) if cur[k] != pred[k]), -1)
                probs.append({"key": "trace:invoke-step", "what": "%s of timer %d: the library's action leads to a state that differs from Model/TimerRun.v invoke_step's (first difference at obs entry %d: %s vs %s)"
                              % (what, t, where, cur[where:where + 6], pred[where:where + 6])})

        def state():
            return parse_obs(d.send("S", True), nt)

        def thread_check(ev, what):
            nonlocal heap_thread
            if heap_thread is None:
                heap_thread = ev[2]
            elif ev[2] != heap_thread:
                probs.append({"key": "trace:thread", "what": "%s on thread %d, the timer heaps are otherwise touched by thread %d only" % (what, ev[2], heap_thread)})

        def issue_settimer(i):
            ev = log[i]
            c, tg, dl, itv = cfgs[i]
            if not (1 <= tg < U64 and 1 <= itv < U64):
                probs.append({"key": "trace:guardV-cfg", "what": "set_timer produced target %d interval %d (outside the ranges the theorems assume)" % (tg, itv)})
            d.send("c %d %d %d %d %d" % (ev[1], c, tg, dl, itv))
            consumed.add(i)
            report["set_timer"] = report.get("set_timer", 0) + 1

        def next_resume_target(i, t):
            for j in range(i + 1, min(len(log), i + 4000)):
                if log[j][0] == E_RESUME and log[j][1] == t:
                    return log[j][4]
                if log[j][0] in (E_REGISTER, E_UNREGISTER) and log[j][1] == t:
                    return None
            return None

        def do_latch(i, timers):
            ev = log[i]
            t, old = ev[1], ev[3]
            tm = timers[t - 1]
            now = 1
            hd = None
            if old & 1 and tm[2] < I63:
                for j in range(i + 1, min(len(log), i + 400)):
                    if log[j][0] == E_HANDLER and log[j][1] == t and log[j][2] == ev[2]:
                        hd = log[j][3]; break
                    if log[j][0] == E_LATCH and log[j][1] == t:
                        break
                if hd is not None:
                    # the clock reading of _dispatch_source_timer_data is not recorded: the earliest reading that yields the
                    # count the handler was given (the timer's next state is compared at its next resume)
                    q = hd - (old >> 1) - 1
                    now = tm[2] + q * (tm[4] if tm[4] < I63 else 0) if q >= 0 else max(1, tm[2] - 1)
                else:
                    ta = next_resume_target(i, t)
                    if ta is not None and ta != tm[2]:
                        now = tm[2] if ta >= T63 else max(tm[2], ta - 1)
                    else:
                        now = max(1, tm[2] - 1)
            if hd is not None and old & 1 and tm[2] < I63:
                # the reading _dispatch_source_timer_data made lies between the cached reading of the pass that fired the
                # timer and the handler's own reading of the same clock; the count must be one that a reading in that
                # bracket produces
                hrec = next((log[j] for j in range(i + 1, min(len(log), i + 400)) if log[j][0] == E_HANDLER and log[j][1] == t and log[j][2] == ev[2]), None)
                hi = hrec[4 + tm[1]] if hrec is not None and 0 <= tm[1] < 3 and len(hrec) > 4 + tm[1] else None
                lo = last_fire_now.get(t, 0)
                q = hd - (old >> 1) - 1
                report["handler_brackets"] = report.get("handler_brackets", 0) + 1
                if hi:
                    if q < 0:
                        okb = lo < tm[2]
                    elif tm[4] < I63:
                        okb = tm[2] + q * tm[4] <= hi and tm[2] + (q + 1) * tm[4] - 1 >= lo
                    else:
                        okb = q == 0 and hi >= tm[2]
                    if not okb:
                        probs.append({"key": "trace:handler-data", "what": "handler of timer %d got data %d (accumulated %d, target %d, interval %d): no clock reading between the firing pass (%d) and the handler (%d) gives that count"
                                      % (t, hd, old >> 1, tm[2], tm[4], lo, hi)})
            pred = src_check(t, min(now, T63 - 1), 0, "_dispatch_source_latch_and_call", skip=bool(tm[8]))
            r = d.send("l %d %d" % (t, min(now, T63 - 1)), True)
            src_compare(t, pred, "_dispatch_source_latch_and_call")
            consumed.add(i)
            report["latch"] = report.get("latch", 0) + 1
            # the handler invoked right after reports this count
            for j in range(i + 1, min(len(log), i + 400)):
                if log[j][0] == E_HANDLER and log[j][1] == t and log[j][2] == ev[2]:
                    if log[j][3] != r[0]:
                        probs.append({"key": "trace:handler-data", "what": "handler of timer %d got data %d, the model's latch gives %d" % (t, log[j][3], r[0])})
                    break
                if log[j][0] == E_LATCH and log[j][1] == t:
                    break

        def try_floating():
            if not floating:
                return
            _, _, timers = state()
            for i in list(floating):
                if timers[log[i][1] - 1][5] == log[i][3]:
                    floating.remove(i)
                    do_latch(i, timers)

        i = 0
        n = len(log)
        while i < n:
            ev = log[i]
            k, t = ev[0], ev[1]
            if i in consumed:
                i += 1
                continue
            if k == E_CREATE:
                d.send("t %d %d" % (t, ev[3])); known.add(t)
            elif k == E_SETTIMER:
                issue_settimer(i)
            elif k == E_REGISTER:
                if t not in known:
                    d.send("t %d %d" % (t, ev[3])); known.add(t)
                    if ev[3] & 0x40:
                        if not (1 <= ev[4] < U64):
                            probs.append({"key": "trace:guardV-after", "what": "dispatch_after timer with target %d" % ev[4]})
                        d.send("a %d %d %d" % (t, ev[4], ev[5]))
                        report["after"] = report.get("after", 0) + 1
                # a set_timer whose xchg is logged later but whose configuration is already visible here
                armed, hascfg, pend = unpack_e(ev[7])
                _, _, timers = state()
                if hascfg and not timers[t - 1][8]:
                    for j in range(i + 1, min(n, i + 200)):
                        if log[j][0] == E_SETTIMER and log[j][1] == t and j not in consumed:
                            issue_settimer(j); break
                d.send("g %d" % t)
                report["register"] = report.get("register", 0) + 1
            elif k == E_CONFIGURE:
                if ev[4]:
                    thread_check(ev, "_dispatch_timer_unote_configure of an armed timer")
                _, _, timers = state()
                ptr = ev[3]
                for j in range(i + 1, min(n, i + 200)):
                    if log[j][0] == E_CXCHG and log[j][1] == t and log[j][2] == ev[2]:
                        ptr = log[j][3]; break      # the configuration the xchg really took
                if not timers[t - 1][8]:
                    # the allocator reuses configuration addresses: only the next not yet replayed set_timer can be meant
                    for j in range(i + 1, min(n, i + 3000)):
                        if log[j][0] == E_SETTIMER and log[j][1] == t and j not in consumed:
                            if log[j][3] == ptr:
                                issue_settimer(j)
                            break
                    _, _, timers = state()
                if not timers[t - 1][8]:
                    if False:
                        pass
                    else:
                        probs.append({"key": "trace:guard-configure", "what": "_dispatch_timer_unote_configure on timer %d without a pending configuration in the model" % t})
                csusp = None
                for j in range(i + 1, min(n, i + 50)):
                    if log[j][0] == E_SUSP and log[j][1] == t and log[j][2] == ev[2]:
                        csusp = log[j][3]; consumed.add(j); break
                    if log[j][2] == ev[2] and log[j][0] not in (E_CXCHG, E_SUSP):
                        break
                pred = src_check(t, 1, 0, "_dispatch_timer_unote_configure", skip=bool(csusp))
                if csusp is not None:
                    d.send("s %d %d" % (t, csusp))
                d.send("f %d" % t)
                src_compare(t, pred, "_dispatch_timer_unote_configure")
                report["configure"] = report.get("configure", 0) + 1
                try_floating()
            elif k == E_RESUME:
                thread_check(ev, "_dispatch_unote_resume")
                try_floating()
                susp = 0
                for j in range(i + 1, min(n, i + 50)):
                    if log[j][0] == E_SUSP and log[j][1] == t and log[j][2] == ev[2]:
                        susp = log[j][3]; consumed.add(j); break
                armed, hascfg, pend = unpack_e(ev[7])
                _, _, timers = state()
                tm = timers[t - 1]
                # the guard of the system theorems: no DISARMED marker pending at resume
                if tm[5] & 1 or pend & 1:
                    probs.append({"key": "trace:guard-resume", "what": "_dispatch_unote_resume of timer %d with ds_pending_data %d (model %d): the DISARMED marker is set" % (t, pend, tm[5])})
                # ... and the unote is registered (_du_state_needs_rearm): a dispatch_after timer that fired, or a
                # cancelled one, is never resumed again
                if tm[9] != 1:
                    probs.append({"key": "trace:guard-resume-registered", "what": "_dispatch_unote_resume of timer %d whose unote is not registered in the model (DU_STATE_UNREGISTERED after a one-shot fire or an unregister)" % t})
                # the rearm rule of _dispatch_source_invoke2 (Model/TimerRun.v invoke_step, last action): resume is issued for a
                # registered unote that is not armed, has a finite target and neither data nor a configuration pending.
                # A configuration that arrives between invoke2's configure test and its rearm test also makes
                # _dispatch_source_refs_needs_rearm true: that resume is counted, not flagged (it re-arms with the old values
                # and the set_timer's wakeup brings the configure)
                if tm[8] or hascfg:
                    report["resume_with_config_pending"] = report.get("resume_with_config_pending", 0) + 1
                elif not (tm[9] == 1 and tm[0] == 0 and tm[5] == 0 and tm[2] < (1 << 63) - 1):
                    probs.append({"key": "trace:rearm-rule", "what": "_dispatch_unote_resume of timer %d outside invoke2's rearm condition: model has registered %d armed %d pending %d target %d"
                                  % (t, tm[9], tm[0], tm[5], tm[2])})
                if (tm[0], tm[2], tm[3], tm[4]) != (armed, ev[4], ev[5], ev[6]) or (tm[5] != pend and not any(log[f][1] == t for f in floating)):
                    probs.append({"key": "trace:resume-state", "what": "at _dispatch_unote_resume timer %d is (armed %d target %d deadline %d interval %d pending %d), the model has (%d %d %d %d %d)"
                                  % (t, armed, ev[4], ev[5], ev[6], pend, tm[0], tm[2], tm[3], tm[4], tm[5])})
                d.send("s %d %d" % (t, susp))
                # invoke2 tests DISPATCH_QUEUE_IS_SUSPENDED before the call; a source suspended by then is not resumed by it, one
                # suspended during the call is (the reading inside _dispatch_timer_unote_needs_rearm): compared only if unsuspended
                pred = src_check(t, 1, 0, "_dispatch_unote_resume", skip=bool(tm[8] or hascfg or susp))
                d.send("r %d" % t)
                src_compare(t, pred, "_dispatch_unote_resume")
                report["resume"] = report.get("resume", 0) + 1
            elif k == E_UNREGISTER:
                armed, _, _ = unpack_e(ev[7])
                if armed:
                    thread_check(ev, "_dispatch_unote_unregister of an armed timer")
                _, _, timers = state()
                # (a suspended source is not invoked: its unregistration then comes from the disposal path, not from invoke2)
                pred = src_check(t, 1, 1, "_dispatch_unote_unregister", skip=False) if timers[t - 1][9] == 1 else None
                d.send("u %d" % t)
                src_compare(t, pred, "_dispatch_unote_unregister")
                report["unregister"] = report.get("unregister", 0) + 1
            elif k == E_DRAIN_BEGIN:
                thread_check(ev, "_dispatch_event_loop_drain_timers")
                j = i + 1
                flags, nows, susp, ploads, fires, calls, snaps, dirty = {}, {}, {}, {}, [], [], [], None
                racy = []
                taken = []
                while j < n and log[j][0] != E_DRAIN_END:
                    e2 = log[j]
                    if e2[2] == ev[2]:
                        if e2[0] == E_HEAPFLAGS: flags[e2[3]] = (e2[4], e2[5], e2[6])
                        elif e2[0] == E_NOW: nows.setdefault(e2[3], e2[4])
                        elif e2[0] == E_SUSP: susp.setdefault(e2[1], []).append(e2[3])
                        elif e2[0] == E_PLOAD: ploads.setdefault(e2[1], e2[3])
                        elif e2[0] == E_FIRE: fires.append((e2[1], e2[3]))
                        elif e2[0] == E_KARM: calls += [1, e2[3], e2[4], e2[5]]
                        elif e2[0] == E_KDEL: calls += [0, e2[3], 0, 0]
                        elif e2[0] == E_SNAP: snaps.append(e2)
                        elif e2[0] == E_CXCHG: taken.append((e2[1], e2[3]))
                        consumed.add(j)
                    elif e2[0] in (E_SETTIMER, E_LATCH) and j not in consumed:
                        racy.append(j)
                    j += 1
                if j < n:
                    dirty = log[j][3]; consumed.add(j)
                else:
                    # the record ends inside this pass (the dump was taken while the manager was in it): its fires / kernel
                    # calls / end marker are missing, so it is not compared; nothing follows it in the record
                    report["incomplete_tail_pass"] = report.get("incomplete_tail_pass", 0) + 1
                    break
                try_floating()
                # a configuration the manager took during this pass although set_timer's xchg is logged later
                if taken:
                    _, _, timers0 = state()
                    for (tt, ptr) in taken:
                        if timers0[tt - 1][8]:
                            continue          # the model already holds a pending configuration for this timer
                        for f in range(i, min(n, j + 400)):
                            if log[f][0] == E_SETTIMER and log[f][1] == tt and f not in consumed:
                                if log[f][3] == ptr:
                                    issue_settimer(f)
                                    if f in racy: racy.remove(f)
                                break
                mdirty, heaps, timers = state()
                # kernel expiry since the last pass (the manager ran _dispatch_event_merge_timer)
                for c in range(3):
                    if c in flags and flags[c][0] == 1 and flags[c][1] == 0 and heaps[c][2] == 1:
                        d.send("kx %d" % c, True)
                        report["expire"] = report.get("expire", 0) + 1
                mdirty, heaps, timers = state()
                for c in range(3):
                    if c in flags and (flags[c][0], flags[c][1], flags[c][2]) != (heaps[c][1], heaps[c][2], heaps[c][0]):
                        probs.append({"key": "trace:heap-flags", "what": "before a manager pass heap %d has (needs_program %d, armed %d, count %d), the model (%d, %d, %d)"
                                      % (c, flags[c][0], flags[c][1], flags[c][2], heaps[c][1], heaps[c][2], heaps[c][0])})
                # a latch that really preceded the manager's load of ds_pending_data
                for tt, v in ploads.items():
                    if v == 0 and timers[tt - 1][5] != 0:
                        for f in range(i, min(n, j + 400)):
                            if log[f][0] == E_LATCH and log[f][1] == tt and f not in consumed and log[f][3] == timers[tt - 1][5]:
                                if f in floating: floating.remove(f)
                                do_latch(f, timers)
                                if f in racy: racy.remove(f)
                                break
                unrepl = any(len(set(v)) > 1 for v in susp.values())
                for tt, v in susp.items():
                    d.send("s %d %d" % (tt, v[0]))
                w = d.send("W %d %d %d" % (nows.get(0, 1), nows.get(1, 1), nows.get(2, 1)), True)
                report["passes"] = report.get("passes", 0) + 1
                fin = w[0]
                k1 = w.index(-1)
                k2 = w.index(-1, k1 + 1)
                mev = [(w[x], w[x + 1]) for x in range(1, k1, 2)]
                mcalls = w[k1 + 1:k2]
                _, mheaps, mtimers = parse_obs(w[k2 + 2:], nt)
                report["fires"] = report.get("fires", 0) + len(fires)
                for (ft, _) in fires:
                    if 0 <= timers[ft - 1][1] < 3:
                        last_fire_now[ft] = nows.get(timers[ft - 1][1], 0)
                bad = None
                if fin != 1:
                    bad = "the model's pass ran out of fuel"
                elif mev != fires:
                    bad = "fired (timer, ds_pending_data) %s, the model %s" % (fires[:8], mev[:8])
                elif mcalls != calls:
                    bad = "kernel timer calls %s, the model %s" % (calls, mcalls)
                elif w[k2 + 1] != dirty:
                    bad = "dirty bits after the pass %s, the model %s" % (dirty, w[k2 + 1])
                else:
                    for sn in snaps:
                        armed, hascfg, pend = unpack_e(sn[7])
                        mt = mtimers[sn[1] - 1]
                        if armed != mt[0] or (armed and (sn[4], sn[5]) != (mt[2], mt[3])):
                            bad = "after the pass timer %d is armed=%d target %d deadline %d, the model armed=%d target %d deadline %d" % (sn[1], armed, sn[4], sn[5], mt[0], mt[2], mt[3])
                            break
                if bad:
                    if racy or unrepl:
                        report["racy_passes"] = report.get("racy_passes", 0) + 1
                        report["aborted"] = "a set_timer / latch of another thread raced with a manager pass (event %d): replay stopped there" % i
                        return probs
                    probs.append({"key": "trace:pass", "what": "manager pass (event %d, clocks %s): %s" % (i, nows, bad)})
                    return probs
            elif k == E_CXCHG:
                pass
            elif k == E_LATCH:
                _, _, timers = state()
                if timers[t - 1][5] == ev[3]:
                    do_latch(i, timers)
                else:
                    floating.append(i)
            i += 1
        try_floating()
        if floating and not report.get("incomplete_tail_pass"):
            probs.append({"key": "trace:latch", "what": "%d latch events (first: timer %d took ds_pending_data %d) never matched the model's ds_pending_data" % (len(floating), log[floating[0]][1], log[floating[0]][3])})
        report["model_commands"] = d.ncmd
    finally:
        d.close()
    return probs


if __name__ == "__main__":
    import sys
    log = []
    for l in open(sys.argv[2]):
        a = l.split()
        if a and a[0].isdigit():
            log.append(tuple(int(x) for x in a))
    rep = {}
    p = replay(sys.argv[1], log, rep)
    print(rep)
    for x in p[:10]:
        print(x)
