"""C03 — lane property: word-level mechanism theorems over Gen_dqstate (+ site lists) and the stress oracle."""
import lanes
import lanewords
from props import c03_hlane

PROPERTIES_FILE = "Properties/Properties_C03.v"
COQ_DEPS = ["Proofs/Lane_iface.vo"] + ["Model/LaneWords.vo"] + list(c03_hlane.COQ_DEPS)
EXTRA_PROPERTIES_FILES = [c03_hlane.PROPERTIES_FILE]
GEN_MODULES = ["Gen_dqstate", "Gen_lanesites", "Gen_once"]
LEVEL = "proof"
TRUSTED = [
    "PARTIAL: the theorems are about the dq_state transition bodies / atomic site lists translated from the source on every run "
    "(all 2^64 words) in the first properties file; protocol theorems over all interleavings in the extra properties files of this check; what is outside those models is decided "
    "on the implementation by the stress oracle reported in this evidence (exploration, not proof)",
    "src2v translator (clang AST -> Gallina), validated on the functions that have differential harnesses (C06, C12, C18)",
]
TRUSTED += ["word-transition conformance (lib/lanewords.py, Model/LaneWords.v): every dq_state compare-and-swap attempt, single atomic "
            "operation and give-up recorded in the stress runs is judged against the generated Gen_dqstate body of its source line "
            "(parameter domains of lib/lanewords.py param_domain are trusted); it ties Gen_dqstate to the running code, it does not judge the property"]
TRUSTED += ["hierarchy protocol part (Properties_C03_hlane.v): " + t for t in c03_hlane.TRUSTED]
ASSUMPTIONS = ["the stress oracle explores the schedules the OS and the perturbation hook produce; absence of a failure there is not a proof"]


def correspond(ctx):
    return lanes.merge([lanes.run_part("lanes", lambda c: lanes.run(c, "C03"), ctx),
                        lanes.run_part("words", lambda c: lanewords.run(c, "C03"), ctx),
                        lanes.run_part("hlane", c03_hlane.correspond, ctx)])


def replay(ctx, obj):
    return lanes.replay_parts(ctx, obj, {"lanes": lanes.replay, "words": lanewords.replay, "hlane": c03_hlane.replay})
