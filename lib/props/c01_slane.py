"""Serial-lane protocol conformance (C01 / C02): ties the hand-written parts of coq/Model/SLane.v (list steps, order of the
atomic sites inside each function, the root queue as a counter) to the running library.

harness/c02_slane.c floods one serial queue per round with dispatch_async_f from 1..8 threads under schedule perturbation and
records, per thread and in program order, every atomic operation the DISPATCH_VERIF hook reports on the lane object, on the
root-queue array and (pointer-sized loads/stores only) anywhere else.  This module

  1. normalises each thread's recording of a round into events on (object address, Gen_fields field number): the lane's
     dq_state / dq_items_tail / dq_items_head / do_targetq / do_next, the do_next of ITEMS (recognised by value: an address is
     an item iff it was exchanged into the lane's dq_items_tail during the round), the tail exchange and link store of the
     push of the lane on its target root queue;
  2. replays every such trace through SLaneT.tstep INSIDE Coq (SLaneT.conform: index of the first rejected event, idle at the
     end, and how often each branch of the automaton fired);
  3. rebuilds the exact global order of the successful dq_state transitions (old -> new chain, respecting each thread's program
     order) and of the operations on dq_items_tail (every exchange returns the previous tail) and judges the run against what
     SLane's invariant predicts and an observer can see: callouts in tail-exchange order (FIFO), never overlapping, only inside a
     drain-lock interval of the dq_state chain, every submitted item run exactly once when the lane went idle, dq_state and
     dq_items_tail back at their idle values, ENQUEUED set exactly once per root-queue push and taken exactly once per lock, every
     value of the word free or drain-locked in the shape of SLane_proofs.ginv_r;
  4. replays every round as a run of the GLOBAL model: SLaneR.abstract (Coq) reads the SLane actions off each accepted thread
     trace, this module orders them by the recorder's stamps made consistent with the two exact chains, and SLaneR.sched (Coq)
     executes them on SLane.begin / SLane.gstep, taking at each point the first thread (within a window of the preferred order)
     whose next action is enabled in the model AND has the recorded outcome (was_empty, probe result, lock restart, every dq_state
     value written, pop of last / more, item identity).  The round is reproduced iff every action is consumed and the model ends
     idle with the recorded dq_state, an empty list and all items started in order.  This inclusion is established by RUNNING the
     scheduler (a test); the theorem C01_slanet_replay_reach says only that the scheduler takes steps of SLane (begin / gstep /
     ostep), i.e. that its end state is reachable, which holds for any action list.  (ostep = the need_override continuation of
     a push onto a non-empty list, found missing from the model by this check and added since.)
  5. about one round in five is NESTED: some work items submit to their own queue from inside the callout.  SLane is a flat-client
     model (no call from inside a callout), so these rounds are flagged, kept out of 2 and 4, and judged by 3 only.

correspond(ctx) returns the usual dict; lib/props/c01.py and c02.py add it as one more part of lanes.merge([...])."""
import json
import os
import re

import common
import conc
import driver

COQ_DEPS = ["Proofs/SLaneT_proofs.vo", "Proofs/SLaneR_proofs.vo"]
PROPERTIES_FILE = "Properties/Properties_C01_slanet.v"
GEN_MODULES = ["Gen_dqstate", "Gen_lanesites", "Gen_fields"]
LEVEL = "proof"
TRUSTED = [
    "Model/SLaneT.v (hand-written observation automaton) is tied to the source by C01_slanet_sites_match (kinds, fields, memory "
    "orders, call order of the atomic sites of the functions involved, regenerated on every run) and to the running library by the "
    "in-Coq replay of every recorded thread trace; it is tied to Model/SLane.v by C01_slanet_gstep_tstep / _ostep_tstep / _reach_tstep "
    "(SLane's per-thread behaviours are accepted by the automaton) and, in the other direction, only by TESTING: every recorded flat "
    "round is executed on SLane.begin/gstep/ostep by the scheduler Model/SLaneR.v; that each action was enabled in the model with the "
    "recorded outcome is established by running that executable scheduler and this driver, not by a theorem: C01_slanet_replay_reach "
    "says only that whatever the scheduler does ends in a reachable state of SLane (true for any action list)",
    "FLAT CLIENT: Model/SLane.v (and so SLaneT / SLaneR) has no call from inside a callout: SLane.begin needs an idle thread "
    "(SLane.v:93-103), so a work item that submits to its own queue (drainer = pusher) is outside the model and outside every "
    "SLane theorem's 'all interleavings'. The harness exercises that client in about one round out of five; those rounds are judged on "
    "the library by the API oracle and the dq_state / dq_items_tail value chains only (FIFO, exactly once, no overlap), and are kept "
    "out of the trace conformance and the global replay",
    "the global replay orders the actions with the recorder's stamps (a global ticket taken right after each operation) corrected by the "
    "exact value chains of dq_state and dq_items_tail; a wrong order can only make the replay fail, never succeed wrongly: the "
    "scheduler checks every action against the model",
    "normalisation of the recordings (lib/props/c01_slane.py): offsets -> Gen_fields numbers, items recognised by value (addresses "
    "exchanged into dq_items_tail during the round), root-queue internals / reference counts / dq_atomic_flags dropped, runs of "
    "identical NULL spin loads compressed to one, callout marks joined with the item address through the harness ticket",
    "plain (non-atomic) reads of the source are not observable: dq_items_tail in _dispatch_lane_drain, dq_state_bits in "
    "_dispatch_queue_need_override; the automaton accepts both continuations there",
    "the DISPATCH_VERIF hook reports each os_atomic_* operation with the values it saw (src/shims/atomic.h)",
]
ASSUMPTIONS = ["a worker enters _dispatch_queue_drain_try_lock with QoS floor 0 (no HAVE_PTHREAD_WORKQUEUE_QOS on this build); a different "
               "floor would make the replay of the first try_lock iteration fail",
               "dispatch_async_f carries no QoS on this build (push qos 0); the harness reports the wakeup qos it derives from dq_priority "
               "with the library's own inline functions and the automaton checks it through every wakeup compare-exchange"]
IMPORTS = ["Word", "Conc", "Gen_consts", "Gen_fields", "Gen_dqstate", "SLane", "SLaneT"]
M64 = (1 << 64) - 1
OWNER_MASK = 0x3fffffff
FIELDS = ("dq_state", "dq_items_head", "dq_items_tail", "do_next", "do_targetq")
TAGS = {1: "push_was_empty", 2: "push_not_empty", 3: "push_not_empty_no_wakeup", 4: "push_not_empty_override_wakeup",
        5: "probe_saw_empty", 6: "probe_saw_items", 7: "wakeup_cas_failed", 8: "wakeup_enq_set", 9: "wakeup_enq_not_set",
        10: "wakeup_gave_up", 11: "rootpush_root_empty", 12: "rootpush_root_not_empty", 13: "drain_begin",
        14: "root_worker_reads_lane_next", 15: "lock_restart_qos_override", 16: "lock_cas_failed", 17: "lock_refused",
        18: "locked", 19: "drain_entry_list_empty", 20: "head_not_published", 21: "wait_for_enqueuer_head_spin",
        22: "after_last_item_list_empty", 23: "after_last_item_new_items", 24: "pop_more_items", 25: "pop_last_item",
        26: "pop_last_raced_push", 27: "pop_next_not_linked", 28: "wait_for_enqueuer_next_spin", 29: "unlocked",
        30: "unlock_cas_failed", 31: "unlock_refused_dirty_xor", 32: "override_wakeup_enq_set", 33: "override_wakeup_enq_not_set"}
# Branches of the automaton every stress run must reach (each is taken dozens to thousands of times in the quick tier; a run that
# misses one is not a test of the protocol, so it is reported as a broken tie).  The remaining branches are listed in
# distribution["branches_never_taken"] and in the notes when absent:
#   5 probe_saw_empty, 7/16/30 failed compare-exchanges, 20/21/27/28 lagging enqueuer: reached in most runs (5..100 times), scheduler-dependent
#   10/32/33 outcomes of the need_override wakeup (SLane.ostep, PA_oprobe, PA_owake)
#   12/14 need a second object in the same root queue; 17 is unreachable for pure dispatch_async (SLane: ENQUEUED is never set while
#   the lane is locked, so a worker never finds it locked)
REQUIRED = [1, 2, 3, 6, 8, 9, 11, 13, 15, 18, 19, 22, 23, 24, 25, 26, 29, 31]
OVERRIDE_TAGS = [4, 10, 32, 33]
REPLAY_ATTEMPTS = [(True, 0), (False, 1), (True, 1), (False, 2), (True, 3), (False, 4), (True, 5)]


def field_numbers():
    txt = open(os.path.join(common.gen_dir(), "Gen_fields.v")).read()
    out = {}
    for f in FIELDS + ("ptr",):
        m = re.search(r"Definition F_%s : nat := (\d+)\." % f, txt)
        if not m:
            raise RuntimeError("Gen_fields.v has no field " + f)
        out[f] = int(m.group(1))
    return out


_EXE = {}
HARNESS_TIMEOUT = 300


def harness_exe():
    """build once per process, under a lock: C01 and C02 may run at the same time and both link .cache/bin/c02_slane"""
    if "exe" not in _EXE:
        with common.Lock("bin_c02_slane"):
            exe, msg = common.build_harness("c02_slane", ["c02_slane.c"], whitebox=True, extra=["-I" + common.VERIF + "/harness"])
        if exe is None:
            raise RuntimeError("harness build failed: " + msg)
        _EXE["exe"] = exe
    return _EXE["exe"]


def run_harness(seed, rounds, permille, scale=1):
    """returns (stdout, None) or (stdout so far, description of how the stress client died).  A wall-clock expiry alone is
    never reported: the run is repeated once with ten times the limit (the harness's own watchdog is progress-based)."""
    exe = harness_exe()
    cmd = [exe, str(seed), str(rounds), str(permille), str(scale)]
    r = common.run(cmd, timeout=HARNESS_TIMEOUT)
    if r.returncode == 124:
        common.log("c01_slane: harness run %s exceeded %d s (load?): repeating it alone with %d s" % (cmd[1:], HARNESS_TIMEOUT, 10 * HARNESS_TIMEOUT))
        r = common.run(cmd, timeout=10 * HARNESS_TIMEOUT)
    if r.returncode != 0:
        return r.stdout or "", "rc=%s %s" % (r.returncode, (r.stderr or "")[-300:])
    return r.stdout, None


class NEv:
    """normalised event"""
    __slots__ = ("kind", "order", "obj", "fld", "a", "b", "ok", "seq", "line", "thr", "rep", "ticket")

    def __init__(self, kind, order, obj, fld, a, b, ok, seq, line, thr):
        self.kind, self.order, self.obj, self.fld, self.a, self.b, self.ok = kind, order, obj, fld, a, b, ok
        self.seq, self.line, self.thr, self.rep, self.ticket = seq, line, thr, 1, None

    def coq(self):
        return "mkEv %d %d %d %d 8 %d %d %d" % (self.kind, self.order, self.obj, self.fld, self.a, self.b, self.ok)

    def brief(self, names):
        return "%s.%s(%s %x->%x ok=%d L%d)%s" % (names.get(self.obj, "%x" % self.obj), self.fld if self.kind < 32 else "",
                                                conc.KIND_NAMES.get(self.kind, str(self.kind)), self.a, self.b, self.ok, self.line,
                                                "x%d" % self.rep if self.rep > 1 else "")


class Round:
    pass


def parse(text):
    other, per = conc.parse_dump(text)
    O = [l.split() for l in other if l.startswith("O ")]
    if not O:
        raise RuntimeError("no layout line in the dump")
    o = [int(x) for x in O[0][1:]]
    lay = {"lane_size": o[0], "state": o[1], "tail": o[2], "head": o[3], "next": o[4], "ref": o[5], "aflags": o[6],
           "root_size": o[7], "nroots": o[8], "roots": o[9], "ENQ": o[10], "DIRTY": o[11], "ANON": o[12], "targetq": o[13]}
    rounds, complete = [], None
    for l in other:
        f = l.split()
        if f[0] == "X":
            complete = (int(f[1]), int(f[2]))
        if f[0] != "R":
            continue
        r = Round()
        (r.idx, r.lane, r.kind, r.nthreads, r.nitems, r.wq, r.prio, r.st0, r.st1, r.seq0, r.seq1, r.ran, r.maxrun, r.order_err,
         r.idle, r.root) = [int(x) for x in f[1:17]]
        r.nested = int(f[17]) if len(f) > 17 else 0
        rounds.append(r)
    lay["complete"] = complete
    lay["events_in_dump"] = sum(len(v) for v in per.values())
    return lay, rounds, per


def normalise(lay, fn, rd, per):
    """per-thread normalised traces of one round + the ticket -> item join; returns (traces {thr: [NEv]}, info)"""
    lane = rd.lane
    raw = {}
    for thr, evs in per.items():
        sel = [e for e in evs if rd.seq0 <= e.seq < rd.seq1]
        if sel:
            raw[thr] = sel
    items, rootprev = set(), set()
    for evs in raw.values():
        for e in evs:
            if e.obj == rd.idx and e.kind == 3 and e.off == lay["tail"]:
                items.add(e.b)
            if e.obj == 900 and e.kind == 3 and e.off % lay["root_size"] == lay["tail"] and e.b == lane and e.a:
                rootprev.add(e.a)
    lane_fld = {lay["state"]: fn["dq_state"], lay["tail"]: fn["dq_items_tail"], lay["head"]: fn["dq_items_head"],
                lay["next"]: fn["do_next"], lay["targetq"]: fn["do_targetq"]}
    info = {"dropped_lane_other_fields": 0, "dropped_root_internal": 0, "dropped_untracked": 0, "spin_loads_compressed": 0}
    ticket_item, out = {}, {}
    for thr, evs in raw.items():
        tr, cur_ticket = [], None
        for e in evs:
            ne = None
            if e.kind >= 100:
                if e.obj != rd.idx:
                    continue
                if e.kind == 100:
                    cur_ticket = e.b
                    ne = NEv(100, 0, 0, 0, e.a & 255, e.a >> 8, 1, e.seq, 0, thr)
                    ne.ticket = e.b
                elif e.kind == 101:
                    cur_ticket = None
                    ne = NEv(101, 0, 0, 0, 0, 0, 1, e.seq, 0, thr)
                else:
                    ne = NEv(e.kind, 0, 0, 0, 0, 0, 1, e.seq, 0, thr)
                    ne.ticket = e.a
            elif e.obj == rd.idx:
                f = lane_fld.get(e.off)
                if f is None or e.size != 8:
                    info["dropped_lane_other_fields"] += 1
                    continue
                ne = NEv(e.kind, e.order, lane, f, e.a, e.b, e.ok & 1, e.seq, e.line, thr)
                if e.kind == 3 and e.off == lay["tail"] and cur_ticket is not None:
                    ticket_item[cur_ticket] = e.b
                    ne.ticket = cur_ticket
            elif e.obj == 900:
                idx, off = divmod(e.off, lay["root_size"])
                robj = lay["roots"] + idx * lay["root_size"]
                if e.kind == 3 and off == lay["tail"] and e.b == lane:
                    ne = NEv(e.kind, e.order, robj, fn["dq_items_tail"], e.a, e.b, 1, e.seq, e.line, thr)
                elif e.kind == 2 and off == lay["head"] and e.b == lane:
                    ne = NEv(e.kind, e.order, robj, fn["dq_items_head"], e.a, e.b, 1, e.seq, e.line, thr)
                else:
                    info["dropped_root_internal"] += 1
                    continue
            elif e.obj == -1:
                it = e.off - lay["next"]
                if it in items or it in rootprev:
                    ne = NEv(e.kind, e.order, it, fn["do_next"], e.a, e.b, e.ok & 1, e.seq, e.line, thr)
                else:
                    info["dropped_untracked"] += 1
                    continue
            else:
                continue
            # _dispatch_wait_for_enqueuer: a run of identical relaxed loads of NULL is one self-loop of the automaton
            if (tr and ne.kind == 1 and ne.order == 0 and ne.a == 0 and tr[-1].kind == 1 and tr[-1].order == 0 and tr[-1].a == 0
                    and tr[-1].obj == ne.obj and tr[-1].fld == ne.fld):
                tr[-1].rep += 1
                info["spin_loads_compressed"] += 1
                continue
            tr.append(ne)
        if tr:
            out[thr] = tr
    # join: the callout marks carry the harness ticket; the automaton wants the address of the item that runs
    unjoined = 0
    for tr in out.values():
        for ne in tr:
            if ne.kind in (102, 103):
                if ne.ticket in ticket_item:
                    ne.a = ticket_item[ne.ticket]
                else:
                    unjoined += 1
    info["callouts_without_submission_record"] = unjoined
    return out, ticket_item, info, raw


# ----------------------------------------------------------------------------------------------------------------------
# exact chains

def chain(events, start, old_of, new_of, thr_of, seq_of, limit=200000):
    """order `events` so that old(e_k) = new(e_{k-1}) (old(e_0) = start), keeping every thread's program order (the input
    lists events of one thread in program order); depth-first with the recorder's ticket as the preference.
    returns (ordered list or None, value reached)"""
    byth = {}
    for e in events:
        byth.setdefault(thr_of(e), []).append(e)
    pos = {t: 0 for t in byth}
    order, cur, steps = [], start, 0
    stack = []     # (candidates list, next index to try, saved cur)
    n = len(events)
    while len(order) < n:
        cands = sorted([byth[t][pos[t]] for t in byth if pos[t] < len(byth[t]) and old_of(byth[t][pos[t]]) == cur], key=seq_of)
        stack.append([cands, 0, cur])
        while True:
            steps += 1
            if steps > limit or not stack:
                return None, cur
            top = stack[-1]
            if top[1] < len(top[0]):
                e = top[0][top[1]]
                top[1] += 1
                order.append(e)
                pos[thr_of(e)] += 1
                cur = new_of(e)
                break
            stack.pop()
            if not order:
                return None, cur
            e = order.pop()
            pos[thr_of(e)] -= 1
            cur = stack[-1][2] if stack else start
    return order, cur


def state_effect(e):
    if e.kind == 5:
        return e.b
    if e.kind == 10:
        return e.a ^ e.b
    if e.kind == 6:
        return (e.a + e.b) & M64
    if e.kind == 7:
        return (e.a - e.b) & M64
    if e.kind == 8:
        return e.a & e.b
    if e.kind == 9:
        return e.a | e.b
    return e.b


def abstract_replay(lay, fn, rd, traces, ticket_item, label):
    """returns (failures, stats)"""
    fails, st = [], {}
    F_ST, F_TL = fn["dq_state"], fn["dq_items_tail"]
    lane = rd.lane

    def fail(key, what):
        fails.append({"key": "slane:%s:round%d:%s" % (label, rd.idx, key), "what": what + " (round %d: %d threads, %d items, queue kind %d)"
                      % (rd.idx, rd.nthreads, rd.nitems, rd.kind), "label": label, "round": rd.idx})

    # harness-side counters (API-level oracle)
    if rd.ran != rd.nitems or not rd.idle:
        fail("stranded", "only %d of %d submitted items had run when the harness stopped waiting (lane idle: %d)" % (rd.ran, rd.nitems, rd.idle))
    if rd.maxrun > 1:
        fail("overlap", "%d work items of one serial queue were running at the same time" % rd.maxrun)
    if rd.order_err:
        fail("order", "%d items ran before an item the same thread had submitted earlier" % rd.order_err)
    allev = [e for tr in traces.values() for e in tr]
    # (a) the dq_state word: every state change of the run, in its exact order
    sw = [e for e in allev if e.obj == lane and e.fld == F_ST and ((e.kind == 5 and e.ok) or e.kind in (6, 7, 8, 9, 10))]
    order, endv = chain(sw, rd.st0, lambda e: e.a, state_effect, lambda e: e.thr, lambda e: e.seq)
    st["state_transitions"] = len(sw)
    if order is None:
        fail("state-chain", "the recorded successful dq_state operations do not form one old->new chain from the initial value")
        return fails, st
    if endv != rd.st1:
        fail("state-final", "the dq_state chain ends at %#x but the word holds %#x" % (endv, rd.st1))
    # (b) the tail word
    tw = [e for e in allev if e.obj == lane and e.fld == F_TL and (e.kind == 3 or (e.kind == 4 and e.ok))]
    torder, tend = chain(tw, 0, lambda e: e.a, lambda e: e.b, lambda e: e.thr, lambda e: e.seq)
    st["tail_operations"] = len(tw)
    if torder is None:
        fail("tail-chain", "the exchanges / resets of dq_items_tail do not form one chain from NULL")
        return fails, st
    if tend != 0:
        fail("tail-final", "dq_items_tail is %#x, not NULL, when the lane is idle" % tend)
    # (c) predictions of SLane's invariant an observer can see
    xorder = [e for e in torder if e.kind == 3]
    submitted = [e.ticket for e in xorder]
    begins = sorted([e for e in allev if e.kind == 102], key=lambda e: e.seq)
    ends = sorted([e for e in allev if e.kind == 103], key=lambda e: e.seq)
    ran_tickets = [e.ticket for e in begins]
    st["callouts"] = len(begins)
    if len(xorder) != rd.nitems:
        fail("submissions", "%d tail exchanges recorded for %d submissions" % (len(xorder), rd.nitems))
    if sorted(ran_tickets) != sorted(set(ran_tickets)):
        fail("twice", "a work item ran more than once: tickets %s" % sorted(t for t in set(ran_tickets) if ran_tickets.count(t) > 1)[:5])
    if None not in submitted:
        if ran_tickets != submitted[:len(ran_tickets)]:
            k = next((i for i, (a, b) in enumerate(zip(ran_tickets, submitted)) if a != b), min(len(ran_tickets), len(submitted)))
            fail("fifo", "callout #%d ran ticket %s but the %d-th tail exchange enqueued ticket %s: items did not run in "
                         "tail-exchange order" % (k, ran_tickets[k] if k < len(ran_tickets) else None, k,
                                                  submitted[k] if k < len(submitted) else None))
        if len(ran_tickets) != len(submitted):
            fail("not-all-ran", "%d items were enqueued but %d ran by the time the lane was idle" % (len(submitted), len(ran_tickets)))
    # callouts never overlap and sit inside one drain-lock interval of the dq_state chain
    be = sorted(begins + ends, key=lambda e: e.seq)
    depth = 0
    for e in be:
        depth += 1 if e.kind == 102 else -1
        if depth > 1 or depth < 0:
            fail("overlap-stamps", "callout marks overlap: a callout began before the previous one ended (stamp %d)" % e.seq)
            break
    # every value the word takes has the shape SLane's invariant gives it (SLane_proofs.ginv_r: g_tr g_em g_pb g_hi g_role g_lock):
    # no sync-transfer / manager / pending-barrier / suspend bits, role 0 or 1, and either free (no owner, not in barrier,
    # width field 4095) or held (owner = a thread, in barrier, width field 4096 = full)
    def fields(v):
        return {"owner": v & OWNER_MASK, "tr": (v >> 30) & 1, "enq": (v >> 31) & 1, "mq": (v >> 32) & 7, "ov": (v >> 35) & 1,
                "role": (v >> 36) & 3, "em": (v >> 38) & 1, "d": (v >> 39) & 1, "pb": (v >> 40) & 1, "wq": (v >> 41) & 8191,
                "ib": (v >> 54) & 1, "hi": v >> 55}
    for v in [rd.st0] + [state_effect(e) for e in order]:
        f = fields(v)
        okv = (f["tr"] == 0 and f["em"] == 0 and f["pb"] == 0 and f["hi"] == 0 and f["role"] < 2 and
               ((f["owner"] == 0 and f["ib"] == 0 and f["wq"] == 4095) or (f["owner"] != 0 and f["ib"] == 1 and f["wq"] == 4096)))
        if not okv:
            fail("state-shape", "dq_state took the value %#x, which is neither a free nor a drain-locked serial lane word (%s)" % (v, f))
            break
    st["state_values_checked"] = len(order) + 1
    # lock intervals: a transition that sets the owner bits opens one (by that thread), the one that clears them closes it
    locks, owner, enq_sets, enq_clears = [], None, 0, 0
    for e in order:
        old, new = e.a, state_effect(e)
        if not (old & lay["ENQ"]) and (new & lay["ENQ"]):
            enq_sets += 1
        if (old & lay["ENQ"]) and not (new & lay["ENQ"]):
            enq_clears += 1
        if not (old & OWNER_MASK) and (new & OWNER_MASK):
            owner = (e.thr, e.seq, new & OWNER_MASK)
        elif (old & OWNER_MASK) and not (new & OWNER_MASK):
            if owner is None or owner[0] != e.thr:
                fail("unlock-by-other", "the drain lock was released by a thread that did not take it")
            else:
                locks.append((owner[0], owner[1], e.seq))
            owner = None
        elif (old & OWNER_MASK) != (new & OWNER_MASK):
            fail("owner-change", "the owner bits changed from %#x to %#x without an unlock" % (old & OWNER_MASK, new & OWNER_MASK))
    st["lock_intervals"] = len(locks)
    st["enqueued_set"], st["enqueued_cleared"] = enq_sets, enq_clears
    rootpushes = sum(1 for e in allev if e.kind == 3 and e.obj != lane and e.fld == F_TL and e.b == lane)
    st["root_pushes"] = rootpushes
    if enq_sets != rootpushes:
        fail("token", "ENQUEUED was set %d times but the lane was pushed on its root queue %d times" % (enq_sets, rootpushes))
    if enq_sets != enq_clears:
        fail("token-left", "ENQUEUED was set %d times and cleared %d times in a run that ended idle" % (enq_sets, enq_clears))
    for b in begins:
        if not any(t == b.thr and lo < b.seq < hi for (t, lo, hi) in locks):
            fail("callout-unlocked", "a callout began (stamp %d) outside any drain-lock interval of its thread" % b.seq)
            break
    return fails, st


# ----------------------------------------------------------------------------------------------------------------------
# Coq replay

class _TimedOut(Exception):
    pass


def _coq_eval(name, imports, body, timeout, nvals):
    """one coqc evaluation; file name carries the caller's tag and this process id (concurrent checks share .cache/cases).
    Raises _TimedOut on a wall-clock expiry (the caller repeats that unit alone with ten times the limit) and RuntimeError on
    any other failure (non-zero exit, missing output): never a silent pass."""
    ok, vals, raw = driver.coq_eval("%s_p%d" % (name, os.getpid()), imports, body, timeout=timeout)
    if not ok and "TIMEOUT after" in raw:
        raise _TimedOut(name)
    if not ok or len(vals) != nvals:
        raise RuntimeError("coq evaluation %s failed (exit ok=%s, %d of %d values): %s" % (name, ok, len(vals), nvals, raw[-2000:]))
    return vals


def _pool(one, chunks, timeout, workers):
    """run one(chunk, timeout) over the chunks in parallel; a chunk that hit the wall-clock limit is repeated once, alone, with
    ten times the limit; results in chunk order"""
    from concurrent.futures import ThreadPoolExecutor

    def guarded(c):
        try:
            return one(c, timeout)
        except _TimedOut:
            return _TimedOut
    with ThreadPoolExecutor(max_workers=workers) as ex:
        res = list(ex.map(guarded, chunks))
    for i, r in enumerate(res):
        if r is _TimedOut:
            common.log("c01_slane: a Coq evaluation exceeded %d s (load?): repeating it alone with %d s" % (timeout, 10 * timeout))
            try:
                res[i] = one(chunks[i], 10 * timeout)
            except _TimedOut:
                raise RuntimeError("coq evaluation still running after %d s when run alone" % (10 * timeout))
    return res


def _intern_writer():
    nums, combos = {}, {}

    def z(x):
        if 0 <= x < 256:
            return str(x)
        if x < 0:
            return "(%d)" % x
        if x not in nums:
            nums[x] = "k%d" % len(nums)
        return nums[x]

    def ev(e):
        key = (e.kind, e.order, e.fld)
        if key not in combos:
            combos[key] = "e%d_%d_%d" % key
        return "%s %s %s %s %d" % (combos[key], z(e.obj), z(e.a), z(e.b), e.ok)

    def header():
        body = ["Definition %s : Z := %d." % (nm, x) for x, nm in nums.items()]
        body += ["Definition %s (obj a b ok : Z) := mkEv %d %d obj %d 8 a b ok." % (nm, k[0], k[1], k[2]) for k, nm in combos.items()]
        return body
    return z, ev, header


def coq_conform(name, jobs, chunk_events=12000, timeout=900, workers=4, abstract=False):
    """jobs: list of (self, dq, rq, floor, [NEv]); returns list of int lists [idx, idle, counts...] (and, with abstract=True, for
    each job the list of SLane actions SLaneR.abstract reads off the trace: [event index, kind, arg, shape, st, item, early]).
    Big numerals are defined once per file and the (kind, order, field) triples get constructor shortcuts: Coq spends its time
    interpreting numerals, not running the automaton."""
    chunks, i = [], 0
    while i < len(jobs):
        part, n = [], 0
        while i < len(jobs) and (not part or n + len(jobs[i][4]) <= chunk_events):
            part.append(jobs[i])
            n += len(jobs[i][4])
            i += 1
        chunks.append((i, part))

    def one(arg, tmo):
        ci, part = arg
        z, ev, header = _intern_writer()
        rows = ["({| c_self := %s; c_dq := %s; c_rq := %s; c_floor := %d |}, [%s])" % (
            z(sv), z(dq), z(rq), fl, "; ".join(ev(e) for e in tr)) for (sv, dq, rq, fl, tr) in part]
        body = header()
        body.append("Definition jobs : list (cfg * list event) := [")
        body.append(";\n".join(rows))
        body.append("].")
        body.append("Eval vm_compute in map (fun '(c, tr) => conform c tr) jobs.")
        if abstract:
            body.append("Eval vm_compute in map (fun '(c, tr) => abstract c tr) jobs.")
        vals = _coq_eval("%s_%d" % (name, ci), IMPORTS + (["SLaneR"] if abstract else []), "\n".join(body) + "\n", tmo,
                         2 if abstract else 1)
        got = [driver.ints(r) for r in re.findall(r"\[([^\[\]]*)\]", vals[0])]
        if len(got) != len(part) or any(len(g) < 3 for g in got):
            raise RuntimeError("coq conformance: %d results for %d traces: %s" % (len(got), len(part), vals[0][:500]))
        if not abstract:
            return [(g, None) for g in got]
        ab = [driver.ints(r) for r in re.findall(r"\[([^\[\]]*)\]", vals[1])]
        if len(ab) != len(part):
            raise RuntimeError("coq abstraction: %d results for %d traces" % (len(ab), len(part)))
        res = []
        for g, a, job in zip(got, ab, part):
            tr, rows = job[4], []
            for k in range(0, len(a) - 1, 2):
                i, cde = a[k:k + 2]
                cde, has_st = divmod(cde, 2)
                cde, early = divmod(cde, 2)
                cde, sh = divmod(cde, 32)
                kind, arg = divmod(cde, 8)
                item = 0
                if kind == 2 and sh in (2, 3):
                    item = tr[i].b                      # the tail exchange: the item is the value exchanged in
                elif kind == 2 and sh in (13, 14):
                    item = tr[i].a                      # the callout mark carries the item's address
                rows.append([i, kind, arg, sh, state_effect(tr[i]) if has_st else -1, item, early])
            for k, r in enumerate(rows):                # a pop is followed by the callout of the item it took
                if r[1] == 2 and r[3] in (11, 12) and k + 1 < len(rows):
                    r[5] = rows[k + 1][5]
            res.append((g, rows))
        return res
    out = []
    for got in _pool(one, chunks, timeout, workers):
        out += got
    if len(out) != len(jobs):
        raise RuntimeError("coq conformance: %d results for %d traces" % (len(out), len(jobs)))
    return out


# ----------------------------------------------------------------------------------------------------------------------
# global replay: the whole round as a run of SLane (SLaneR.sched)

def build_schedule(rd, lay, fn, threads, alt=False, mode=0):
    """threads: list of (tid, [NEv], abstraction rows).  Returns (queues {tid: [(kind,arg,sh,st,item,early,id)]}, order [tid],
    number of SLane.ostep actions, i.e. need_override continuations) or None when the exact chains cannot be built."""
    lane, F_ST, F_TL = rd.lane, fn["dq_state"], fn["dq_items_tail"]
    allev = [e for (_, tr, _) in threads for e in tr]
    sw = [e for e in allev if e.obj == lane and e.fld == F_ST and ((e.kind == 5 and e.ok) or e.kind in (6, 7, 8, 9, 10))]
    order, _ = chain(sw, rd.st0, lambda e: e.a, state_effect, lambda e: e.thr, lambda e: e.seq)
    tw = [e for e in allev if e.obj == lane and e.fld == F_TL and (e.kind == 3 or (e.kind == 4 and e.ok))]
    torder, _ = chain(tw, 0, lambda e: e.a, lambda e: e.b, lambda e: e.thr, lambda e: e.seq)
    if order is None or torder is None:
        return None
    acts = []          # [anchor, tid, thread-local index, row, event]
    per_thread = {}
    for (tid, tr, rows) in threads:
        prev = None
        for k, row in enumerate(rows):
            i, kind, arg, sh, stv, item, early = row
            ev = tr[i]
            anchor = float(ev.seq)
            if mode:
                # the operation happened after the thread's previous stamp and before its own: mode 1 takes the earliest
                # moment, modes >= 2 a pseudo-random one in between (deterministic in mode, thread, index)
                lo = float(tr[i - 1].seq) if i > 0 else float(rd.seq0)
                if mode == 1:
                    anchor = lo + 0.5
                else:
                    h = (mode * 0x9E3779B97F4A7C15 + tid * 0xBF58476D1CE4E5B9 + i * 0x94D049BB133111EB) & 0xFFFFFFFFFFFFFFFF
                    h ^= h >> 31
                    anchor = lo + (anchor - lo) * (((h * 0x2545F4914F6CDD1D) & 0xFFFFFFFF) / 4294967296.0 + 1e-3)
            if early and prev is not None:
                anchor = prev[0]
            a = [anchor, tid, k, row, ev]
            acts.append(a)
            per_thread.setdefault(tid, []).append(a)
            prev = a
    # the actions that write dq_state / operate on the tail sit on exact chains: make the anchors respect them and each
    # thread's program order (longest-path relaxation; the stamps are already almost right)
    by_ev = {}
    for a in acts:
        by_ev.setdefault(id(a[4]), []).append(a)
    chains = []
    for evs in (order, torder):
        seqs = []
        for e in evs:
            for a in by_ev.get(id(e), []):
                row = a[3]
                if (evs is order and row[4] != -1) or (evs is torder and (row[1] == 2 and row[3] in (2, 3, 11))):
                    seqs.append(a)
        chains.append(seqs)
    eps = 1e-4
    for _ in range(400):
        changed = False
        for lst in list(per_thread.values()) + chains:
            for x, y in zip(lst, lst[1:]):
                if y[0] <= x[0]:
                    y[0] = x[0] + eps
                    changed = True
        if not changed:
            break
    # A probe that read NULL (PA_probe / PA_oprobe -> Idle) happened between the reset that emptied the list and the next
    # exchange, whatever its (late) stamp says: put it right after the last reset stamped before it that follows the thread's own
    # exchange (`alt`: right after the FIRST such reset).  Without this a push stamped a few tickets earlier is executed first
    # and the probe's recorded outcome is lost for good.
    tchain = chains[1]
    pos_in_chain = {id(a): k for k, a in enumerate(tchain)}
    for tid, lst in per_thread.items():
        last_x = None
        for a in lst:
            row, ev = a[3], a[4]
            if row[1] == 2 and row[3] in (2, 3):
                last_x = a
            if row[1] == 2 and row[3] == 0 and ev.kind == 1 and ev.fld == F_TL and ev.obj == lane and ev.a == 0 and last_x is not None:
                j = pos_in_chain.get(id(last_x))
                if j is None:
                    continue
                resets = [c for c in tchain[j + 1:] if c[4].kind == 4]
                cands = [c for c in resets if c[0] < a[0]]
                pickc = (cands[0] if alt else cands[-1]) if cands else (resets[0] if resets else None)
                if pickc is not None:
                    a[0] = pickc[0] + eps / 4
    acts.sort(key=lambda a: (a[0], a[1], a[2]))
    # item identity is checked inside the scheduler BY ADDRESS (SLaneR.item_ok); no id is computed here: an id derived from the
    # tail chain would depend on how the recorder's stamps resolve the chain's ambiguities (two pushes onto an empty list
    # drained in different lock sessions chain either way)
    ids = {}
    queues, outside = {}, 0
    for tid, lst in per_thread.items():
        q = []
        for a in lst:
            i, kind, arg, sh, stv, item, early = a[3]
            if kind == 6:
                outside += 1
            q.append((kind, arg, sh, stv, item, early, ids.get((a[1], a[2]), -1)))
        queues[tid] = q
    return queues, [a[1] for a in acts], outside


def coq_replay(name, rounds, window=48, timeout=900, workers=4, chunk_actions=9000):
    """rounds: list of (rb, queues, order); returns the int lists of SLaneR.replay, one per round"""
    chunks, i = [], 0
    while i < len(rounds):
        part, n = [], 0
        while i < len(rounds) and (not part or n + len(rounds[i][2]) <= chunk_actions):
            part.append(rounds[i])
            n += len(rounds[i][2])
            i += 1
        chunks.append((i, part))

    def one(arg, tmo):
        ci, part = arg
        z, _, header = _intern_writer()
        defs, calls, short = [], [], {}

        def act(tid, a):
            (kd, ar, sh, stv, item, early, ix) = a
            key = (kd, ar, sh, early, stv == -1, item == 0, ix == -1)
            if key not in short:
                nm = "a%d" % len(short)
                args = ["t"] + ([] if key[4] else ["v"]) + ([] if key[5] else ["it"]) + ([] if key[6] else ["i"])
                short[key] = (nm, "Definition %s (%s : Z) : sact := {| s_tid := t; s_act := MA %d %s %d %s %s %d; s_id := %s |}." % (
                    nm, " ".join(args), kd, z(ar), sh, "(-1)" if key[4] else "v", "0" if key[5] else "it", early,
                    "(-1)" if key[6] else "i"))
            nm = short[key][0]
            return " ".join([nm, z(tid)] + ([] if key[4] else [z(stv)]) + ([] if key[5] else [z(item)]) + ([] if key[6] else [z(ix)]))
        for k, (rb, queues, order) in enumerate(part):
            qs = ["(%s, [%s])" % (z(tid), "; ".join(act(tid, a) for a in q)) for tid, q in queues.items()]
            defs.append("Definition qs%d : list (Z * list sact) := [%s]." % (k, ";\n".join(qs)))
            defs.append("Definition ord%d : list Z := [%s]." % (k, "; ".join(z(t) for t in order)))
            calls.append("replay %d %d qs%d ord%d" % (rb, window, k, k))
        body = header()
        body += [d for (_, d) in short.values()]
        body += defs
        body.append("Eval vm_compute in [%s]." % "; ".join(calls))
        vals = _coq_eval("%s_%d" % (name, ci), IMPORTS + ["SLaneR"], "\n".join(body) + "\n", tmo, 1)
        got = [driver.ints(r) for r in re.findall(r"\[([^\[\]]*)\]", vals[0])]
        if len(got) != len(part) or any(len(g) < 10 for g in got):
            raise RuntimeError("coq replay: %d results for %d rounds" % (len(got), len(part)))
        return got
    out = []
    for got in _pool(one, chunks, timeout, workers):
        out += got
    if len(out) != len(rounds):
        raise RuntimeError("coq replay: %d results for %d rounds" % (len(out), len(rounds)))
    return out


def plan_for(tier, seed):
    if tier == "quick":
        base = [(0, 30, 1), (200, 30, 1), (400, 30, 1), (200, 12, 3)]
    else:
        base = [(pm, 40, sc) for pm in (0, 200, 400) for sc in (1, 1, 3)] + [(300, 40, 2), (100, 40, 1), (400, 20, 4)]
    return [[seed * 1000 + i, pm, rounds, scale] for i, (pm, rounds, scale) in enumerate(base)]


def label_of(entry):
    return "seed%d:pm%d:r%d:s%d" % tuple(entry)


def judge(plan, tag, fn):
    """execute the harness runs of `plan` ([[seed, permille, rounds, scale]]) against the current build and judge them: API oracle and
    abstract replay on every round, trace conformance and global replay on the flat rounds.  Every failure / mismatch carries
    `rerun` = the plan entries that reproduce it with the same parameters.  Returns a dict."""
    fails, mism, jobs, meta, dist = [], [], [], [], {}
    info_tot, st_tot, kinds, shapes, rinfo, samples = {}, {}, {}, set(), {}, []
    cnt = {"runs": 0, "rounds": 0, "rounds_requested": 0, "flat_rounds": 0, "nested_rounds": 0, "items": 0, "nested_round_items": 0,
           "events_in_dumps": 0}

    def mm(what, detail, entries):
        d = dict(detail)
        d["rerun"] = [list(e) for e in entries]
        mism.append({"what": what, "detail": d, "rerun": d["rerun"]})
    for entry in plan:
        seed, pm, rounds, scale = entry
        label = label_of(entry)
        cnt["runs"] += 1
        cnt["rounds_requested"] += rounds
        text, died = run_harness(seed, rounds, pm, scale)
        if died:
            fails.append({"key": "slane:%s:crash" % label, "what": "the stress client died or hung in run %s: %s" % (label, died),
                          "label": label, "rerun": [list(entry)]})
            if not text.startswith("O "):
                continue
        try:
            lay, rds, per = parse(text)
        except Exception as ex:                          # truncated / empty output
            mm("the stress client's output cannot be parsed (empty or truncated dump)", {"run": label, "error": str(ex)[:300]}, [entry])
            continue
        cnt["events_in_dumps"] += lay["events_in_dump"]
        stranded = any(not rd.idle for rd in rds)
        if not died and (lay["complete"] is None or lay["complete"] != (len(rds), lay["events_in_dump"])):
            mm("the recorder dump is incomplete (no end mark, or the end mark disagrees with the rounds / events received)",
               {"run": label, "end_mark": lay["complete"], "rounds_seen": len(rds), "events_seen": lay["events_in_dump"]}, [entry])
        if len(rds) != rounds and not stranded and not died:
            mm("the stress client produced fewer rounds than requested without reporting why",
               {"run": label, "rounds_requested": rounds, "rounds_seen": len(rds)}, [entry])
        for rd in rds:
            traces, ticket_item, info, raw = normalise(lay, fn, rd, per)
            cnt["rounds"] += 1
            cnt["items"] += rd.nitems
            kinds["queue_kind_%d" % rd.kind] = kinds.get("queue_kind_%d" % rd.kind, 0) + 1
            kinds["threads_%d" % rd.nthreads] = kinds.get("threads_%d" % rd.nthreads, 0) + 1
            for k, v in info.items():
                info_tot[k] = info_tot.get(k, 0) + v
            f, st = abstract_replay(lay, fn, rd, traces, ticket_item, label)
            for x in f:
                x["rerun"] = [list(entry)]
                x["nested"] = rd.nested
            fails += f
            for k, v in st.items():
                st_tot[k] = st_tot.get(k, 0) + v
            if rd.st0 != (4095 << 41) + lay["ANON"] and rd.st0 != (4095 << 41):
                mm("a fresh serial queue's dq_state is not SLane.init_state", {"run": label, "st0": rd.st0, "round": rd.idx}, [entry])
            if rd.nested:
                # items of this round submit to their own queue from inside the callout: outside the flat client of SLane
                # (SLane.begin needs an Idle thread); oracle and chain checks above only
                cnt["nested_rounds"] += 1
                cnt["nested_round_items"] += rd.nitems
                continue
            cnt["flat_rounds"] += 1
            rq = lay["roots"] + rd.root * lay["root_size"] if rd.root >= 0 else 0
            rinfo[(label, rd.idx)] = (rd, lay, entry)
            for thr, tr in sorted(traces.items()):
                tid = raw[thr][0].tid & OWNER_MASK
                jobs.append((tid, rd.lane, rq, 0, tr))
                meta.append((label, rd.idx, thr, entry))
    res = coq_conform(tag + "_conf", jobs, abstract=True) if jobs else []
    accepted = {}
    for (row, rows), job, m in zip(res, jobs, meta):
        idx, idle, tagcnt = row[0], row[1], row[2:]
        accepted.setdefault((m[0], m[1]), []).append((idx == -1 and idle == 1, job[0], job[4], rows))
        for t, c in enumerate(tagcnt):
            if c and t in TAGS:
                dist[TAGS[t]] = dist.get(TAGS[t], 0) + c
        shapes.add(tuple(1 if c else 0 for c in tagcnt))
        if idx != -1 or idle != 1:
            names = {job[1]: "lane", job[2]: "root"}
            tr = job[4]
            lo = max(0, (idx if idx >= 0 else len(tr)) - 12)
            mm("a recorded thread trace of the library is not accepted by the serial-lane thread automaton (SLaneT.tstep): the "
               "implementation took a step, a memory order or wrote a dq_state value the model does not have",
               {"run": m[0], "round": m[1], "thread": m[2], "self": job[0], "rejected_at": idx, "ended_idle": idle, "events": len(tr),
                "around": [e.brief(names) for e in tr[lo:lo + 16]]}, [m[3]])
    # the whole round as a run of the global model
    rp = {"rounds_replayed_as_SLane_runs": 0, "override_continuations_replayed": 0, "model_actions_replayed": 0,
          "rounds_not_replayed_trace_rejected": 0}
    todo, tkeys, tths = [], [], []
    for key, ths in sorted(accepted.items()):
        rd, lay, entry = rinfo[key]
        if not all(a for (a, _, _, _) in ths):
            rp["rounds_not_replayed_trace_rejected"] += 1          # the rejection itself is already a mismatch
            continue
        sch = build_schedule(rd, lay, fn, [(tid, tr, rows) for (_, tid, tr, rows) in ths])
        if sch is None:
            mm("a recorded round could not be put in order for the global replay (its dq_state / dq_items_tail operations do not chain)",
               {"run": key[0], "round": key[1]}, [entry])
            continue
        queues, order, outside = sch
        todo.append(((rd.st0 >> 36) & 3, queues, order))
        tkeys.append((key, outside, len(order)))
        tths.append([(tid, tr, rows) for (_, tid, tr, rows) in ths])
    results = coq_replay(tag + "_replay", todo) if todo else []
    # The preferred order comes from the recorder's stamps, which a preempted thread takes late (an operation happened somewhere
    # between its thread's previous stamp and its own): under machine load the first-fit scheduler can be led into a dead end by
    # a wrong priority.  A round it does not consume is replayed again, alone, with every thread a candidate at every step
    # (window = whole order) under other placements of the operations inside those intervals (REPLAY_ATTEMPTS); only the last
    # verdict is reported.  A wrong order can only make the replay fail, never succeed wrongly: the scheduler checks every
    # action against the model.
    again = [k for k, r in enumerate(results) if r[1] != 0]
    if again:
        rp["rounds_replayed_on_a_later_attempt"] = 0
        rp["replay_attempts_extra"] = 0
        for k in again:
            rd, lay, entry = rinfo[tkeys[k][0]]
            for (alt, mode) in REPLAY_ATTEMPTS:
                q2, o2, _ = build_schedule(rd, lay, fn, tths[k], alt=alt, mode=mode)
                rp["replay_attempts_extra"] += 1
                r = coq_replay("%s_replay2_%d" % (tag, mode), [(todo[k][0], q2, o2)], window=1000000, workers=1)[0]
                if r[1] == 0:
                    rp["rounds_replayed_on_a_later_attempt"] += 1
                    results[k] = r
                    break
    for (key, outside, nact), r in zip(tkeys, results):
        rd, lay, entry = rinfo[key]
        done, left, stv, rootq, llen, nextid, idle, nstarted, fifo, stuck = r[:10]
        good = (left == 0 and stv == rd.st1 and rootq == 0 and llen == 0 and nextid == rd.nitems and idle == 1 and
                nstarted == rd.nitems and fifo == 1)
        if good:
            rp["rounds_replayed_as_SLane_runs"] += 1
            rp["override_continuations_replayed"] += outside
            rp["model_actions_replayed"] += nact
        else:
            mm("a recorded round is not reproduced as a run of the global model SLane (SLaneR.sched: every thread's actions in an "
               "order compatible with the recording, each enabled in the model with the recorded outcome)",
               {"run": key[0], "round": key[1], "actions": nact, "executed": done, "left": left, "stuck_thread": stuck,
                "model_dq_state": stv, "recorded_final_dq_state": rd.st1, "rootq": rootq, "list_length": llen, "nextid": nextid,
                "items": rd.nitems, "all_idle": idle, "started": nstarted, "fifo": fifo, "override_continuations": outside}, [entry])
    for job in jobs[:2] + [j for j in jobs if any(e.kind == 10 for e in j[4])][:1]:
        names = {job[1]: "lane", job[2]: "root"}
        samples.append({"self": job[0], "trace": [e.brief(names) for e in job[4][:60]]})
    cnt["thread_traces"] = len(jobs)
    cnt["events_replayed_in_coq"] = sum(len(j[4]) for j in jobs)
    return {"fails": fails, "mism": mism, "dist": dist, "cnt": cnt, "kinds": kinds, "info": info_tot, "st": st_tot, "rp": rp,
            "shapes": shapes, "samples": samples}


def correspond(ctx, tag="c01_slane"):
    fn = field_numbers()
    plan = plan_for(ctx.tier, ctx.seed)
    try:
        j = judge(plan, tag, fn)
    except RuntimeError as ex:          # a Coq evaluation or the harness build failed: a broken tie, with what to re-run
        return {"evaluations": 0, "distinct_nontrivial": 0, "rule": "", "samples": [], "distribution": {},
                "mismatches": [{"what": "the serial-lane conformance could not be evaluated", "detail": {"error": str(ex)[-2500:],
                                "rerun": plan}, "rerun": plan}], "failures": []}
    fails, mism, dist, cnt, rp = j["fails"], j["mism"], j["dist"], j["cnt"], j["rp"]
    # floors: what was actually measured (not what was requested)
    if cnt["flat_rounds"] == 0 or cnt["thread_traces"] == 0 or cnt["events_replayed_in_coq"] == 0:
        mism.append({"what": "the serial-lane conformance recorded nothing (no round / no thread trace / no event): hook compiled out, "
                             "empty dump or every run lost", "detail": {"counts": cnt, "rerun": plan}, "rerun": plan})
    if rp["rounds_replayed_as_SLane_runs"] + rp["rounds_not_replayed_trace_rejected"] < cnt["flat_rounds"] and not any(
            "global model" in m["what"] or "put in order" in m["what"] for m in mism):
        mism.append({"what": "some flat rounds were neither replayed on the global model nor reported", "detail": {"counts": cnt,
                     "replay": rp, "rerun": plan}, "rerun": plan})
    never = [TAGS[t] for t in REQUIRED if not dist.get(TAGS[t])]
    for b in never:
        mism.append({"what": "branch of the serial-lane automaton never exercised by the stress runs", "detail": {"branch": b, "rerun": plan},
                     "rerun": plan})
    notes = []
    absent = [TAGS[t] for t in sorted(TAGS) if not dist.get(TAGS[t])]
    if absent:
        notes.append("branches of SLaneT.tstep not taken in this run: " + ", ".join(absent))
    notes.append("need_override continuation of a push onto a non-empty list (_dispatch_lane_push queue.c:5077-5088, SLane.ostep / "
                 "PA_oprobe / PA_owake): %s" % {TAGS[t]: dist.get(TAGS[t], 0) for t in OVERRIDE_TAGS})
    notes.append("%d rounds (%d items) had work items submitting to their own queue from inside the callout: Model/SLane.v is a flat-client "
                 "model (SLane.begin needs an idle thread), so those rounds are judged by the API oracle and the value chains only, not by "
                 "the automaton / the global replay" % (cnt["nested_rounds"], cnt["nested_round_items"]))
    dist_all = dict(dist)
    dist_all.update(cnt)
    dist_all.update(j["kinds"])
    dist_all.update(j["info"])
    dist_all.update(j["st"])
    dist_all.update(rp)
    dist_all["branches_never_taken"] = absent
    return {"evaluations": cnt["thread_traces"], "distinct_nontrivial": len(j["shapes"]),
            "rule": "rounds of one serial queue (default target / explicit global queue at 6 priorities / QoS attribute) flooded with "
                    "dispatch_async_f from 1..8 threads, submitters pausing so that pushes meet an empty list, a draining list and an "
                    "unlocking drainer, schedule perturbation 0/20/40 % inside the library's atomic operations. On EVERY round: API oracle "
                    "(each item once, no overlap, per-submitter order) and the exact value chains of dq_state / dq_items_tail judged "
                    "against SLane's observable predictions (FIFO in tail-exchange order, callouts inside a lock interval, ENQUEUED set once "
                    "per root push and cleared once per lock, every word value free or drain-locked, all items ran once when idle). On the "
                    "FLAT rounds (about 4 of 5; in the others some items re-submit to their own queue from inside the callout, which the "
                    "flat-client model SLane does not cover): every per-thread recording (lane words, item do_next by value, root-queue push) "
                    "is replayed through SLaneT.tstep inside Coq (each dq_state compare-exchange must write what the generated body computes "
                    "from the value read), and the round is replayed on SLane.begin/gstep/ostep by the executable scheduler SLaneR.sched "
                    "(each action must be enabled in the model with the recorded outcome; final model state = recorded final state): that "
                    "trace inclusion is established by running the scheduler, not by a theorem (C01_slanet_replay_reach only says its end "
                    "state is reachable). evaluations = thread traces actually replayed; distinct = distinct sets of automaton branches",
            "samples": j["samples"], "distribution": dist_all, "traces_validated_against_impl": cnt["thread_traces"], "notes": notes,
            "mismatches": mism[:20], "failures": fails[:20]}


def replay(ctx, obj):
    """re-execute the recorded runs (same seed, perturbation, round count, scale) against the current build and judge them again.
    1: something is still wrong in those runs; 0: does not reproduce; 2: nothing in the file can be re-executed."""
    entries, others, seen = [], [], set()

    def take(x):
        for e in (x.get("rerun") or []):
            if tuple(e) not in seen and len(e) == 4:
                seen.add(tuple(e))
                entries.append([int(v) for v in e])
        return bool(x.get("rerun"))
    for f in obj.get("failures", []):
        if str(f.get("key", "")).startswith("slane:") or f.get("part") == "slane":
            print("recorded failure:", f.get("what"))
            if not take(f):
                m = re.match(r"seed(\d+):pm(\d+):r(\d+):s(\d+)", str(f.get("label", "")))
                if m:
                    take({"rerun": [[int(v) for v in m.groups()]]})
                else:
                    others.append(f.get("what"))
    for b in obj.get("broken", []):
        d = b.get("detail") if isinstance(b, dict) else None
        if isinstance(d, dict) and (d.get("rerun") or (isinstance(d.get("detail"), dict) and d["detail"].get("rerun"))):
            print("recorded broken tie:", d.get("what"))
            take(d if d.get("rerun") else d["detail"])
        else:
            others.append(b)
    for o in others:
        print("no longer checked (not re-executable from this file; only a full ./check re-establishes it):", str(o)[:600])
    if not entries:
        print("nothing in this file can be re-executed by the serial-lane conformance")
        return 2
    fn = field_numbers()
    try:
        j = judge(entries, "replay_slane", fn)
    except RuntimeError as ex:
        print("re-execution failed:", str(ex)[-1500:])
        return 2
    bad = 0
    for f in j["fails"][:10]:
        print("REPRODUCES (failure):", f["what"])
        bad += 1
    for m in j["mism"][:10]:
        print("REPRODUCES (broken tie):", m["what"], json.dumps(m["detail"], default=str)[:700])
        bad += 1
    # recorded 'branch never exercised' / 'recorded nothing' entries are judged on the re-executed plan as well
    rec = [b.get("detail", {}).get("detail", {}) for b in obj.get("broken", []) if isinstance(b, dict) and isinstance(b.get("detail"), dict)]
    for d in rec:
        br = d.get("branch") if isinstance(d, dict) else None
        if br and not j["dist"].get(br):
            print("REPRODUCES (broken tie): branch still never exercised:", br)
            bad += 1
    if j["cnt"]["rounds"] == 0:
        print("REPRODUCES: the re-executed runs recorded nothing")
        bad += 1
    print("re-executed %d run(s): %d rounds, %d thread traces, %d rounds replayed on SLane" % (
        j["cnt"]["runs"], j["cnt"]["rounds"], j["cnt"]["thread_traces"], j["rp"]["rounds_replayed_as_SLane_runs"]))
    if bad:
        return 1
    print("does not reproduce")
    return 0
