"""C18, clause "a created queue reports its label, QoS class, relative priority, concurrency and initial activity", for every
attribute of the table and every kind of target (NULL by both entry points, each global root queue, a serial lane, a concurrent
lane, a workloop, the main queue).  Model: coq/Model/Create.v (hand-written, on the dq_priority / dq_state / dq_atomic_flags
words).  Harness: harness/c18_create.c.  Called from props/c18.py: correspond_create(ctx) returns the same dict shape as correspond().
Per case Coq compares the library's line (a) with Create.create_line (all words: the tie -> `mismatches`) and (b) with
Create.spec_line (label / class / relpri / target / width / inactive / autorelease in terms of the attribute's components: the
property -> `failures`)."""
import concurrent.futures
import os
import threading

import common
import driver

ATTR_COUNT_FACTORS = (3, 3, 7, 16, 2, 2)     # overcommit, autorelease, qos, relpri, concurrency, inactive (init.c / Attr.v radices)
TK_NAME = {0: "dispatch_queue_create(label, attr)", 1: "create_with_target(NULL)", 2: "create_with_target(global root queue)",
           3: "create_with_target(serial queue)", 4: "create_with_target(concurrent queue)", 5: "create_with_target(workloop)",
           6: "create_with_target(main queue)"}
TGT_TERM = {0: "TNull", 1: "TNull", 3: "TLane 1", 4: "TLane 2", 5: "TLane 3", 6: "TLane 200"}
MODEL_CONSTS = [255, 3840, 8, 4095, 61440, 12, 2147483648, 67108864, 1073741824, 536870912, 4096, 41, 72057594037927936,
                36028797018963968, 68719476736, 65536, 131072, 2097152, 4194304]


def overcommit_of(a, count):
    """overcommit component of a table index (most significant radix digit); only used to decide which creations are run in a
    forked child because they may crash (a wrong guess makes the harness process die, which is reported)"""
    if a < 0:
        return 0
    return a // (count // 3)


def tgt_term(tk, targ):
    return "TRoot %d" % targ if tk == 2 else TGT_TERM[tk]


def run_harness(exe, cases, forks):
    """returns (consts, roots, obs list aligned with cases) or an error string.  A run that hit the wall-clock limit is repeated
    once with 10x the limit before anything is reported"""
    lines = ["C"] + ["N %d %d %d %d" % (a, tk, targ, fk) for (a, tk, targ), fk in zip(cases, forks)]
    inp = "\n".join(lines) + "\n"
    r = common.run([exe], input=inp, timeout=900)
    if r.returncode == 124:
        r = common.run([exe], input=inp, timeout=9000)
    out = [l.split() for l in r.stdout.split("\n") if l.strip()]
    if r.returncode != 0 or len(out) != len(cases) + 2 or out[0][0] != "C" or out[1][0] != "R":
        return "creation harness did not complete: rc=%s, %d lines for %d cases; %s" % (r.returncode, len(out), len(cases), (r.stderr or "")[-600:])
    obs = []
    for (a, tk, targ), t in zip(cases, out[2:]):
        v = list(map(int, t))
        if v[:3] != [a, tk, targ]:
            return "creation harness output out of step at case %s: %s" % ((a, tk, targ), t)
        obs.append(v[3:])
    return list(map(int, out[0][1:])), list(map(int, out[1][1:])), obs


def describe(case, o):
    a, tk, targ = case
    desc = "%s, attribute index %d%s: status %s" % (TK_NAME[tk], a, " root %d" % targ if tk == 2 else "", o[0])
    if len(o) >= 12:
        desc += (", label equal %d copied %d, class %d relpri %d, target %d, width %d, inactive %d, autorelease bits %d, "
                 "dq_state %d, flags %d, dq_priority %d" % tuple(o[1:12]))
    return desc


def evaluate(cases, consts, roots, obs):
    """compare inside Coq.  Returns (mismatches, failures) or raises RuntimeError(text) when the model could not be evaluated"""
    mism, fails = [], []
    if consts[:19] != MODEL_CONSTS:
        mism.append({"what": "priority / state / flag constants differ from this file's copy of Model/Create.v", "detail": {"library": consts[:19], "props": MODEL_CONSTS}})
    if len(obs) != len(cases):
        raise RuntimeError("%d observations for %d cases" % (len(obs), len(cases)))
    chunk = 2500
    chunks = [list(range(i, min(i + chunk, len(cases)))) for i in range(0, len(cases), chunk)]

    def eval_chunk(ci):
        body = []
        if ci == 0:
            body.append("Eval vm_compute in (priority_consts, root_priorities).")
        rows = []
        for i in chunks[ci]:
            a, tk, targ = cases[i]
            rows.append("((%s), %s, %s, %s)" % ("(%d)" % a if a < 0 else a, tgt_term(tk, targ), "true" if tk == 0 else "false", driver.zlist(obs[i])))
        body.append("Definition cs : list (Z * tgt * bool * list Z) := [%s]." % ";\n".join(rows))
        body.append("Eval vm_compute in map (fun '(a, t, lg, o) => b2z (zlist_eqb' (create_line 1 a t lg) o)) cs.")
        # the property-level judge: status, label equal, label copied, then the six reports
        body.append("Eval vm_compute in map (fun '(a, t, lg, o) => b2z (match spec_line a t, o with "
                    "| [4], [4] => true "
                    "| 0 :: r, 0 :: le :: lc :: cls :: rp :: tg :: w :: ia :: ar :: _ => (le =? 1) && (lc =? 1) && zlist_eqb' r [cls; rp; tg; w; ia; ar] "
                    "| _, _ => false end)) cs.")
        name = "c18_create_cases_%d_p%d" % (ci, os.getpid())
        ok, vals, raw = driver.coq_eval(name, ["Word", "Gen_qos", "Attr", "Create"], "\n".join(body) + "\n", timeout=1200)
        if not ok and "TIMEOUT" in raw:      # load: once more, alone, 10x
            with ISOLATED:
                ok, vals, raw = driver.coq_eval(name, ["Word", "Gen_qos", "Attr", "Create"], "\n".join(body) + "\n", timeout=12000)
        for ext in (".v", ".vo", ".vok", ".vos", ".glob"):
            try:
                os.remove(os.path.join(common.CACHE, "cases", name + ext))
            except OSError:
                pass
        return ok, vals, raw
    with concurrent.futures.ThreadPoolExecutor(max_workers=4) as ex:
        evs = list(ex.map(eval_chunk, range(len(chunks))))
    for ci, (ok, vals, raw) in enumerate(evs):
        want = 3 if ci == 0 else 2
        if not ok or len(vals) != want:
            raise RuntimeError("coqc, c18_create_cases_%d: %s" % (ci, raw[-2000:]))
        if ci == 0:
            mc = driver.ints(vals[0])
            # what Model/Create.v really contains (evaluated by Coq) against the library's values and against this file's copy
            if mc[:19] != consts[:19] or mc[:19] != MODEL_CONSTS:
                mism.append({"what": "constants of Model/Create.v (evaluated) differ from the library's / this file's copy",
                             "detail": {"model_evaluated": mc[:19], "library": consts[:19], "props": MODEL_CONSTS}})
            if mc[19:] != roots or len(roots) != 12:
                mism.append({"what": "root queue priorities differ from Model/Create.v root_priority", "detail": {"library": roots, "model": mc[19:]}})
            vals = vals[1:]
        tie, judge = driver.ints(vals[0]), driver.ints(vals[1])
        if len(tie) != len(chunks[ci]) or len(judge) != len(chunks[ci]):
            raise RuntimeError("c18_create_cases_%d: %d / %d answers for %d cases" % (ci, len(tie), len(judge), len(chunks[ci])))
        for j, i in enumerate(chunks[ci]):
            o = obs[i]
            desc = describe(cases[i], o)
            if judge[j] != 1:
                fails.append({"key": "create/%s" % ("refusal" if o == [4] or len(o) < 9 else "report"),
                              "what": "a queue created by " + desc + " — not what the attribute and target denote (Create.spec_report)",
                              "create": list(cases[i]), "observed": o})
            if tie[j] != 1:
                mism.append({"what": "created queue: library and Model/Create.v differ", "detail": desc, "create": list(cases[i])})
    return mism, fails


ISOLATED = threading.Lock()


def correspond_create(ctx):
    exe, msg = common.build_harness("c18_create", ["c18_create.c"], whitebox=True)
    if exe is None:
        return {"mismatches": [{"what": "harness build failed (c18_create)", "detail": msg}], "failures": [], "evaluations": 0}
    rng = ctx.rng
    count = 1
    for f in ATTR_COUNT_FACTORS:
        count *= f
    cases = []
    for a in range(-1, count):
        cases.append((a, 0, 0))
        for _ in range(2 if ctx.tier == "quick" else 6):
            tk = rng.range(1, 6)
            cases.append((a, tk, rng.below(12) if tk == 2 else 0))
    grid = [rng.range(-1, count - 1) for _ in range(120 if ctx.tier == "quick" else 1000)]
    for a in grid:
        for tk in (1, 3, 4, 5, 6):
            cases.append((a, tk, 0))
        for r in range(12):
            cases.append((a, 2, r))
    forks = [1 if (tk >= 3 and overcommit_of(a, count) != 0) or rng.chance(1, 40) else 0 for (a, tk, targ) in cases]
    got = run_harness(exe, cases, forks)
    if isinstance(got, str):
        return {"mismatches": [{"what": got}], "failures": [], "evaluations": 0}
    consts, roots, obs = got
    try:
        mism, fails = evaluate(cases, consts, roots, obs)
    except RuntimeError as e:
        return {"mismatches": [{"what": "model evaluation failed (c18_create)", "detail": str(e)}], "failures": [], "evaluations": 0}
    dist = {"cases": len(obs), "forked": sum(forks), "refused": 0, "by_target": {}, "inherited_class": 0, "inactive": 0}
    for (a, tk, targ), o in zip(cases, obs):
        dist["by_target"][TK_NAME[tk]] = dist["by_target"].get(TK_NAME[tk], 0) + 1
        if o == [4]:
            dist["refused"] += 1
        elif len(o) >= 9:
            dist["inactive"] += o[7]
            if o[3] != 0 and (a < 0 or (a // 64) % 7 == 0):
                dist["inherited_class"] += 1      # the attribute has no QoS: the class comes from the root queue
    if len(obs) < count + 1 and not mism:
        mism.append({"what": "fewer creations measured (%d) than table entries (%d)" % (len(obs), count + 1)})
    seen, uniq = {}, []
    for f in fails:
        seen[f["key"]] = seen.get(f["key"], 0) + 1
        if seen[f["key"]] <= 3:
            uniq.append(f)
    return {"evaluations": len(obs), "distinct_nontrivial": len(set(cases)),
            "rule": "CREATION: every entry of the attribute table and NULL through dispatch_queue_create, plus seeded random target kinds per "
                    "entry and a full grid (NULL, each of the 12 global root queues, serial / concurrent lane, workloop, main queue) on seeded "
                    "random entries; label (strcmp and a private copy; the model passes the label through, so this is a check of the library "
                    "only), dispatch_queue_get_qos_class (class and relative priority), and do_targetq / dq_width / dq_state / dq_atomic_flags / "
                    "dq_priority read from the queue, compared inside Coq with Model/Create.v (words) and with Create.spec_report (attribute "
                    "components); refused creations run in forked children; NULL labels and pthread-root-queue targets are not exercised",
            "samples": [{"create": list(cases[k]), "observed": obs[k]} for k in (0, 5, len(cases) - 3)],
            "distribution": dist, "mismatches": mism[:40], "failures": uniq[:12]}


def replay_create(ctx, f):
    """re-create the recorded case on the current build and re-judge it in Coq: 1 = still wrong, 0 = does not reproduce, 2 = nothing ran"""
    if "create" not in f:
        print("this entry names no creation (%s): only a full ./check C18 re-establishes it" % str(f.get("what"))[:200])
        return 2
    exe, msg = common.build_harness("c18_create", ["c18_create.c"], whitebox=True)
    if exe is None:
        print("harness build failed: " + msg[-500:])
        return 2
    case = tuple(f["create"])
    got = run_harness(exe, [case], [1])
    if isinstance(got, str):
        print(got)
        return 2
    consts, roots, obs = got
    try:
        mism, fails = evaluate([case], consts, roots, obs)
    except RuntimeError as e:
        print("the model could not be evaluated: " + str(e)[:600])
        return 2
    print("N %d %d %d -> %s (recorded %s)" % (case + (obs[0], f.get("observed"))))
    print("recorded: " + str(f.get("what"))[:700])
    now = fails if f.get("key") else mism
    if now or fails:
        print("REPRODUCES: " + str((now or fails)[0]["what"])[:900])
        return 1
    print("does not reproduce (the creation now agrees with Model/Create.v and with spec_report)")
    return 0
