"""C07 — dispatch groups.  Model/Group.v (thread automaton tstep + global model), Gen_group (generated)."""
import os
import common
import conc
import driver

PROPERTIES_FILE = "Properties/Properties_C07.v"
COQ_DEPS = ["Proofs/Group_proofs.vo"]
GEN_MODULES = ["Gen_group"]
LEVEL = "proof"
TRUSTED = [
    "Model/Group.v is hand-written control flow around generated pieces (the rmw-loop bodies of dispatch_group_wait and "
    "_dispatch_group_notify, their memory orders, _dg_state_gen, the DISPATCH_GROUP_* constants, the atomic-site lists of "
    "enter/leave/wait/wait_slow/notify/wake from Gen_group); dispatch_group_leave's clearing loop is a hand-coded do/while around "
    "cmpxchgv and is mirrored by Group.leave_new; ties: (a) site-list equalities checked by Coq, (b) per-thread trace conformance: "
    "every recorded thread trace of the real library must be accepted by Group.tstep (which recomputes every value a CAS tries to "
    "store from the value it read)",
    "atomicity: each os_atomic_* operation is one step; sequentially consistent interleaving (memory-order strength is compared "
    "with the source in the site lists only)",
    "the notify list is abstracted to the sequence of continuations exchanged into dg_notify_tail since the last detach; the "
    "linked-but-not-yet-visible window of the two-step MPSC push only delays the detaching thread (it spins in os_mpsc_get_head / "
    "get_next) and is over-approximated by letting it proceed; submission of a continuation = the exchange on the target queue's "
    "dq_items_tail",
    "kernel: futex_wait may return spuriously, FUTEX_WAKE wakes every sleeper on dg_gen; scheduler fairness for the liveness "
    "clauses (the theorems show that a wake-up / a detaching thread is always pending, not when it is scheduled); real time is not "
    "modelled: 'non-zero only after the timeout' is a statement about the Timeout choice in the model and is measured with the "
    "library's clock in the stress runs",
    "clients keep enter/leave balanced and below 2^30 nested enters (the library traps otherwise; the model has no successor there)",
]
ASSUMPTIONS = ["fewer than 2^32 generations elapse between a waiter's read of dg_state and its futex wait (Group.reach_nw, explicit hypothesis of C07_none_left_behind / C07_sleeper_has_waker; satisfiable: C07_fresh_satisfiable)",
               "fair scheduling for the liveness clauses"]

NQ_BASE = 100000
OFF_NQ = 24


def _exe():
    exe, msg = common.build_harness("c07_group", ["c07_group.c"], whitebox=True, extra=["-I" + common.VERIF + "/harness"])
    if exe is None:
        raise RuntimeError("harness build failed: " + msg)
    return exe


def run_harness(ctx, seed, rounds, permille, kind=-1):
    r = common.run([_exe(), str(seed), str(rounds), str(permille), str(kind)], timeout=600)
    if r.returncode != 0:
        raise RuntimeError("harness failed rc=%s: %s" % (r.returncode, r.stderr[-1500:]))
    return r.stdout


def run_early(variant):
    exe, msg = common.build_harness("c07_early", ["c07_early.c"], whitebox=False)
    if exe is None:
        raise RuntimeError("harness build failed: " + msg)
    r = common.run([exe, str(variant)], timeout=20)
    for l in r.stdout.splitlines():
        if l.startswith("EARLY"):
            return int(l.split()[2]), r.stdout
    return None, "c07_early gave no verdict (rc=%s): %s %s" % (r.returncode, r.stdout[-300:], r.stderr[-300:])


def coq_ev(e, ok=None):
    def z(x):
        return "(%d)" % x if x < 0 else str(x)
    return "mkEv %d %d %s %s %d %s %s %d" % (e.kind, e.order, z(e.obj), z(e.off), e.size, z(e.a), z(e.b),
                                             (e.ok & 1) if ok is None else ok)


class CEv:
    """event prepared for Coq: the submit events carry ok = 1 when they are the last of their run"""
    __slots__ = ("e", "ok")

    def __init__(self, e, ok=None):
        self.e, self.ok = e, ok

    def coq(self):
        return coq_ev(self.e, self.ok)

    def brief(self):
        return self.e.brief()


def min_over(points, lo, hi, base_at):
    """points: sorted list of (stamp, delta); value at time x = sum of deltas with stamp < x; min over x in [lo, hi]"""
    v = base_at(lo)
    m = v
    import bisect
    i = bisect.bisect_left(points, (lo, -10))
    while i < len(points) and points[i][0] <= hi:
        v += points[i][1]
        m = min(m, v)
        i += 1
    return m


def analyse(text, label):
    other, per = conc.parse_dump(text)
    fails, traces = [], []
    rounds, stuck, unfired, multi = {}, [], [], []
    for l in other:
        f = l.split()
        if f[0] == "R":
            rounds[int(f[1])] = (int(f[2]), int(f[3]))
        elif f[0] == "STUCK":
            stuck.append((int(f[1]), int(f[2]), int(f[3]), f[4]))
        elif f[0] == "UNFIRED":
            unfired.append((int(f[1]), int(f[2])))
        elif f[0] == "MULTI":
            multi.append((int(f[1]), int(f[2]), int(f[3])))
    st = {k: 0 for k in ("rounds", "thread_traces", "events", "enter", "leave_api", "leave_implicit", "leave_to_zero",
                         "leave_loop_cas", "leave_loop_cas_retry", "leave_cleared_after_reenter", "wake_with_notifs",
                         "wake_futex", "submitted", "snapshots_multi", "wait_now", "wait_timed", "wait_forever",
                         "wait_ret0_fast", "wait_ret0_slow", "wait_timeout", "wait_casw_retry", "wait_break_waiters_set",
                         "futex_wait", "futex_eintr", "futex_ewouldblock", "futex_timedout", "wait_deadline_already_passed",
                         "notify", "notify_first_pusher", "notify_behind", "notify_self_fire", "notify_casw_retry",
                         "generations")}
    st["rounds"] = len(rounds)
    byround = {}
    endmark = {}
    for thr, evs in per.items():
        for e in evs:
            rd = e.obj - NQ_BASE if e.obj >= NQ_BASE else e.obj
            if e.kind == 104 and e.a == 99:
                endmark[rd] = e.seq
            byround.setdefault(rd, {}).setdefault(thr, []).append(e)
    for rd in sorted(byround):
        kind, nthr = rounds.get(rd, (-1, 0))
        em = endmark.get(rd, 1 << 62)
        # ---------------- per-thread traces for conformance
        enter_ret, leave_call, enter_call, leave_done = [], [], [], []
        waits, notifs, nruns = [], {}, {}
        submits = []
        for thr, evs0 in byround[rd].items():
            evs = []
            for e in evs0:
                if e.seq > em and e.kind < 100:
                    continue
                if e.obj >= NQ_BASE:
                    if e.kind == 3 and e.b != 0:
                        e.off = OFF_NQ
                        evs.append(e)
                    continue
                evs.append(e)
            if not evs:
                continue
            tr = []
            for i, e in enumerate(evs):
                if e.off == OFF_NQ and e.obj >= NQ_BASE:
                    nxt = evs[i + 1] if i + 1 < len(evs) else None
                    last = not (nxt is not None and nxt.obj >= NQ_BASE)
                    tr.append(CEv(e, 1 if last else 0))
                else:
                    tr.append(CEv(e))
            traces.append((0, tr, rd, thr))
            st["thread_traces"] += 1
            st["events"] += len(tr)
            # ---------------- stamps for the oracle + statistics
            cur = None
            last_add_carry = None
            for i, e in enumerate(evs):
                k = e.kind
                if k == 100:
                    cur = (e.a, e.b, e.seq)
                    if e.a in (1, 5):
                        enter_call.append(e.seq)
                        st["enter"] += 1
                    elif e.a == 2:
                        leave_call.append(e.seq)
                        st["leave_api"] += 1
                    elif e.a == 3:
                        st["wait_now" if e.b == 0 else "wait_forever" if e.b == 18446744073709551615 else "wait_timed"] += 1
                    elif e.a == 4:
                        st["notify"] += 1
                elif k == 101 and cur:
                    if cur[0] in (1, 5):
                        enter_ret.append(e.seq)
                    elif cur[0] == 2:
                        leave_done.append(e.seq)
                    elif cur[0] == 3:
                        waits.append({"call": cur[2], "ret": e.seq, "tmo": cur[1], "rc": e.a, "reached": e.b, "thr": thr})
                    elif cur[0] == 4:
                        notifs.setdefault(cur[1], {})["call"] = cur[2]
                    cur = None
                elif k == 102 and e.a == 4:
                    nruns.setdefault(e.b, []).append(e.seq)
                elif k == 103 and e.a == 5:
                    leave_call.append(e.seq)
                elif k == 6 and e.off == 0:
                    if not (cur and cur[0] == 2):
                        leave_done.append(e.seq)
                        st["leave_implicit"] += 1
                    if (e.a & 0xfffffffc) == 0xfffffffc:
                        st["leave_to_zero"] += 1
                        last_add_carry = e.seq
                elif k == 4 and e.off == 0:
                    st["leave_loop_cas"] += 1
                    if not (e.ok & 1):
                        st["leave_loop_cas_retry"] += 1
                    elif e.a & 0xfffffffc:
                        st["leave_cleared_after_reenter"] += 1
                elif k == 3 and e.off == 16 and e.obj < NQ_BASE:
                    if e.b == 0:
                        st["wake_with_notifs"] += 1
                    else:
                        if cur and cur[0] == 4:
                            notifs.setdefault(cur[1], {}).update({"ptr": e.b, "reg": e.seq})
                        st["notify_first_pusher" if e.a == 0 else "notify_behind"] += 1
                elif k == 3 and e.off == OFF_NQ:
                    st["submitted"] += 1
                    submits.append((e.seq, e.b, thr, last_add_carry, "notify" if cur and cur[0] == 4 else "leave"))
                    if i + 1 < len(evs) and evs[i + 1].off == OFF_NQ and evs[i + 1].obj >= NQ_BASE and \
                            not (i > 0 and evs[i - 1].off == OFF_NQ and evs[i - 1].obj >= NQ_BASE):
                        st["snapshots_multi"] += 1
                elif k == 34:
                    st["wake_futex"] += 1
                elif k == 32:
                    st["futex_wait"] += 1
                elif k == 33:
                    st["futex_eintr" if e.b == 4 else "futex_ewouldblock" if e.b == 11 else "futex_timedout" if e.b == 110
                       else "futex_wait"] += 0 if e.b == 0 else 1
                elif k == 5 and e.off == 0 and not (e.ok & 1):
                    st["wait_casw_retry" if cur and cur[0] == 3 else "notify_casw_retry"] += 1
                    if cur and cur[0] == 4 and (e.a & 0xffffffff) == 0:
                        st["notify_self_fire"] += 1
                        last_add_carry = e.seq
                elif k == 1 and e.off == 0 and cur and cur[0] == 4 and (e.a & 0xffffffff) == 0:
                    st["notify_self_fire"] += 1
                    last_add_carry = e.seq
                elif k == 1 and e.off == 0 and cur and cur[0] == 3 and (e.a & 0xfffffffc) and (e.a & 1) and cur[1] != 0:
                    st["wait_break_waiters_set"] += 1
                elif k == 1 and e.off == 4 and i > 0 and evs[i - 1].kind != 33:
                    st["wait_deadline_already_passed"] += 1
        # ---------------- API-level oracle (stamps only)
        import bisect
        er, lc, ec, ld = sorted(enter_ret), sorted(leave_call), sorted(enter_call), sorted(leave_done)
        lb_pts = sorted([(s, 1) for s in er] + [(s, -1) for s in lc])
        ub_pts = sorted([(s, 1) for s in ec] + [(s, -1) for s in ld])

        def lb_at(x):
            return bisect.bisect_left(er, x) - bisect.bisect_left(lc, x)

        def ub_at(x):
            return bisect.bisect_left(ec, x) - bisect.bisect_left(ld, x)
        for w in waits:
            if w["rc"] == 0:
                st["wait_ret0_fast" if False else "wait_ret0_slow"] += 0
                if min_over(lb_pts, w["call"], w["ret"], lb_at) > 0:
                    fails.append({"key": "%s:round%d:wait-zero-unsound:%d" % (label, rd, w["call"]), "label": label, "round": rd,
                                  "what": "dispatch_group_wait returned 0 (stamps %d..%d, thread %d) although at every moment of "
                                          "the call at least one completed dispatch_group_enter had no dispatch_group_leave even "
                                          "started" % (w["call"], w["ret"], w["thr"])})
            else:
                st["wait_timeout"] += 1
                if not w["reached"]:
                    fails.append({"key": "%s:round%d:wait-nonzero-early:%d" % (label, rd, w["call"]), "label": label, "round": rd,
                                  "what": "dispatch_group_wait(timeout=%d) returned non-zero before the deadline by the library's "
                                          "own clock" % w["tmo"]})
                if -min_over([(s, -d) for (s, d) in ub_pts], w["call"], w["ret"], lambda x: -ub_at(x)) <= 0:
                    fails.append({"key": "%s:round%d:wait-nonzero-empty:%d" % (label, rd, w["call"]), "label": label, "round": rd,
                                  "what": "dispatch_group_wait returned non-zero (stamps %d..%d) although the group was provably "
                                          "empty during the whole call" % (w["call"], w["ret"])})
        st["wait_ret0_slow"] += 0
        for nid, n in notifs.items():
            runs = nruns.get(nid, [])
            if len(runs) > 1:
                fails.append({"key": "%s:round%d:notify-multi:%d" % (label, rd, nid), "label": label, "round": rd,
                              "what": "notification block %d ran %d times" % (nid, len(runs))})
            if runs and "call" in n:
                if min_over(lb_pts, n["call"], runs[0], lb_at) > 0:
                    # signature of the known defect: submitted by a thread whose observation of the count at zero (the atomic
                    # add of dispatch_group_leave, or the load of a registering _dispatch_group_notify) precedes the
                    # registration of this notification: it acts on a stale zero when it detaches the list
                    sub = sorted(x for x in submits if x[1] == n.get("ptr") and x[0] > n.get("reg", 0))
                    stale = bool(sub) and sub[0][3] is not None and sub[0][3] < n.get("reg", 0)
                    st["notify_early_stale_zero" if stale else "notify_early_other"] = \
                        st.get("notify_early_stale_zero" if stale else "notify_early_other", 0) + 1
                    fails.append({"key": "notify-early" if stale else "%s:round%d:notify-early:%d" % (label, rd, nid),
                                  "label": label, "round": rd, "instance": "%s:round%d:%d" % (label, rd, nid),
                                  "submitted_by": sub[0] if sub else None,
                                  "what": "a block passed to dispatch_group_notify (call stamp %d) started running at stamp %d "
                                          "although at every moment in between at least one dispatch_group_enter that had returned "
                                          "before had no dispatch_group_leave even started (round kind %d, %d threads)"
                                          % (n["call"], runs[0], kind, nthr)})
        for (r2, nid) in unfired:
            if r2 == rd:
                fails.append({"key": "%s:round%d:notify-left-behind:%d" % (label, rd, nid), "label": label, "round": rd,
                              "what": "notification %d was never run although the group became and stayed empty (3 s)" % nid})
        for (r2, nid, n) in multi:
            if r2 == rd:
                fails.append({"key": "%s:round%d:notify-multi:%d" % (label, rd, nid), "label": label, "round": rd,
                              "what": "notification block %d ran %d times" % (nid, n)})
        for (r2, k, op, why) in stuck:
            if r2 == rd:
                fails.append({"key": "%s:round%d:stuck:%d" % (label, rd, k), "label": label, "round": rd,
                              "what": "thread %d still blocked in %s after 4 s without any progress (%s): a waiter was left "
                                      "behind" % (k, {31: "dispatch_group_wait(FOREVER)", 32: "dispatch_group_wait(timed)",
                                                      30: "dispatch_group_wait(NOW)"}.get(op, "op %d" % op), why)})
    return fails, traces, st, bool(stuck)


def correspond(ctx):
    nseeds, rounds = (3, 36) if ctx.tier == "quick" else (24, 120)
    fails, mism, alltr, total, notes = [], [], [], {}, []
    # fixed corpus first: the deterministic witness of the notify-early defect found on the unchanged tree
    for v in (0, 1):
        early, out = run_early(v)
        total["corpus_notify_early_variant%d" % v] = -1 if early is None else early
        if early is None:
            # the witness program waits for the leave's 64-bit add on dg_state; a library that no longer performs it hangs here
            fails.append({"key": "corpus:c07_early-variant%d-no-verdict" % v, "label": "corpus", "variant": v,
                          "what": "harness/c07_early.c variant %d did not finish: dispatch_group_leave no longer performs the "
                                  "64-bit atomic add on dg_state the schedule waits for, or a call blocked (%s)" % (v, out[:200])})
        elif early:
            fails.append({"key": "notify-early", "label": "corpus", "variant": v,
                          "what": "deterministic schedule (harness/c07_early.c variant %d): a notification registered after a new "
                                  "dispatch_group_enter ran while that enter was still outstanding, because the dispatch_group_leave "
                                  "of the previous generation was between its atomic add and its snapshot of the notify list" % v})
    for i in range(nseeds):
        seed = ctx.seed * 1000 + i
        permille = [0, 150, 400][i % 3]
        text = run_harness(ctx, seed, rounds, permille)
        f, tr, st, was_stuck = analyse(text, "seed%d" % seed)
        fails += f
        alltr += [(sv, t, rd, thr, seed) for (sv, t, rd, thr) in tr]
        for k, v in st.items():
            total[k] = total.get(k, 0) + v
    # a trace longer than this cannot come from the scripts of the harness (a thread spinning inside the library): it is
    # reported as a mismatch instead of being fed to Coq
    LIMIT = 6000
    toolong = [x for x in alltr if len(x[1]) > LIMIT]
    alltr = [x for x in alltr if len(x[1]) <= LIMIT]
    for (sv, t, rd, thr, seed) in toolong[:5]:
        mism.append({"what": "a recorded thread trace has %d events inside one round (a thread spinning inside the library)" % len(t),
                     "detail": {"seed": seed, "round": rd, "thread": thr, "trace_tail": [e.brief() for e in t[-12:]]}})
    res = conc.coq_conform("c07_conf", ["Word", "Conc", "Gen_group", "Group"], "(fun (_ : Z) tr => conform tr)",
                           [(sv, t) for (sv, t, _, _, _) in alltr], chunk=300)
    for (i, idle), (sv, t, rd, thr, seed) in zip(res, alltr):
        if i != -1 or idle != 1:
            lo = max(0, i - 12) if i >= 0 else max(0, len(t) - 20)
            mism.append({"what": "a recorded thread trace of the library is not accepted by the model's thread automaton "
                                 "(Group.tstep): the implementation took a step the model does not have",
                         "detail": {"seed": seed, "round": rd, "thread": thr, "rejected_at": i, "ended_idle": idle,
                                    "trace_window": [e.brief() for e in t[lo:lo + 30]]}})
    distinct = len(set(tuple((e.e.kind, e.e.off, e.e.ok & 1) for e in t) for (_, t, _, _, _) in alltr))
    samples = [{"trace": [e.brief() for e in t][:60]} for (_, t, _, _, _) in alltr[:2]]
    slept = [x for x in alltr if any(e.e.kind == 32 for e in x[1])][:2]
    samples += [{"trace": [e.brief() for e in t][:60]} for (_, t, _, _, _) in slept]
    uniq, seen = [], set()
    for f in fails:
        if f["key"] not in seen:
            seen.add(f["key"])
            uniq.append(f)
    return {"evaluations": len(alltr), "distinct_nontrivial": distinct,
            "rule": "rounds of 2..8 threads running random scripts of enter / leave / group_async_f / notify_f / wait(NOW, timed "
                    "50us-5ms, FOREVER) on one group per round (round kinds: random mix; many simultaneous waiters with short "
                    "timeouts expiring while others keep waiting; notify and enter+notify racing the last leave), many generations "
                    "per round, schedule perturbation inside the library's atomic operations (0/15/40 percent of events), SIGUSR1 "
                    "storms without SA_RESTART, a 4 s no-progress watchdog; every per-thread, per-round event trace on dg_state / "
                    "dg_gen / dg_notify_head / dg_notify_tail and on the target queue's dq_items_tail recorded by the "
                    "DISPATCH_VERIF hook (a run of NULL loads from dg_notify_head by one spinning thread written once) is replayed through Group.tstep inside Coq; API-level oracle on stamps: wait==0 needs a "
                    "moment in [call, return] where the count could be zero, wait!=0 needs the deadline reached by the library's "
                    "clock and a moment where the count could be non-zero, every notify block runs exactly once and not while an "
                    "enter that returned before the notify call provably had not started to leave, nothing blocked or unfired after "
                    "quiescence; distinct = distinct shapes (kind, offset, outcome) of thread traces",
            "samples": samples, "distribution": total, "traces_validated_against_impl": len(alltr),
            "mismatches": mism[:20], "failures": uniq[:20], "notes": notes}


def replay(ctx, obj):
    for f in obj.get("failures", []):
        print("recorded failure:", f.get("what"))
        lab = f.get("label", "seed1")
        if lab == "corpus":
            early, out = run_early(f.get("variant", 0))
            print("re-run of harness/c07_early.c variant %d: EARLY=%s\n%s" % (f.get("variant", 0), early, out))
            continue
        seed = int(lab.replace("seed", "")) if lab.startswith("seed") else 1
        text = run_harness(ctx, seed, 36, [0, 150, 400][seed % 3])
        f2, _, _, _ = analyse(text, lab)
        print("re-run with seed %d: %d failures" % (seed, len(f2)))
        for x in f2[:5]:
            print("  ", x["what"])
    for b in obj.get("broken", []):
        print("no longer checks:", b)
    return 1
