"""C07 — dispatch groups.  Model/Group.v (thread automaton tstep + global model), Gen_group (generated)."""
import os
import common
import conc
import driver

PROPERTIES_FILE = "Properties/Properties_C07.v"
COQ_DEPS = ["Proofs/Group_proofs.vo", "Proofs/GroupR_proofs.vo"]
GEN_MODULES = ["Gen_group"]
LEVEL = "proof"
TRUSTED = [
    "Model/Group.v is hand-written control flow around generated pieces (the rmw-loop bodies of dispatch_group_wait and "
    "_dispatch_group_notify, their memory orders, _dg_state_gen, the DISPATCH_GROUP_* constants, the atomic-site lists of "
    "enter/leave/wait/wait_slow/notify/wake from Gen_group); dispatch_group_leave's clearing loop is a hand-coded do/while around "
    "cmpxchgv and is mirrored by Group.leave_new; ties: (a) site-list equalities checked by Coq, (b) per-thread trace conformance: "
    "every recorded thread trace of the real library must be accepted by Group.tstep (which recomputes every value a CAS tries to "
    "store from the value it read), (c) the replay of every recorded round as a run of the GLOBAL model: Model/GroupR.v executes all "
    "threads' events of a round on Group.gstep (an event is taken only if the model accepts it in its current shared state and the "
    "kernel's recorded result is one the model allows), the round must be consumed entirely and end in the recorded final state; "
    "C07_replay_reach: the scheduler only takes model steps; the order it is asked to try (recorder's tickets, repaired by a search "
    "on dg_state / dg_notify_tail / futex causality in lib/props/c07.py round_order) is untrusted: a wrong order can only make the "
    "replay fail",
    "atomicity: each os_atomic_* operation is one step; sequentially consistent interleaving (memory-order strength is compared "
    "with the source in the site lists only)",
    "the notify list is abstracted to the sequence of continuations exchanged into dg_notify_tail since the last detach; the "
    "linked-but-not-yet-visible window of the two-step MPSC push only delays the detaching thread (it spins in os_mpsc_get_head / "
    "get_next) and is over-approximated by letting it proceed; submission of a continuation = the exchange on the target queue's "
    "dq_items_tail",
    "kernel: futex_wait may return spuriously with any result except that a wait without timeout is never told ETIMEDOUT (Group.geffect at PSleep), FUTEX_WAKE wakes every sleeper on dg_gen; scheduler fairness for the liveness "
    "clauses (the theorems show that a wake-up / a detaching thread is always pending, not when it is scheduled); real time is not "
    "modelled: 'non-zero only after the timeout' is a statement about the Timeout choice in the model and is measured with the "
    "library's clock in the stress runs",
    "clients keep enter/leave balanced and below 2^30 nested enters (the library traps otherwise; the model has no successor there)",
]
ASSUMPTIONS = ["fewer than 2^32 generations elapse between a waiter's read of dg_state and its futex wait (Group.reach_nw, explicit hypothesis of C07_none_left_behind / C07_sleeper_has_waker; satisfiable: C07_fresh_satisfiable)",
               "fair scheduling for the liveness clauses"]

NQ_BASE = 100000
OFF_NQ = 24


def _exe():
    exe, msg = common.build_harness("c07_group", ["c07_group.c"], whitebox=True, extra=["-I" + common.VERIF + "/harness"])
    if exe is None:
        raise RuntimeError("harness build failed: " + msg)
    return exe


def run_harness(ctx, seed, rounds, permille, kind=-1):
    r = common.run([_exe(), str(seed), str(rounds), str(permille), str(kind)], timeout=600)
    if r.returncode != 0:
        raise RuntimeError("harness failed rc=%s: %s" % (r.returncode, r.stderr[-1500:]))
    return r.stdout


def run_early(variant):
    exe, msg = common.build_harness("c07_early", ["c07_early.c"], whitebox=False)
    if exe is None:
        raise RuntimeError("harness build failed: " + msg)
    r = common.run([exe, str(variant)], timeout=20)
    for l in r.stdout.splitlines():
        if l.startswith("EARLY"):
            return int(l.split()[2]), r.stdout
    return None, "c07_early gave no verdict (rc=%s): %s %s" % (r.returncode, r.stdout[-300:], r.stderr[-300:])


def coq_ev(e, ok=None):
    def z(x):
        return "(%d)" % x if x < 0 else str(x)
    return "mkEv %d %d %s %s %d %s %s %d" % (e.kind, e.order, z(e.obj), z(e.off), e.size, z(e.a), z(e.b),
                                             (e.ok & 1) if ok is None else ok)


class CEv:
    """event prepared for Coq: the submit events carry ok = 1 when they are the last of their run"""
    __slots__ = ("e", "ok")

    def __init__(self, e, ok=None):
        self.e, self.ok = e, ok

    def coq(self):
        return coq_ev(self.e, self.ok)

    def brief(self):
        return self.e.brief()


def min_over(points, lo, hi, base_at):
    """points: sorted list of (stamp, delta); value at time x = sum of deltas with stamp < x; min over x in [lo, hi]"""
    v = base_at(lo)
    m = v
    import bisect
    i = bisect.bisect_left(points, (lo, -10))
    while i < len(points) and points[i][0] <= hi:
        v += points[i][1]
        m = min(m, v)
        i += 1
    return m


def analyse(text, label):
    other, per = conc.parse_dump(text)
    fails, traces = [], []
    rounds, stuck, unfired, multi, finals = {}, [], [], [], {}
    for l in other:
        f = l.split()
        if f[0] == "R":
            rounds[int(f[1])] = (int(f[2]), int(f[3]))
        elif f[0] == "Q":
            finals[int(f[1])] = (int(f[2]), int(f[3]))
        elif f[0] == "STUCK":
            stuck.append((int(f[1]), int(f[2]), int(f[3]), f[4]))
            finals.setdefault("incomplete", set()).add(int(f[1]))      # dumped by the watchdog: threads are inside calls
        elif f[0] == "INCOMPLETE":
            finals.setdefault("incomplete", set()).add(int(f[1]))      # the record barrier of the harness gave up (10 s)
        elif f[0] == "UNFIRED":
            unfired.append((int(f[1]), int(f[2])))
        elif f[0] == "MULTI":
            multi.append((int(f[1]), int(f[2]), int(f[3])))
    st = {k: 0 for k in ("rounds", "thread_traces", "events", "enter", "leave_api", "leave_implicit", "leave_to_zero",
                         "leave_loop_cas", "leave_loop_cas_retry", "leave_cleared_after_reenter", "wake_with_notifs",
                         "wake_futex", "submitted", "snapshots_multi", "wait_now", "wait_timed", "wait_forever",
                         "wait_ret0_fast", "wait_ret0_slow", "wait_timeout", "wait_casw_retry", "wait_break_waiters_set",
                         "futex_wait", "futex_eintr", "futex_ewouldblock", "futex_timedout", "wait_deadline_already_passed",
                         "notify", "notify_first_pusher", "notify_behind", "notify_self_fire", "notify_casw_retry",
                         )}
    st["rounds"] = len(rounds)
    byround = {}
    endmark = {}
    for thr, evs in per.items():
        for e in evs:
            rd = e.obj - NQ_BASE if e.obj >= NQ_BASE else e.obj
            if e.kind == 104 and e.a == 99:
                endmark[rd] = e.seq
            byround.setdefault(rd, {}).setdefault(thr, []).append(e)
    for rd in sorted(byround):
        kind, nthr = rounds.get(rd, (-1, 0))
        em = endmark.get(rd, 1 << 62)
        # ---------------- per-thread traces for conformance
        enter_ret, leave_call, enter_call, leave_done = [], [], [], []
        waits, notifs, nruns = [], {}, {}
        submits = []
        for thr, evs0 in byround[rd].items():
            evs = []
            for e in evs0:
                if e.seq > em and e.kind < 100:
                    continue
                if e.obj >= NQ_BASE:
                    if e.kind == 3 and e.b != 0:
                        e.off = OFF_NQ
                        evs.append(e)
                    continue
                evs.append(e)
            if not evs:
                continue
            tr = []
            for i, e in enumerate(evs):
                if e.off == OFF_NQ and e.obj >= NQ_BASE:
                    nxt = evs[i + 1] if i + 1 < len(evs) else None
                    last = not (nxt is not None and nxt.obj >= NQ_BASE)
                    tr.append(CEv(e, 1 if last else 0))
                else:
                    tr.append(CEv(e))
            traces.append((0, tr, rd, thr))
            st["thread_traces"] += 1
            st["events"] += len(tr)
            # ---------------- stamps for the oracle + statistics
            cur = None
            call_idx = 0
            last_add_carry = None
            for i, e in enumerate(evs):
                k = e.kind
                if k == 100:
                    cur = (e.a, e.b, e.seq)
                    call_idx = i
                    if e.a in (1, 5):
                        enter_call.append(e.seq)
                        st["enter"] += 1
                    elif e.a == 2:
                        leave_call.append(e.seq)
                        st["leave_api"] += 1
                    elif e.a == 3:
                        st["wait_now" if e.b == 0 else "wait_forever" if e.b == 18446744073709551615 else "wait_timed"] += 1
                    elif e.a == 4:
                        st["notify"] += 1
                elif k == 101 and cur:
                    if cur[0] in (1, 5):
                        enter_ret.append(e.seq)
                    elif cur[0] == 2:
                        leave_done.append(e.seq)
                    elif cur[0] == 3:
                        waits.append({"call": cur[2], "ret": e.seq, "tmo": cur[1], "rc": e.a, "reached": e.b, "thr": thr})
                        if e.a == 0:      # returned 0 from the rmw loop (count seen at zero) or after the slow path
                            slow = any(x.kind in (32, 1) and x.off == 4 for x in evs[call_idx:i])
                            st["wait_ret0_slow" if slow else "wait_ret0_fast"] += 1
                    elif cur[0] == 4:
                        notifs.setdefault(cur[1], {})["call"] = cur[2]
                    cur = None
                elif k == 102 and e.a == 4:
                    nruns.setdefault(e.b, []).append(e.seq)
                elif k == 103 and e.a == 5:
                    leave_call.append(e.seq)
                elif k == 6 and e.off == 0:
                    if not (cur and cur[0] == 2):
                        leave_done.append(e.seq)
                        st["leave_implicit"] += 1
                    if (e.a & 0xfffffffc) == 0xfffffffc:
                        st["leave_to_zero"] += 1
                        last_add_carry = e.seq
                elif k == 4 and e.off == 0:
                    st["leave_loop_cas"] += 1
                    if not (e.ok & 1):
                        st["leave_loop_cas_retry"] += 1
                    elif e.a & 0xfffffffc:
                        st["leave_cleared_after_reenter"] += 1
                elif k == 3 and e.off == 16 and e.obj < NQ_BASE:
                    if e.b == 0:
                        st["wake_with_notifs"] += 1
                    else:
                        if cur and cur[0] == 4:
                            notifs.setdefault(cur[1], {}).update({"ptr": e.b, "reg": e.seq, "regthr": thr, "regrem": len(evs) - i})
                        st["notify_first_pusher" if e.a == 0 else "notify_behind"] += 1
                elif k == 3 and e.off == OFF_NQ:
                    st["submitted"] += 1
                    submits.append((e.seq, e.b, thr, last_add_carry, "notify" if cur and cur[0] == 4 else "leave"))
                    if i + 1 < len(evs) and evs[i + 1].off == OFF_NQ and evs[i + 1].obj >= NQ_BASE and \
                            not (i > 0 and evs[i - 1].off == OFF_NQ and evs[i - 1].obj >= NQ_BASE):
                        st["snapshots_multi"] += 1
                elif k == 34:
                    st["wake_futex"] += 1
                elif k == 32:
                    st["futex_wait"] += 1
                elif k == 33:
                    st["futex_eintr" if e.b == 4 else "futex_ewouldblock" if e.b == 11 else "futex_timedout" if e.b == 110
                       else "futex_wait"] += 0 if e.b == 0 else 1
                elif k == 5 and e.off == 0 and not (e.ok & 1):
                    st["wait_casw_retry" if cur and cur[0] == 3 else "notify_casw_retry"] += 1
                    if cur and cur[0] == 4 and (e.a & 0xffffffff) == 0:
                        st["notify_self_fire"] += 1
                        last_add_carry = e.seq
                elif k == 1 and e.off == 0 and cur and cur[0] == 4 and (e.a & 0xffffffff) == 0:
                    st["notify_self_fire"] += 1
                    last_add_carry = e.seq
                elif k == 1 and e.off == 0 and cur and cur[0] == 3 and (e.a & 0xfffffffc) and (e.a & 1) and cur[1] != 0:
                    st["wait_break_waiters_set"] += 1
                elif k == 1 and e.off == 4 and i > 0 and evs[i - 1].kind != 33:
                    st["wait_deadline_already_passed"] += 1
        # ---------------- API-level oracle (stamps only)
        import bisect
        er, lc, ec, ld = sorted(enter_ret), sorted(leave_call), sorted(enter_call), sorted(leave_done)
        lb_pts = sorted([(s, 1) for s in er] + [(s, -1) for s in lc])
        ub_pts = sorted([(s, 1) for s in ec] + [(s, -1) for s in ld])

        def lb_at(x):
            return bisect.bisect_left(er, x) - bisect.bisect_left(lc, x)

        def ub_at(x):
            return bisect.bisect_left(ec, x) - bisect.bisect_left(ld, x)
        for w in waits:
            if w["rc"] == 0:
                if min_over(lb_pts, w["call"], w["ret"], lb_at) > 0:
                    fails.append({"key": "%s:round%d:wait-zero-unsound:%d" % (label, rd, w["call"]), "label": label, "round": rd,
                                  "what": "dispatch_group_wait returned 0 (stamps %d..%d, thread %d) although at every moment of "
                                          "the call at least one completed dispatch_group_enter had no dispatch_group_leave even "
                                          "started" % (w["call"], w["ret"], w["thr"])})
            else:
                st["wait_timeout"] += 1
                if not w["reached"]:
                    fails.append({"key": "%s:round%d:wait-nonzero-early:%d" % (label, rd, w["call"]), "label": label, "round": rd,
                                  "what": "dispatch_group_wait(timeout=%d) returned non-zero before the deadline by the library's "
                                          "own clock" % w["tmo"]})
                if -min_over([(s, -d) for (s, d) in ub_pts], w["call"], w["ret"], lambda x: -ub_at(x)) <= 0:
                    fails.append({"key": "%s:round%d:wait-nonzero-empty:%d" % (label, rd, w["call"]), "label": label, "round": rd,
                                  "what": "dispatch_group_wait returned non-zero (stamps %d..%d) although the group was provably "
                                          "empty during the whole call" % (w["call"], w["ret"])})
        for nid, n in notifs.items():
            runs = nruns.get(nid, [])
            if len(runs) > 1:
                fails.append({"key": "%s:round%d:notify-multi:%d" % (label, rd, nid), "label": label, "round": rd,
                              "what": "notification block %d ran %d times" % (nid, len(runs))})
            if runs and "call" in n:
                if min_over(lb_pts, n["call"], runs[0], lb_at) > 0:
                    # whether this is the known defect is decided after the global replay (correspond): the key stays an
                    # instance key unless the round replays completely on Group.gstep and the model run itself submits this very
                    # notification although the count was not zero since its registration
                    fails.append({"key": "%s:round%d:notify-early:%d" % (label, rd, nid),
                                  "label": label, "round": rd, "instance": "%s:round%d:%d" % (label, rd, nid),
                                  "early_candidate": True, "regthr": n.get("regthr"), "regrem": n.get("regrem"),
                                  "what": "a block passed to dispatch_group_notify (call stamp %d) started running at stamp %d "
                                          "although at every moment in between at least one dispatch_group_enter that had returned "
                                          "before had no dispatch_group_leave even started (round kind %d, %d threads)"
                                          % (n["call"], runs[0], kind, nthr)})
        for (r2, nid) in unfired:
            if r2 == rd:
                fails.append({"key": "%s:round%d:notify-left-behind:%d" % (label, rd, nid), "label": label, "round": rd,
                              "what": "notification %d was never run although the group became and stayed empty (10 s without any progress)" % nid})
        for (r2, nid, n) in multi:
            if r2 == rd:
                fails.append({"key": "%s:round%d:notify-multi:%d" % (label, rd, nid), "label": label, "round": rd,
                              "what": "notification block %d ran %d times" % (nid, n)})
        for (r2, k, op, why) in stuck:
            if r2 == rd:
                fails.append({"key": "%s:round%d:stuck:%d" % (label, rd, k), "label": label, "round": rd,
                              "what": "thread %d still blocked in %s after 10 s without any progress (%s): a waiter was left "
                                      "behind" % (k, {31: "dispatch_group_wait(FOREVER)", 32: "dispatch_group_wait(timed)",
                                                      30: "dispatch_group_wait(NOW)"}.get(op, "op %d" % op), why)})
    return fails, traces, st, bool(stuck), finals


INV_PERIOD = 20

def round_order(thr, limit=400000, strict=True):
    """preferred global order of one round: the list of thread ids, one per event, in which GroupR.sched is asked to run the
    round.  It is found by a depth-first search on a sketch of the shared state (dg_state, dg_notify_tail, who sleeps), with the
    recorder's tickets as the preference and backtracking where the ticket order is ambiguous (the word returns to an earlier
    value and two threads have an operation enabled on it).  Pure observations of the word (loads, failed CAS) are taken as soon
    as they are enabled.  FUTEX_WAKE: its note is written before the system call, so the wake takes effect between the note and
    the thread's next event; a futex_wait that returned 0 needs a wake after its own note: when no wake note lies in between, the
    most recent earlier wake still in flight is moved to just after the sleeper's note.
    Real time where it is known exactly is respected: harness-level events (call / return / callout marks) take their ticket
    themselves, so their ticket order is their real order and they are executed in that order; and a notification block starts
    running only after the continuation was submitted (the list is followed in the sketch).  With these two rules the model run
    orders every enter that returned before a dispatch_group_notify call before the registration, and every leave that started
    after the block ran after the submission: whenever the stamp oracle finds a notification early, the model run does too.
    The search only proposes an order: every step is checked by the model in Coq, a wrong proposal can only make the replay fail."""
    import bisect
    M32, M64 = 0xffffffff, (1 << 64) - 1
    wakes, rets, stamp, deps, desig = [], [], {}, {}, {}
    th = {tid: t for (tid, t, _) in thr}
    for tid, t in th.items():
        wnote = None
        for j, c in enumerate(t):
            k = c.e.kind
            stamp[(tid, j)] = c.e.seq
            if k == 34:
                wakes.append({"key": (tid, j), "note": c.e.seq, "next": t[j + 1].e.seq if j + 1 < len(t) else float("inf")})
            elif k == 32:
                wnote = (c.e.seq, j)
            elif k == 33 and c.e.b == 0 and wnote is not None:
                rets.append((wnote[0], c.e.seq, tid, wnote[1]))
    wakes.sort(key=lambda w: w["note"])
    notes = [w["note"] for w in wakes]
    # one wake takes effect at one instant: it must lie after the futex_wait note and before the return of every sleeper it is
    # designated for (lo/hi = the interval still possible for that instant)
    for (w0, r0, xt, xj) in sorted(rets):
        hi = bisect.bisect_left(notes, r0)          # wakes with note < r0
        lo = bisect.bisect_right(notes, w0)         # wakes with note <= w0
        cands = list(range(lo, hi)) + [k for k in range(lo - 1, -1, -1) if wakes[k]["next"] > w0]
        for k in cands:
            w = wakes[k]
            a, b = max(w.get("lo", w["note"]), w0), min(w.get("hi", w["next"]), r0)
            if a < b:
                w["lo"], w["hi"] = a, b
                if w["note"] <= w0:
                    stamp[w["key"]] = max(stamp[w["key"]], w0 + 0.5)
                deps.setdefault(w["key"], []).append((xt, xj))
                desig[(xt, xj + 1)] = w["key"]          # the futex_wait_ret event is the one after the futex_wait note
                break
    fallback = [tid for (_, tid) in sorted((stamp[(tid, j)], tid) for tid, t in th.items() for j in range(len(t)))]

    def cls(e):
        """(class, location): class m = modifies, o = observes, a = always enabled, r = futex return"""
        k, off, grp = e.kind, e.off, e.obj < NQ_BASE
        if k >= 100:
            return "u", None
        if not grp:
            return "a", None
        if off == 0 and k in (6, 7):
            return "m", "w"
        if off == 0 and k in (4, 5):
            return ("m" if e.ok & 1 else "o"), "w"
        if off == 0 and k == 1:
            return "o", "w"
        if off == 4 and k == 1:
            return "o", "g"
        if off == 16 and k == 3:
            return "m", "t"
        if k == 33:
            return "r", None
        if k == 34:
            return "k", None
        return "a", None

    def enabled(e, c, loc, cur, tail, sl):
        if c in ("a", "k"):
            return True
        if c == "r":
            return (not strict or e.b != 0 or sl == "W") and (sl != "N" or e.b == 11)
        if loc == "w":
            return e.a == ((cur & M32) if e.kind == 7 else cur)
        if loc == "g":
            return e.a == (cur >> 32)
        return e.a == tail

    tids = sorted(th)
    gen_of = {}                      # events that observed dg_gen = g (exactly: the value they report)
    for tid, t in th.items():
        for j, c in enumerate(t):
            e = c.e
            if e.obj >= NQ_BASE or e.kind >= 100:
                continue
            if e.off == 0 and e.size == 8 and e.kind in (1, 4, 5, 6):
                gen_of[(tid, j)] = e.a >> 32
            elif e.off == 4 and e.kind == 1:
                gen_of[(tid, j)] = e.a
            elif e.kind == 32 and j + 1 < len(t) and t[j + 1].e.kind == 33 and t[j + 1].e.b != 11:
                gen_of[(tid, j)] = e.a             # the kernel compared dg_gen with this value and found it equal
    genleft = {}
    for g in gen_of.values():
        genleft[g] = genleft.get(g, 0) + 1
    users = sorted((c.e.seq, tid, j) for tid, t in th.items() for j, c in enumerate(t) if c.e.kind >= 100)
    callof = {}
    for tid, t in th.items():
        cc = None
        for j, c in enumerate(t):
            if c.e.kind == 100:
                cc = (c.e.a, c.e.b)
            callof[(tid, j)] = cc
            if c.e.kind == 101:
                cc = None
    X = {"ui": 0, "lst": [], "held": {}, "fired": set()}      # user-event cursor, sketch of the notify list

    def xcopy(x):
        return {"ui": x["ui"], "lst": list(x["lst"]), "held": {k: list(v) for k, v in x["held"].items()}, "fired": set(x["fired"])}

    # a dispatch_group_async_f work item starts running only after the enter of the call that submitted it
    enter_of = {}
    for tid, t in th.items():
        for j, c in enumerate(t):
            if c.e.kind == 100 and c.e.a == 5:
                for j2 in range(j + 1, len(t)):
                    if t[j2].e.kind == 7 and t[j2].e.off == 0:
                        enter_of[c.e.b] = (tid, j2)
                        break
                    if t[j2].e.kind >= 100:
                        break

    def user_ok(tid, j, e):
        if X["ui"] >= len(users) or users[X["ui"]][1:] != (tid, j):
            return False
        if e.kind == 102 and e.a == 5 and e.b in enter_of:
            ct, cj = enter_of[e.b]
            if pos[ct] <= cj:
                return False
        return not (e.kind == 102 and e.a == 4) or e.b in X["fired"]
    pos = {t: 0 for t in tids}
    slp = {t: "A" for t in tids}
    cur, tail, order, steps = 0, 0, [], 0
    stack = []                       # choice points: (alternatives left, saved state)
    total = sum(len(t) for t in th.values())

    def apply(tid):
        nonlocal cur, tail
        e = th[tid][pos[tid]].e
        c, loc = cls(e)
        if c == "m":
            if loc == "w":
                if e.kind == 7:
                    cur = (cur & ~M32 & M64) | ((e.a - e.b) & M32)
                elif e.kind == 6:
                    cur = (e.a + e.b) & M64
                else:
                    cur = e.b
            else:
                tail = e.b
                if e.b:
                    cc = callof.get((tid, pos[tid]))
                    X["lst"].append(cc[1] if cc and cc[0] == 4 else None)
                else:
                    X["held"][tid] = X["lst"]
                    X["lst"] = []
        elif e.obj < NQ_BASE and e.kind == 32:
            slp[tid] = "S" if (cur >> 32) == e.a else "N"
        elif c == "u":
            X["ui"] += 1
        elif e.obj >= NQ_BASE and X["held"].get(tid):
            X["fired"].add(X["held"][tid].pop(0))
        elif e.obj < NQ_BASE and e.kind == 34:
            for u in tids:
                if slp[u] == "S":
                    slp[u] = "W"
        elif c == "r":
            slp[tid] = "A"
        g = gen_of.get((tid, pos[tid]))
        if g is not None:
            genleft[g] -= 1
        pos[tid] += 1
        order.append(tid)

    while len(order) < total:
        steps += 1
        if steps > limit:
            return fallback, False
        # a FUTEX_WAKE takes effect anywhere between its note and the thread's next event: it is held back until a sleeper
        # needs it (a futex_wait that returned 0 is next in some thread the sketch has not woken yet) or until nothing else can
        # move.  Generation barrier (exact): every event that observed generation g precedes the leave that carries g -> g+1
        cands, wk, want, wanted = [], [], False, []
        for t in tids:
            if pos[t] < len(th[t]):
                e = th[t][pos[t]].e
                c, loc = cls(e)
                if c == "k" and strict:
                    wk.append((not all(pos[x] > xj for (x, xj) in deps.get((t, pos[t]), ())), stamp[(t, pos[t])], t))
                elif c == "r" and e.b == 0 and slp[t] == "S" and strict:
                    want = True
                    wanted.append(desig.get((t, pos[t])))
                elif user_ok(t, pos[t], e) if c == "u" else enabled(e, c, loc, cur, tail, slp[t]):
                    if c == "m" and loc == "w" and e.kind == 6 and (e.a & 0xfffffffc) == 0xfffffffc and \
                            genleft.get(e.a >> 32, 0) > 1:
                        continue
                    cands.append((stamp[(t, pos[t])], t, c, loc))
        obs = [x for x in cands if x[2] == "o"]
        if obs:
            apply(min(obs)[1])
            continue
        if wk and want:
            ready = [w for w in wk if not w[0]]
            pick = [w for w in ready if (w[2], pos[w[2]]) in wanted] or ([w for w in ready] if None in wanted else [])
            if pick:
                apply(min(pick)[2])
                continue
        if wk and not cands:
            apply(min(wk)[2])
            continue
        if cands:
            first = min(cands)
            if first[2] == "m":
                alts = sorted(x for x in cands if x[2] == "m" and x[3] == first[3])
                if len(alts) > 1:
                    stack.append(([x[1] for x in alts[1:]], (cur, tail, dict(pos), dict(slp), len(order), xcopy(X))))
            apply(first[1])
            continue
        # dead end: back to the last choice point that has an alternative left
        while stack and not stack[-1][0]:
            stack.pop()
        if not stack:
            return fallback, False
        alts, (cur, tail, p0, s0, n0, x0) = stack[-1]
        pos, slp, X = dict(p0), dict(s0), xcopy(x0)
        for g in genleft:
            genleft[g] = 0
        for (t2, j2), g in gen_of.items():
            if pos[t2] <= j2:
                genleft[g] += 1
        del order[n0:]
        apply(alts.pop(0))
    return order, True


def coq_rounds(name, alltr, allfin, chunk_events=14000, workers=4, timeout=900, period=INV_PERIOD, incomplete=()):
    """alltr: list of (sv, [CEv], round, thread, seed).  One Coq file per chunk of rounds: Group.conform on every thread trace and,
    for every round, GroupR.replay of the whole round on the global model (all threads' events executed on Group.gstep in the
    order of the recorder's stamps).  Returns (conformance results aligned with alltr, dict(mismatches, counts))."""
    import re
    from concurrent.futures import ThreadPoolExecutor
    byround = {}
    for idx, (sv, t, rd, thr, seed) in enumerate(alltr):
        byround.setdefault((seed, rd), []).append((thr + 1, t, idx))
    keys = sorted(byround)
    chunks, cur, n = [], [], 0
    for k in keys:
        ne = sum(len(t) for (_, t, _) in byround[k])
        if cur and n + ne > chunk_events:
            chunks.append(cur)
            cur, n = [], 0
        cur.append(k)
        n += ne
    if cur:
        chunks.append(cur)

    def one(arg):
        ci, part, strict = arg
        nums, combos = {}, {}

        def z(x):
            if 0 <= x < 256:
                return str(x)
            if x < 0:
                return "(%d)" % x
            if x not in nums:
                nums[x] = "k%d" % len(nums)
            return nums[x]

        def ev(c):
            e = c.e
            ok = (e.ok & 1) if c.ok is None else c.ok
            key = (e.kind, e.order, e.off, e.size, ok)
            if key not in combos:
                combos[key] = "e%d" % len(combos)
            return "%s %s %s" % (combos[key], z(e.a), z(e.b))
        defs, calls = [], []
        for k, key in enumerate(part):
            thr = byround[key]
            qs = ["(%s, [%s])" % (z(tid), "; ".join(ev(c) for c in t)) for (tid, t, _) in thr]
            order, found = round_order(thr, strict=strict)
            defs.append("Definition qs%d : queues := [%s]." % (k, ";\n".join(qs)))
            defs.append("Definition ord%d : list Z := [%s]." % (k, "; ".join(z(tid) for tid in order)))
            calls.append("Eval vm_compute in concat (map (fun q => let '(i, d) := conform (snd q) in [i; d]) qs%d)." % k)
            calls.append("Eval vm_compute in replay inv_b %d %s qs%d ord%d." % (period, "true" if strict else "false", k, k))
        body = ["Definition %s : Z := %d." % (nm, x) for x, nm in nums.items()]
        body += ["Definition %s (a b : Z) := mkEv %d %d 0 %d %d a b %d." % (nm, kk[0], kk[1], kk[2], kk[3], kk[4])
                 for kk, nm in combos.items()]
        ok, vals, raw = driver.coq_eval("%s_%d%s" % (name, ci, "" if strict else "r"), ["Word", "Conc", "Gen_group", "Group", "GroupR", "GroupR_inv"],
                                        "\n".join(body + defs + calls) + "\n", timeout=timeout)
        if not ok or len(vals) != 2 * len(part):
            raise RuntimeError("coq round evaluation failed: " + raw[-2500:])
        return [(key, driver.ints(vals[2 * k]), driver.ints(vals[2 * k + 1])) for k, key in enumerate(part)]
    res = [None] * len(alltr)
    counts = {"rounds_total": len(keys), "rounds_replayed_on_global_model": 0, "rounds_not_replayed_trace_rejected": 0,
              "rounds_not_replayed_stuck_run": 0, "events_replayed_on_global_model": 0, "replayed_rounds_with_early_notification": 0,
              "invariant_evaluations_false": 0, "early_submissions_in_model_runs": 0,
              "rounds_replayed_only_without_futex_result_check": 0, "rounds_not_replayed_incomplete_record": 0}
    mism, model_early = [], {}
    with ThreadPoolExecutor(max_workers=workers) as ex:
        results = [x for part in ex.map(one, [(ci, part, True) for ci, part in enumerate(chunks)]) for x in part]
    # rounds that do not replay with "a futex_wait that returned 0 was woken by the model" are tried again without that one
    # requirement (GroupR.kernel_ok): where a FUTEX_WAKE took effect between its note and the waker's next event is not recorded
    again = [key for key, conf, rp in results
             if key not in incomplete and all(conf[2 * j] == -1 and conf[2 * j + 1] == 1 for j in range(len(byround[key]))) and rp[1] != 0]
    relaxed = set()
    if again:
        second = {key: (conf, rp) for key, conf, rp in one((0, again, False))}
        results = [(key, conf, second[key][1]) if key in second and second[key][1][1] == 0 else (key, conf, rp)
                   for key, conf, rp in results]
        relaxed = {key for key in second if second[key][1][1] == 0}
    for key, conf, rp in results:
        thr = byround[key]
        allok = True
        for j, (tid, t, idx) in enumerate(thr):
            res[idx] = (conf[2 * j], conf[2 * j + 1])
            if conf[2 * j] != -1 or conf[2 * j + 1] != 1:
                allok = False
        if key in incomplete:
            counts["rounds_not_replayed_incomplete_record"] += 1
            continue
        if not allok:
            counts["rounds_not_replayed_trace_rejected"] += 1
            continue
        nev = sum(len(t) for (_, t, _) in thr)
        (done, left, word, gens, outst, nreg, nql, idle, noslp, fired, early, bad, chk_end, stuck_tid) = rp[:14]
        sep = rp.index(-9999, 14) if -9999 in rp[14:] else len(rp)
        remaining = rp[14:sep]
        early_regs = set(zip(rp[sep + 1::2], rp[sep + 2::2]))     # registration events of the notifications the model submits early
        fin = allfin.get(key)
        problems = []
        if left != 0 or done != nev:
            blocked = []
            for (tid, t, _), rem in zip(thr, remaining):
                if rem:
                    blocked.append({"thread": tid - 1, "next_event": t[len(t) - rem].brief(), "events_left": rem,
                                    "before": [c.brief() for c in t[max(0, len(t) - rem - 3):len(t) - rem]]})
            problems.append({"first_unmatched": blocked[:24], "model_dg_state": word, "model_generations": gens,
                             "model_outstanding": outst, "executed": done, "of": nev})
        elif fin is None:
            counts["rounds_not_replayed_stuck_run"] += 1     # the run ended in the watchdog: reported by the oracle
            continue
        else:
            if word != fin[0] or nreg != fin[1] or not idle or not noslp or outst != 0 or nql != 0:
                problems.append({"final_state": {"model_dg_state": word, "recorded_dg_state": fin[0], "model_registered": nreg,
                                                 "recorded_registered": fin[1], "all_idle": idle, "nobody_asleep": noslp,
                                                 "outstanding": outst, "list_length": nql}})
        if bad != -1 or not chk_end:
            counts["invariant_evaluations_false"] += 1
            problems.append({"invariant_false_after_step": bad, "invariant_on_final_state": chk_end})
        if problems:
            mism.append({"what": "a recorded round is not a run of the global model (Group.gstep): " +
                                 ("an event is never enabled with the recorded outcome" if left else
                                  "the model does not end in the recorded final state / an invariant clause evaluates to false"),
                         "detail": {"seed": key[0], "round": key[1], "problems": problems}})
        else:
            counts["rounds_replayed_on_global_model"] += 1
            counts["rounds_replayed_only_without_futex_result_check"] += key in relaxed
            counts["events_replayed_on_global_model"] += nev
            counts["replayed_rounds_with_early_notification"] += early
            counts["early_submissions_in_model_runs"] += len(early_regs)
            model_early[key] = early_regs
    return res, {"mismatches": mism[:10], "counts": counts, "model_early": model_early}


def correspond(ctx):
    nseeds, rounds = (3, 36) if ctx.tier == "quick" else (24, 60)
    fails, mism, alltr, total, notes, allfin, allinc = [], [], [], {}, [], {}, set()
    # fixed corpus first: the deterministic witness of the notify-early defect found on the unchanged tree
    for v in (0, 1):
        early, out = run_early(v)
        total["corpus_notify_early_variant%d" % v] = -1 if early is None else early
        if early is None:
            # the witness program waits for the leave's 64-bit add on dg_state; a library that no longer performs it hangs here
            fails.append({"key": "corpus:c07_early-variant%d-no-verdict" % v, "label": "corpus", "variant": v,
                          "what": "harness/c07_early.c variant %d did not finish: dispatch_group_leave no longer performs the "
                                  "64-bit atomic add on dg_state the schedule waits for, or a call blocked (%s)" % (v, out[:200])})
        elif early:
            fails.append({"key": "notify-early", "label": "corpus", "variant": v,
                          "what": "deterministic schedule (harness/c07_early.c variant %d): a notification registered after a new "
                                  "dispatch_group_enter ran while that enter was still outstanding, because the dispatch_group_leave "
                                  "of the previous generation was between its atomic add and its snapshot of the notify list" % v})
    for i in range(nseeds):
        seed = ctx.seed * 1000 + i
        permille = [0, 150, 400][i % 3]
        try:
            text = run_harness(ctx, seed, rounds, permille)
        except RuntimeError as ex:
            # the stress client died (a trap inside the library, DISPATCH_CLIENT_CRASH / DISPATCH_INTERNAL_CRASH): a failing input
            fails.append({"key": "seed%d:harness-died" % seed, "label": "seed%d" % seed, "round": -1,
                          "what": "the stress client did not survive the run (seed %d, %d rounds, perturbation %d permille): %s"
                                  % (seed, rounds, permille, str(ex)[:200])})
            continue
        f, tr, st, was_stuck, fin = analyse(text, "seed%d" % seed)
        fails += f
        alltr += [(sv, t, rd, thr, seed) for (sv, t, rd, thr) in tr]
        for rd in fin.pop("incomplete", ()):
            allinc.add((seed, rd))
        for rd, v in fin.items():
            allfin[(seed, rd)] = v
        for k, v in st.items():
            total[k] = total.get(k, 0) + v
    # a trace longer than this cannot come from the scripts of the harness (a thread spinning inside the library): it is
    # reported as a mismatch instead of being fed to Coq
    LIMIT = 6000
    toolong = [x for x in alltr if len(x[1]) > LIMIT]
    alltr = [x for x in alltr if len(x[1]) <= LIMIT]
    for (sv, t, rd, thr, seed) in toolong[:5]:
        mism.append({"what": "a recorded thread trace has %d events inside one round (a thread spinning inside the library)" % len(t),
                     "detail": {"seed": seed, "round": rd, "thread": thr, "trace_tail": [e.brief() for e in t[-12:]]}})
    inv_period = INV_PERIOD if ctx.tier == "quick" else 100
    res, rep = coq_rounds("c07_rounds", alltr, allfin, period=inv_period, incomplete=allinc)
    for (i, idle), (sv, t, rd, thr, seed) in zip(res, alltr):
        # a trace that is accepted but does not end outside every call is a mismatch only when the round was recorded
        # completely (the harness dumps a round after its record barrier; a watchdog dump has threads inside calls by design)
        if i != -1 or (idle != 1 and (seed, rd) not in allinc):
            lo = max(0, i - 12) if i >= 0 else max(0, len(t) - 20)
            mism.append({"what": "a recorded thread trace of the library is not accepted by the model's thread automaton "
                                 "(Group.tstep): the implementation took a step the model does not have",
                         "detail": {"seed": seed, "round": rd, "thread": thr, "rejected_at": i, "ended_idle": idle,
                                    "trace_window": [e.brief() for e in t[lo:lo + 30]]}})
    mism += rep["mismatches"]
    total.update(rep["counts"])
    # known or not: an early notification found by the stamp oracle is the known defect exactly when its round replays
    # completely on the global model and the model run itself submits that very notification (identified by its registration
    # event) while the count has not been zero since its registration.  No ticket comparison is involved: the replay respects
    # the exact order of the harness-level marks, so every model run agrees with the oracle on such a notification; an early
    # notification of a round that does not replay, or that the model does not produce, keeps its instance key.
    total["notify_early_known_by_model_run"] = total["notify_early_not_reproduced_by_model"] = 0
    for f in fails:
        if f.get("early_candidate"):
            seed = int(f["label"].replace("seed", ""))
            me = rep["model_early"].get((seed, f["round"]))
            if me is not None and f.get("regthr") is not None and (f["regthr"] + 1, f["regrem"]) in me:
                f["key"] = "notify-early"
                total["notify_early_known_by_model_run"] += 1
            else:
                f["replayed"] = me is not None
                total["notify_early_not_reproduced_by_model"] += 1
    distinct = len(set(tuple((e.e.kind, e.e.off, e.e.ok & 1) for e in t) for (_, t, _, _, _) in alltr))
    samples = [{"trace": [e.brief() for e in t][:60]} for (_, t, _, _, _) in alltr[:2]]
    slept = [x for x in alltr if any(e.e.kind == 32 for e in x[1])][:2]
    samples += [{"trace": [e.brief() for e in t][:60]} for (_, t, _, _, _) in slept]
    uniq, seen = [], set()
    for f in fails:
        if f["key"] not in seen:
            seen.add(f["key"])
            uniq.append(f)
    return {"evaluations": len(alltr), "distinct_nontrivial": distinct,
            "rule": "rounds of 2..8 threads running random scripts of enter / leave / group_async_f / notify_f / wait(NOW, timed "
                    "50us-5ms, FOREVER) on one group per round (round kinds: random mix; many simultaneous waiters with short "
                    "timeouts expiring while others keep waiting; notify and enter+notify racing the last leave), many generations "
                    "per round, schedule perturbation inside the library's atomic operations (0/15/40 percent of events), SIGUSR1 "
                    "storms without SA_RESTART, a 10 s no-progress watchdog (every wait of the harness is bounded by lack of progress, not by elapsed time) and a record barrier at the end of every round (all leaves' atomic adds recorded, the group's internal reference count back to its creation value); every per-thread, per-round event trace on dg_state / "
                    "dg_gen / dg_notify_head / dg_notify_tail and on the target queue's dq_items_tail recorded by the "
                    "DISPATCH_VERIF hook (a run of NULL loads from dg_notify_head by one spinning thread written once) is replayed through Group.tstep inside Coq; API-level oracle on stamps: wait==0 needs a "
                    "moment in [call, return] where the count could be zero, wait!=0 needs the deadline reached by the library's "
                    "clock and a moment where the count could be non-zero [global replay: every round is then executed on Group.gstep by GroupR.sched and the decidable clauses of Inv1/Inv2/Inv3 (GroupR_inv.inv_b) are evaluated on every 300-th state and on the final one], every notify block runs exactly once and not while an "
                    "enter that returned before the notify call provably had not started to leave, nothing blocked or unfired after "
                    "quiescence; distinct = distinct shapes (kind, offset, outcome) of thread traces",
            "samples": samples, "distribution": total, "traces_validated_against_impl": len(alltr),
            "mismatches": mism[:20], "failures": uniq[:20], "notes": notes}


def replay(ctx, obj):
    for f in obj.get("failures", []):
        print("recorded failure:", f.get("what"))
        lab = f.get("label", "seed1")
        if lab == "corpus":
            early, out = run_early(f.get("variant", 0))
            print("re-run of harness/c07_early.c variant %d: EARLY=%s\n%s" % (f.get("variant", 0), early, out))
            continue
        seed = int(lab.replace("seed", "")) if lab.startswith("seed") else 1
        text = run_harness(ctx, seed, 36, [0, 150, 400][seed % 3])
        f2, _, _, _, _ = analyse(text, lab)
        print("re-run with seed %d: %d failures" % (seed, len(f2)))
        for x in f2[:5]:
            print("  ", x["what"])
    for b in obj.get("broken", []):
        print("no longer checks:", b)
    return 1
