"""C07 — dispatch groups.  Model/Group.v (thread automaton tstep + global model), Gen_group (generated)."""
import os
import common
import conc
import driver

PROPERTIES_FILE = "Properties/Properties_C07.v"
COQ_DEPS = ["Proofs/Group_proofs.vo", "Proofs/GroupR_proofs.vo"]
GEN_MODULES = ["Gen_group"]
LEVEL = "proof"
TRUSTED = [
    "Model/Group.v is hand-written control flow around generated pieces (the rmw-loop bodies of dispatch_group_wait and "
    "_dispatch_group_notify, their memory orders, _dg_state_gen, the DISPATCH_GROUP_* constants, the atomic-site lists of "
    "enter/leave/wait/wait_slow/notify/wake from Gen_group); dispatch_group_leave's clearing loop is a hand-coded do/while around "
    "cmpxchgv and is mirrored by Group.leave_new; ties: (a) site-list equalities checked by Coq, (b) per-thread trace conformance: "
    "every recorded thread trace of the real library must be accepted by Group.tstep (which recomputes every value a CAS tries to "
    "store from the value it read), (c) the replay of every recorded round as a run of the GLOBAL model: Model/GroupR.v executes all "
    "threads' events of a round on Group.gstep (an event is taken only if the model accepts it in its current shared state and the "
    "kernel's recorded result is one the model allows), the round must be consumed entirely and end in the recorded final state; "
    "C07_replay_reach: the scheduler only takes model steps; the order it is asked to try (recorder's tickets, repaired by a search "
    "on dg_state / dg_notify_tail / futex causality in lib/props/c07.py round_order) is untrusted: a wrong order can only make the "
    "replay fail",
    "atomicity: each os_atomic_* operation is one step; sequentially consistent interleaving (memory-order strength is compared "
    "with the source in the site lists only)",
    "the notify list is abstracted to the sequence of continuations exchanged into dg_notify_tail since the last detach; the "
    "linked-but-not-yet-visible window of the two-step MPSC push only delays the detaching thread: the spin in os_mpsc_get_head is in "
    "the model as a self-loop that is always enabled (PSnapHead accepts a NULL load and stays; the head value is not state), the spin "
    "in get_next is not a step at all; so NO liveness is proved (the model has fair infinite runs that never submit a registered "
    "notification); C07_no_stuck is per-thread deadlock freedom only; submission of a continuation = the exchange on the target queue's "
    "dq_items_tail",
    "kernel: futex_wait may return spuriously with any result except that a wait without timeout is never told ETIMEDOUT (Group.geffect at PSleep), FUTEX_WAKE wakes every sleeper on dg_gen; scheduler fairness for the liveness "
    "clauses (the theorems show that a wake-up / a detaching thread is always pending, not when it is scheduled); real time is not "
    "modelled: 'non-zero only after the timeout' is a statement about the Timeout choice in the model and is measured with the "
    "library's clock in the stress runs",
    "clients keep enter/leave balanced and below 2^30 nested enters (the library traps otherwise; the model has no successor there)",
]
ASSUMPTIONS = ["fewer than 2^32 generations elapse between a waiter's read of dg_state and its futex wait (Group.reach_nw, explicit hypothesis of C07_none_left_behind / C07_sleeper_has_waker; satisfiable: C07_fresh_satisfiable)",
               "the liveness reading (every registered notification / sleeping waiter is eventually served) additionally needs fair scheduling AND termination of the head / do_next spins and of the retry loops, none of which is proved"]

NQ_BASE = 100000
OFF_NQ = 24


TAG = "c07p%d" % os.getpid()        # work files / binaries of concurrently running checks must not collide
_EXE = {}


def _exe(which="c07_group"):
    if which not in _EXE:
        exe, msg = common.build_harness("%s_%s" % (which, TAG), [which + ".c"], whitebox=True,
                                        extra=["-I" + common.VERIF + "/harness"])
        if exe is None:
            raise RuntimeError("harness build failed: " + msg)
        _EXE[which] = exe
    return _EXE[which]


def _cleanup():
    for exe in _EXE.values():
        try:
            os.remove(exe)
        except OSError:
            pass
    _EXE.clear()


def run_unit(cmd, limit):
    """run one harness; a wall-clock limit never decides by itself: on expiry the unit is run once more, alone, with 10x the
    limit.  returns the finished process object (returncode 124 only if the generous limit expired too)"""
    r = common.run(cmd, timeout=limit)
    if r.returncode == 124:
        r = common.run(cmd, timeout=10 * limit)
    return r


def run_harness(ctx, seed, rounds, permille, kind=-1):
    r = run_unit([_exe(), str(seed), str(rounds), str(permille), str(kind)], 300)
    if r.returncode != 0:
        raise RuntimeError("harness failed rc=%s: %s" % (r.returncode, r.stderr[-1500:]))
    return r.stdout


def run_early(variant):
    """the deterministic witness; returns (EARLY flag or None, full output)"""
    r = run_unit([_exe("c07_early"), str(variant)], 60)
    for l in r.stdout.splitlines():
        if l.startswith("EARLY"):
            return int(l.split()[2]), r.stdout
    return None, "c07_early gave no verdict (rc=%s): %s %s" % (r.returncode, r.stdout[-300:], r.stderr[-300:])


def coq_ev(e, ok=None):
    def z(x):
        return "(%d)" % x if x < 0 else str(x)
    return "mkEv %d %d %s %s %d %s %s %d" % (e.kind, e.order, z(e.obj), z(e.off), e.size, z(e.a), z(e.b),
                                             (e.ok & 1) if ok is None else ok)


class CEv:
    """event prepared for Coq: the submit events carry ok = 1 when they are the last of their run"""
    __slots__ = ("e", "ok")

    def __init__(self, e, ok=None):
        self.e, self.ok = e, ok

    def coq(self):
        return coq_ev(self.e, self.ok)

    def brief(self):
        return self.e.brief()


def min_over(points, lo, hi, base_at):
    """points: sorted list of (stamp, delta); value at time x = sum of deltas with stamp < x; min over x in [lo, hi]"""
    v = base_at(lo)
    m = v
    import bisect
    i = bisect.bisect_left(points, (lo, -10))
    while i < len(points) and points[i][0] <= hi:
        v += points[i][1]
        m = min(m, v)
        i += 1
    return m


def analyse(text, label):
    other, per = conc.parse_dump(text)
    fails, traces = [], []
    rounds, stuck, unfired, multi, finals = {}, [], [], [], {}
    for l in other:
        f = l.split()
        if f[0] == "R":
            rounds[int(f[1])] = (int(f[2]), int(f[3]))
        elif f[0] == "Q":
            finals[int(f[1])] = (int(f[2]), int(f[3]))
        elif f[0] == "STUCK":
            stuck.append((int(f[1]), int(f[2]), int(f[3]), f[4]))
            finals.setdefault("incomplete", set()).add(int(f[1]))      # dumped by the watchdog: threads are inside calls
        elif f[0] == "INCOMPLETE":
            finals.setdefault("incomplete", set()).add(int(f[1]))      # the record barrier of the harness gave up (10 s)
        elif f[0] == "UNFIRED":
            unfired.append((int(f[1]), int(f[2])))
        elif f[0] == "MULTI":
            multi.append((int(f[1]), int(f[2]), int(f[3])))
    st = {k: 0 for k in ("rounds", "thread_traces", "events", "enter", "leave_api", "leave_implicit", "leave_to_zero",
                         "leave_loop_cas", "leave_loop_cas_retry", "leave_cleared_after_reenter", "wake_with_notifs",
                         "wake_futex", "submitted", "snapshots_multi", "wait_now", "wait_timed", "wait_forever",
                         "wait_ret0_fast", "wait_ret0_slow", "wait_timeout", "wait_casw_retry", "wait_break_waiters_set",
                         "futex_wait", "futex_eintr", "futex_ewouldblock", "futex_timedout", "wait_deadline_already_passed",
                         "notify", "notify_first_pusher", "notify_behind", "notify_self_fire", "notify_casw_retry",
                         )}
    st["rounds"] = len(rounds)
    byround = {}
    endmark = {}
    for thr, evs in per.items():
        for e in evs:
            rd = e.obj - NQ_BASE if e.obj >= NQ_BASE else e.obj
            if e.kind == 104 and e.a == 99:
                endmark[rd] = e.seq
            byround.setdefault(rd, {}).setdefault(thr, []).append(e)
    for rd in sorted(byround):
        kind, nthr = rounds.get(rd, (-1, 0))
        em = endmark.get(rd, 1 << 62)
        # ---------------- per-thread traces for conformance
        enter_ret, leave_call, enter_call, leave_done = [], [], [], []
        waits, notifs, nruns = [], {}, {}
        submits = []
        for thr, evs0 in byround[rd].items():
            evs = []
            for e in evs0:
                if e.seq > em and e.kind < 100:
                    continue
                if e.obj >= NQ_BASE:
                    if e.kind == 3 and e.b != 0:
                        e.off = OFF_NQ
                        evs.append(e)
                    continue
                evs.append(e)
            if not evs:
                continue
            tr = []
            for i, e in enumerate(evs):
                if e.off == OFF_NQ and e.obj >= NQ_BASE:
                    nxt = evs[i + 1] if i + 1 < len(evs) else None
                    last = not (nxt is not None and nxt.obj >= NQ_BASE)
                    tr.append(CEv(e, 1 if last else 0))
                else:
                    tr.append(CEv(e))
            traces.append((0, tr, rd, thr))
            st["thread_traces"] += 1
            st["events"] += len(tr)
            # ---------------- stamps for the oracle + statistics
            cur = None
            call_idx = 0
            last_add_carry = None
            for i, e in enumerate(evs):
                k = e.kind
                if k == 100:
                    cur = (e.a, e.b, e.seq)
                    call_idx = i
                    if e.a in (1, 5):
                        enter_call.append(e.seq)
                        st["enter"] += 1
                    elif e.a == 2:
                        leave_call.append(e.seq)
                        st["leave_api"] += 1
                    elif e.a == 3:
                        st["wait_now" if e.b == 0 else "wait_forever" if e.b == 18446744073709551615 else "wait_timed"] += 1
                    elif e.a == 4:
                        st["notify"] += 1
                elif k == 101 and cur:
                    if cur[0] in (1, 5):
                        enter_ret.append(e.seq)
                    elif cur[0] == 2:
                        leave_done.append(e.seq)
                    elif cur[0] == 3:
                        waits.append({"call": cur[2], "ret": e.seq, "tmo": cur[1], "rc": e.a, "reached": e.b, "thr": thr})
                        if e.a == 0:      # returned 0 from the rmw loop (count seen at zero) or after the slow path
                            slow = any(x.kind in (32, 1) and x.off == 4 for x in evs[call_idx:i])
                            st["wait_ret0_slow" if slow else "wait_ret0_fast"] += 1
                    elif cur[0] == 4:
                        notifs.setdefault(cur[1], {})["call"] = cur[2]
                    cur = None
                elif k == 102 and e.a == 4:
                    nruns.setdefault(e.b, []).append(e.seq)
                elif k == 103 and e.a == 5:
                    leave_call.append(e.seq)
                elif k == 6 and e.off == 0:
                    if not (cur and cur[0] == 2):
                        leave_done.append(e.seq)
                        st["leave_implicit"] += 1
                    if (e.a & 0xfffffffc) == 0xfffffffc:
                        st["leave_to_zero"] += 1
                        last_add_carry = e.seq
                elif k == 4 and e.off == 0:
                    st["leave_loop_cas"] += 1
                    if not (e.ok & 1):
                        st["leave_loop_cas_retry"] += 1
                    elif e.a & 0xfffffffc:
                        st["leave_cleared_after_reenter"] += 1
                elif k == 3 and e.off == 16 and e.obj < NQ_BASE:
                    if e.b == 0:
                        st["wake_with_notifs"] += 1
                    else:
                        if cur and cur[0] == 4:
                            notifs.setdefault(cur[1], {}).update({"ptr": e.b, "reg": e.seq, "regthr": thr, "regrem": len(evs) - i})
                        st["notify_first_pusher" if e.a == 0 else "notify_behind"] += 1
                elif k == 3 and e.off == OFF_NQ:
                    st["submitted"] += 1
                    submits.append((e.seq, e.b, thr, last_add_carry, "notify" if cur and cur[0] == 4 else "leave"))
                    if i + 1 < len(evs) and evs[i + 1].off == OFF_NQ and evs[i + 1].obj >= NQ_BASE and \
                            not (i > 0 and evs[i - 1].off == OFF_NQ and evs[i - 1].obj >= NQ_BASE):
                        st["snapshots_multi"] += 1
                elif k == 34:
                    st["wake_futex"] += 1
                elif k == 32:
                    st["futex_wait"] += 1
                elif k == 33:
                    st["futex_eintr" if e.b == 4 else "futex_ewouldblock" if e.b == 11 else "futex_timedout" if e.b == 110
                       else "futex_wait"] += 0 if e.b == 0 else 1
                elif k == 5 and e.off == 0 and not (e.ok & 1):
                    st["wait_casw_retry" if cur and cur[0] == 3 else "notify_casw_retry"] += 1
                    if cur and cur[0] == 4 and (e.a & 0xffffffff) == 0:
                        st["notify_self_fire"] += 1
                        last_add_carry = e.seq
                elif k == 1 and e.off == 0 and cur and cur[0] == 4 and (e.a & 0xffffffff) == 0:
                    st["notify_self_fire"] += 1
                    last_add_carry = e.seq
                elif k == 1 and e.off == 0 and cur and cur[0] == 3 and (e.a & 0xfffffffc) and (e.a & 1) and cur[1] != 0:
                    st["wait_break_waiters_set"] += 1
                elif k == 1 and e.off == 4 and i > 0 and evs[i - 1].kind != 33:
                    st["wait_deadline_already_passed"] += 1
        # ---------------- API-level oracle (stamps only)
        import bisect
        er, lc, ec, ld = sorted(enter_ret), sorted(leave_call), sorted(enter_call), sorted(leave_done)
        lb_pts = sorted([(s, 1) for s in er] + [(s, -1) for s in lc])
        ub_pts = sorted([(s, 1) for s in ec] + [(s, -1) for s in ld])

        def lb_at(x):
            return bisect.bisect_left(er, x) - bisect.bisect_left(lc, x)

        def ub_at(x):
            return bisect.bisect_left(ec, x) - bisect.bisect_left(ld, x)
        for w in waits:
            if w["rc"] == 0:
                if min_over(lb_pts, w["call"], w["ret"], lb_at) > 0:
                    fails.append({"key": "%s:round%d:wait-zero-unsound:%d" % (label, rd, w["call"]), "label": label, "round": rd,
                                  "what": "dispatch_group_wait returned 0 (stamps %d..%d, thread %d) although at every moment of "
                                          "the call at least one completed dispatch_group_enter had no dispatch_group_leave even "
                                          "started" % (w["call"], w["ret"], w["thr"])})
            else:
                st["wait_timeout"] += 1
                if not w["reached"]:
                    fails.append({"key": "%s:round%d:wait-nonzero-early:%d" % (label, rd, w["call"]), "label": label, "round": rd,
                                  "what": "dispatch_group_wait(timeout=%d) returned non-zero before the deadline by the library's "
                                          "own clock" % w["tmo"]})
                if -min_over([(s, -d) for (s, d) in ub_pts], w["call"], w["ret"], lambda x: -ub_at(x)) <= 0:
                    fails.append({"key": "%s:round%d:wait-nonzero-empty:%d" % (label, rd, w["call"]), "label": label, "round": rd,
                                  "what": "dispatch_group_wait returned non-zero (stamps %d..%d) although the group was provably "
                                          "empty during the whole call" % (w["call"], w["ret"])})
        for nid, n in notifs.items():
            runs = nruns.get(nid, [])
            if len(runs) > 1:
                fails.append({"key": "%s:round%d:notify-multi:%d" % (label, rd, nid), "label": label, "round": rd,
                              "what": "notification block %d ran %d times" % (nid, len(runs))})
            if runs and "call" in n:
                if min_over(lb_pts, n["call"], runs[0], lb_at) > 0:
                    # whether this is the known defect is decided after the global replay (correspond): the key stays an
                    # instance key unless the round replays completely on Group.gstep and the model run itself submits this very
                    # notification although the count was not zero since its registration
                    fails.append({"key": "%s:round%d:notify-early:%d" % (label, rd, nid),
                                  "label": label, "round": rd, "instance": "%s:round%d:%d" % (label, rd, nid),
                                  "early_candidate": True, "regthr": n.get("regthr"), "regrem": n.get("regrem"),
                                  "what": "a block passed to dispatch_group_notify (call stamp %d) started running at stamp %d "
                                          "although at every moment in between at least one dispatch_group_enter that had returned "
                                          "before had no dispatch_group_leave even started (round kind %d, %d threads)"
                                          % (n["call"], runs[0], kind, nthr)})
        for (r2, nid) in unfired:
            if r2 == rd:
                fails.append({"key": "%s:round%d:notify-left-behind:%d" % (label, rd, nid), "label": label, "round": rd,
                              "what": "notification %d was never run although the group became and stayed empty (10 s without any progress)" % nid})
        for (r2, nid, n) in multi:
            if r2 == rd:
                fails.append({"key": "%s:round%d:notify-multi:%d" % (label, rd, nid), "label": label, "round": rd,
                              "what": "notification block %d ran %d times" % (nid, n)})
        for (r2, k, op, why) in stuck:
            if r2 == rd:
                fails.append({"key": "%s:round%d:stuck:%d" % (label, rd, k), "label": label, "round": rd,
                              "what": "thread %d still blocked in %s after 10 s without any progress (%s): a waiter was left "
                                      "behind" % (k, {31: "dispatch_group_wait(FOREVER)", 32: "dispatch_group_wait(timed)",
                                                      30: "dispatch_group_wait(NOW)"}.get(op, "op %d" % op), why)})
    return fails, traces, st, bool(stuck), finals


INV_PERIOD = 20

def round_order(thr, limit=400000, strict=True):
    """preferred global order of one round: the list of thread ids, one per event, in which GroupR.sched is asked to run the
    round.  It is found by a depth-first search on a sketch of the shared state (dg_state, dg_notify_tail, who sleeps), with the
    recorder's tickets as the preference and backtracking where the ticket order is ambiguous (the word returns to an earlier
    value and two threads have an operation enabled on it).  Pure observations of the word (loads, failed CAS) are taken as soon
    as they are enabled.  FUTEX_WAKE: its note is written before the system call, so the wake takes effect between the note and
    the thread's next event; a futex_wait that returned 0 needs a wake after its own note: when no wake note lies in between, the
    most recent earlier wake still in flight is moved to just after the sleeper's note.
    Real time where it is known exactly is respected: harness-level events (call / return / callout marks) take their ticket
    themselves, so their ticket order is their real order and they are executed in that order; and a notification block starts
    running only after the continuation was submitted (the list is followed in the sketch).  With these two rules the model run
    orders every enter that returned before a dispatch_group_notify call before the registration, and every leave that started
    after the block ran after the submission: whenever the stamp oracle finds a notification early, the model run does too.
    The search only proposes an order: every step is checked by the model in Coq, a wrong proposal can only make the replay fail."""
    import bisect
    M32, M64 = 0xffffffff, (1 << 64) - 1
    wakes, rets, stamp, deps, desig = [], [], {}, {}, {}
    th = {tid: t for (tid, t, _) in thr}
    for tid, t in th.items():
        wnote = None
        for j, c in enumerate(t):
            k = c.e.kind
            stamp[(tid, j)] = c.e.seq
            if k == 34:
                wakes.append({"key": (tid, j), "note": c.e.seq, "next": t[j + 1].e.seq if j + 1 < len(t) else float("inf")})
            elif k == 32:
                wnote = (c.e.seq, j)
            elif k == 33 and c.e.b == 0 and wnote is not None:
                rets.append((wnote[0], c.e.seq, tid, wnote[1]))
    wakes.sort(key=lambda w: w["note"])
    notes = [w["note"] for w in wakes]
    # one wake takes effect at one instant: it must lie after the futex_wait note and before the return of every sleeper it is
    # designated for (lo/hi = the interval still possible for that instant)
    for (w0, r0, xt, xj) in sorted(rets):
        hi = bisect.bisect_left(notes, r0)          # wakes with note < r0
        lo = bisect.bisect_right(notes, w0)         # wakes with note <= w0
        cands = list(range(lo, hi)) + [k for k in range(lo - 1, -1, -1) if wakes[k]["next"] > w0]
        for k in cands:
            w = wakes[k]
            a, b = max(w.get("lo", w["note"]), w0), min(w.get("hi", w["next"]), r0)
            if a < b:
                w["lo"], w["hi"] = a, b
                if w["note"] <= w0:
                    stamp[w["key"]] = max(stamp[w["key"]], w0 + 0.5)
                deps.setdefault(w["key"], []).append((xt, xj))
                desig[(xt, xj + 1)] = w["key"]          # the futex_wait_ret event is the one after the futex_wait note
                break
    fallback = [tid for (_, tid) in sorted((stamp[(tid, j)], tid) for tid, t in th.items() for j in range(len(t)))]

    def cls(e):
        """(class, location): class m = modifies, o = observes, a = always enabled, r = futex return"""
        k, off, grp = e.kind, e.off, e.obj < NQ_BASE
        if k >= 100:
            return "u", None
        if not grp:
            return "a", None
        if off == 0 and k in (6, 7):
            return "m", "w"
        if off == 0 and k in (4, 5):
            return ("m" if e.ok & 1 else "o"), "w"
        if off == 0 and k == 1:
            return "o", "w"
        if off == 4 and k == 1:
            return "o", "g"
        if off == 16 and k == 3:
            return "m", "t"
        if k == 33:
            return "r", None
        if k == 34:
            return "k", None
        return "a", None

    def enabled(e, c, loc, cur, tail, sl):
        if c in ("a", "k"):
            return True
        if c == "r":
            return (not strict or e.b != 0 or sl == "W") and (sl != "N" or e.b == 11)
        if loc == "w":
            return e.a == ((cur & M32) if e.kind == 7 else cur)
        if loc == "g":
            return e.a == (cur >> 32)
        return e.a == tail

    tids = sorted(th)
    gen_of = {}                      # events that observed dg_gen = g (exactly: the value they report)
    for tid, t in th.items():
        for j, c in enumerate(t):
            e = c.e
            if e.obj >= NQ_BASE or e.kind >= 100:
                continue
            if e.off == 0 and e.size == 8 and e.kind in (1, 4, 5, 6):
                gen_of[(tid, j)] = e.a >> 32
            elif e.off == 4 and e.kind == 1:
                gen_of[(tid, j)] = e.a
            elif e.kind == 32 and j + 1 < len(t) and t[j + 1].e.kind == 33 and t[j + 1].e.b != 11:
                gen_of[(tid, j)] = e.a             # the kernel compared dg_gen with this value and found it equal
    genleft = {}
    for g in gen_of.values():
        genleft[g] = genleft.get(g, 0) + 1
    users = sorted((c.e.seq, tid, j) for tid, t in th.items() for j, c in enumerate(t) if c.e.kind >= 100)
    callof = {}
    for tid, t in th.items():
        cc = None
        for j, c in enumerate(t):
            if c.e.kind == 100:
                cc = (c.e.a, c.e.b)
            callof[(tid, j)] = cc
            if c.e.kind == 101:
                cc = None
    X = {"ui": 0, "lst": [], "held": {}, "fired": set()}      # user-event cursor, sketch of the notify list

    def xcopy(x):
        return {"ui": x["ui"], "lst": list(x["lst"]), "held": {k: list(v) for k, v in x["held"].items()}, "fired": set(x["fired"])}

    # a dispatch_group_async_f work item starts running only after the enter of the call that submitted it
    enter_of = {}
    for tid, t in th.items():
        for j, c in enumerate(t):
            if c.e.kind == 100 and c.e.a == 5:
                for j2 in range(j + 1, len(t)):
                    if t[j2].e.kind == 7 and t[j2].e.off == 0:
                        enter_of[c.e.b] = (tid, j2)
                        break
                    if t[j2].e.kind >= 100:
                        break

    def user_ok(tid, j, e):
        if X["ui"] >= len(users) or users[X["ui"]][1:] != (tid, j):
            return False
        if e.kind == 102 and e.a == 5 and e.b in enter_of:
            ct, cj = enter_of[e.b]
            if pos[ct] <= cj:
                return False
        return not (e.kind == 102 and e.a == 4) or e.b in X["fired"]
    pos = {t: 0 for t in tids}
    slp = {t: "A" for t in tids}
    cur, tail, order, steps = 0, 0, [], 0
    stack = []                       # choice points: (alternatives left, saved state)
    total = sum(len(t) for t in th.values())

    def apply(tid):
        nonlocal cur, tail
        e = th[tid][pos[tid]].e
        c, loc = cls(e)
        if c == "m":
            if loc == "w":
                if e.kind == 7:
                    cur = (cur & ~M32 & M64) | ((e.a - e.b) & M32)
                elif e.kind == 6:
                    cur = (e.a + e.b) & M64
                else:
                    cur = e.b
            else:
                tail = e.b
                if e.b:
                    cc = callof.get((tid, pos[tid]))
                    X["lst"].append(cc[1] if cc and cc[0] == 4 else None)
                else:
                    X["held"][tid] = X["lst"]
                    X["lst"] = []
        elif e.obj < NQ_BASE and e.kind == 32:
            slp[tid] = "S" if (cur >> 32) == e.a else "N"
        elif c == "u":
            X["ui"] += 1
        elif e.obj >= NQ_BASE and X["held"].get(tid):
            X["fired"].add(X["held"][tid].pop(0))
        elif e.obj < NQ_BASE and e.kind == 34:
            for u in tids:
                if slp[u] == "S":
                    slp[u] = "W"
        elif c == "r":
            slp[tid] = "A"
        g = gen_of.get((tid, pos[tid]))
        if g is not None:
            genleft[g] -= 1
        pos[tid] += 1
        order.append(tid)

    while len(order) < total:
        steps += 1
        if steps > limit:
            return fallback, False
        # a FUTEX_WAKE takes effect anywhere between its note and the thread's next event: it is held back until a sleeper
        # needs it (a futex_wait that returned 0 is next in some thread the sketch has not woken yet) or until nothing else can
        # move.  Generation barrier (exact): every event that observed generation g precedes the leave that carries g -> g+1
        cands, wk, want, wanted = [], [], False, []
        for t in tids:
            if pos[t] < len(th[t]):
                e = th[t][pos[t]].e
                c, loc = cls(e)
                if c == "k" and strict:
                    wk.append((not all(pos[x] > xj for (x, xj) in deps.get((t, pos[t]), ())), stamp[(t, pos[t])], t))
                elif c == "r" and e.b == 0 and slp[t] == "S" and strict:
                    want = True
                    wanted.append(desig.get((t, pos[t])))
                elif user_ok(t, pos[t], e) if c == "u" else enabled(e, c, loc, cur, tail, slp[t]):
                    if c == "m" and loc == "w" and e.kind == 6 and (e.a & 0xfffffffc) == 0xfffffffc and \
                            genleft.get(e.a >> 32, 0) > 1:
                        continue
                    cands.append((stamp[(t, pos[t])], t, c, loc))
        obs = [x for x in cands if x[2] == "o"]
        if obs:
            apply(min(obs)[1])
            continue
        if wk and want:
            ready = [w for w in wk if not w[0]]
            pick = [w for w in ready if (w[2], pos[w[2]]) in wanted] or ([w for w in ready] if None in wanted else [])
            if pick:
                apply(min(pick)[2])
                continue
        if wk and not cands:
            apply(min(wk)[2])
            continue
        if cands:
            first = min(cands)
            if first[2] == "m":
                alts = sorted(x for x in cands if x[2] == "m" and x[3] == first[3])
                if len(alts) > 1:
                    stack.append(([x[1] for x in alts[1:]], (cur, tail, dict(pos), dict(slp), len(order), xcopy(X))))
            apply(first[1])
            continue
        # dead end: back to the last choice point that has an alternative left
        while stack and not stack[-1][0]:
            stack.pop()
        if not stack:
            return fallback, False
        alts, (cur, tail, p0, s0, n0, x0) = stack[-1]
        pos, slp, X = dict(p0), dict(s0), xcopy(x0)
        for g in genleft:
            genleft[g] = 0
        for (t2, j2), g in gen_of.items():
            if pos[t2] <= j2:
                genleft[g] += 1
        del order[n0:]
        apply(alts.pop(0))
    return order, True


def coq_rounds(name, alltr, allfin, chunk_events=14000, workers=4, timeout=900, period=INV_PERIOD, incomplete=()):
    """alltr: list of (sv, [CEv], round, thread, seed).  One Coq file per chunk of rounds: Group.conform on every thread trace and,
    for every round, GroupR.replay of the whole round on the global model (all threads' events executed on Group.gstep in the
    order of the recorder's stamps).  Returns (conformance results aligned with alltr, dict(mismatches, counts))."""
    import re
    from concurrent.futures import ThreadPoolExecutor
    byround = {}
    for idx, (sv, t, rd, thr, seed) in enumerate(alltr):
        byround.setdefault((seed, rd), []).append((thr + 1, t, idx))
    keys = sorted(byround)
    chunks, cur, n = [], [], 0
    for k in keys:
        ne = sum(len(t) for (_, t, _) in byround[k])
        if cur and n + ne > chunk_events:
            chunks.append(cur)
            cur, n = [], 0
        cur.append(k)
        n += ne
    if cur:
        chunks.append(cur)

    def one(arg):
        ci, part, strict = arg[:3]
        nums, combos = {}, {}

        def z(x):
            if 0 <= x < 256:
                return str(x)
            if x < 0:
                return "(%d)" % x
            if x not in nums:
                nums[x] = "k%d" % len(nums)
            return nums[x]

        def ev(c):
            e = c.e
            ok = (e.ok & 1) if c.ok is None else c.ok
            key = (e.kind, e.order, e.off, e.size, ok)
            if key not in combos:
                combos[key] = "e%d" % len(combos)
            return "%s %s %s" % (combos[key], z(e.a), z(e.b))
        defs, calls = [], []
        for k, key in enumerate(part):
            thr = byround[key]
            qs = ["(%s, [%s])" % (z(tid), "; ".join(ev(c) for c in t)) for (tid, t, _) in thr]
            order, found = round_order(thr, strict=strict)
            defs.append("Definition qs%d : queues := [%s]." % (k, ";\n".join(qs)))
            defs.append("Definition ord%d : list Z := [%s]." % (k, "; ".join(z(tid) for tid in order)))
            calls.append("Eval vm_compute in concat (map (fun q => let '(i, d) := conform (snd q) in [i; d]) qs%d)." % k)
            calls.append("Eval vm_compute in replay inv_b %d %s qs%d ord%d." % (period, "true" if strict else "false", k, k))
        body = ["Definition %s : Z := %d." % (nm, x) for x, nm in nums.items()]
        body += ["Definition %s (a b : Z) := mkEv %d %d 0 %d %d a b %d." % (nm, kk[0], kk[1], kk[2], kk[3], kk[4])
                 for kk, nm in combos.items()]
        limit = arg[3] if len(arg) > 3 else timeout
        ok, vals, raw = driver.coq_eval("%s_%d%s" % (name, ci, "" if strict else "r"), ["Word", "Conc", "Gen_group", "Group", "GroupR", "GroupR_inv"],
                                        "\n".join(body + defs + calls) + "\n", timeout=limit)
        if not ok and "TIMEOUT after" in raw and len(arg) <= 3:
            return ("timeout", arg)       # a wall-clock limit never decides: evaluated again below, alone, with 10x the limit
        if not ok or len(vals) != 2 * len(part):
            raise RuntimeError("coq round evaluation failed: " + raw[-2500:])
        return [(key, driver.ints(vals[2 * k]), driver.ints(vals[2 * k + 1])) for k, key in enumerate(part)]
    res = [None] * len(alltr)
    counts = {"rounds_total": len(keys), "rounds_replayed_on_global_model": 0, "rounds_not_replayed_trace_rejected": 0,
              "rounds_not_replayed_stuck_run": 0, "events_replayed_on_global_model": 0, "replayed_rounds_with_early_notification": 0,
              "invariant_evaluations_false": 0, "early_submissions_in_model_runs": 0,
              "rounds_replayed_only_without_futex_result_check": 0, "rounds_not_replayed_incomplete_record": 0}
    mism, model_early = [], {}
    with ThreadPoolExecutor(max_workers=workers) as ex:
        outs = list(ex.map(one, [(ci, part, True) for ci, part in enumerate(chunks)]))
    results = []
    for o in outs:
        if isinstance(o, tuple) and o and o[0] == "timeout":
            o = one(o[1] + (10 * timeout,))
        results += o
    # rounds that do not replay with "a futex_wait that returned 0 was woken by the model" are tried again without that one
    # requirement (GroupR.kernel_ok): where a FUTEX_WAKE took effect between its note and the waker's next event is not recorded
    again = [key for key, conf, rp in results
             if key not in incomplete and all(conf[2 * j] == -1 and conf[2 * j + 1] == 1 for j in range(len(byround[key]))) and rp[1] != 0]
    relaxed = set()
    if again:
        o2 = one((0, again, False))
        if isinstance(o2, tuple) and o2 and o2[0] == "timeout":
            o2 = one(o2[1] + (10 * timeout,))
        second = {key: (conf, rp) for key, conf, rp in o2}
        results = [(key, conf, second[key][1]) if key in second and second[key][1][1] == 0 else (key, conf, rp)
                   for key, conf, rp in results]
        relaxed = {key for key in second if second[key][1][1] == 0}
    for key, conf, rp in results:
        thr = byround[key]
        allok = True
        for j, (tid, t, idx) in enumerate(thr):
            res[idx] = (conf[2 * j], conf[2 * j + 1])
            if conf[2 * j] != -1 or conf[2 * j + 1] != 1:
                allok = False
        if key in incomplete:
            counts["rounds_not_replayed_incomplete_record"] += 1
            continue
        if not allok:
            counts["rounds_not_replayed_trace_rejected"] += 1
            continue
        nev = sum(len(t) for (_, t, _) in thr)
        (done, left, word, gens, outst, nreg, nql, idle, noslp, fired, early, bad, chk_end, stuck_tid) = rp[:14]
        sep = rp.index(-9999, 14) if -9999 in rp[14:] else len(rp)
        remaining = rp[14:sep]
        early_regs = set(zip(rp[sep + 1::2], rp[sep + 2::2]))     # registration events of the notifications the model submits early
        fin = allfin.get(key)
        problems = []
        if left != 0 or done != nev:
            blocked = []
            for (tid, t, _), rem in zip(thr, remaining):
                if rem:
                    blocked.append({"thread": tid - 1, "next_event": t[len(t) - rem].brief(), "events_left": rem,
                                    "before": [c.brief() for c in t[max(0, len(t) - rem - 3):len(t) - rem]]})
            problems.append({"first_unmatched": blocked[:24], "model_dg_state": word, "model_generations": gens,
                             "model_outstanding": outst, "executed": done, "of": nev})
        elif fin is None:
            counts["rounds_not_replayed_stuck_run"] += 1     # the run ended in the watchdog: reported by the oracle
            continue
        else:
            if word != fin[0] or nreg != fin[1] or not idle or not noslp or outst != 0 or nql != 0:
                problems.append({"final_state": {"model_dg_state": word, "recorded_dg_state": fin[0], "model_registered": nreg,
                                                 "recorded_registered": fin[1], "all_idle": idle, "nobody_asleep": noslp,
                                                 "outstanding": outst, "list_length": nql}})
        if bad != -1 or not chk_end:
            counts["invariant_evaluations_false"] += 1
            problems.append({"invariant_false_after_step": bad, "invariant_on_final_state": chk_end})
        if problems:
            mism.append({"what": "a recorded round is not a run of the global model (Group.gstep): " +
                                 ("an event is never enabled with the recorded outcome" if left else
                                  "the model does not end in the recorded final state / an invariant clause evaluates to false"),
                         "detail": {"seed": key[0], "round": key[1], "problems": problems}})
        else:
            counts["rounds_replayed_on_global_model"] += 1
            counts["rounds_replayed_only_without_futex_result_check"] += key in relaxed
            counts["events_replayed_on_global_model"] += nev
            counts["replayed_rounds_with_early_notification"] += early
            counts["early_submissions_in_model_runs"] += len(early_regs)
            model_early[key] = early_regs
    return res, {"mismatches": mism[:10], "counts": counts, "model_early": model_early}


def fail_kind(key):
    for k in ("stuck", "notify-left-behind", "notify-multi", "notify-early", "wait-zero-unsound", "wait-nonzero-early",
              "wait-nonzero-empty", "harness-died", "no-verdict"):
        if k in key:
            return k
    return key


def judge(ctx, runs, period, name):
    """runs: list of dict(label, key, text, params, requested).  The whole judgement of recorded runs: stamp oracle, trace
    conformance and global replay in Coq, known/unknown decision for early notifications, floors.
    returns dict(fails, mism, total, alltr)"""
    fails, mism, alltr, total, allfin, allinc, byrun = [], [], [], {}, {}, set(), {}
    key_of = {}
    for run in runs:
        label, key, text = run["label"], run["key"], run["text"]
        key_of[label] = key
        f, tr, st, was_stuck, fin = analyse(text, label)
        nE = text.count("\nE ")
        seen = st.get("rounds", 0)
        # floors (no silent pass): an empty or truncated dump is a broken tie
        if nE == 0 or not tr:
            mism.append({"what": "the recorder dump of a run is empty (%d event lines, %d thread traces): nothing was measured"
                                 % (nE, len(tr)), "kind": "floor", "params": run["params"], "detail": {"label": label}})
        elif seen < run["requested"] and not was_stuck:
            mism.append({"what": "the run recorded %d of the %d rounds requested and did not end in the watchdog: truncated output"
                                 % (seen, run["requested"]), "kind": "floor", "params": run["params"], "detail": {"label": label}})
        for x in f:
            x["params"] = run["params"]
        fails += f
        alltr += [(sv, t, rd, thr, key) for (sv, t, rd, thr) in tr]
        for rd in fin.pop("incomplete", ()):
            allinc.add((key, rd))
        for rd, v in fin.items():
            allfin[(key, rd)] = v
        for k, v in st.items():
            total[k] = total.get(k, 0) + v
        byrun[key] = run
    # a trace longer than this cannot come from the scripts of the harness (a thread spinning inside the library): it is
    # reported as a mismatch instead of being fed to Coq
    LIMIT = 6000
    toolong = [x for x in alltr if len(x[1]) > LIMIT]
    alltr = [x for x in alltr if len(x[1]) <= LIMIT]
    for (sv, t, rd, thr, key) in toolong[:5]:
        mism.append({"what": "a recorded thread trace has %d events inside one round (a thread spinning inside the library)" % len(t),
                     "kind": "trace-rejected", "params": byrun[key]["params"],
                     "detail": {"seed": key, "round": rd, "thread": thr, "trace_tail": [e.brief() for e in t[-12:]]}})
    if not alltr:
        return {"fails": fails, "mism": mism, "total": total, "alltr": alltr}
    res, rep = coq_rounds(name, alltr, allfin, period=period, incomplete=allinc)
    if len(res) != len(alltr) or any(x is None for x in res):
        raise RuntimeError("conformance results missing: %d traces, %d results" % (len(alltr), len([x for x in res if x is not None])))
    for (i, idle), (sv, t, rd, thr, key) in zip(res, alltr):
        # a trace that is accepted but does not end outside every call is a mismatch only when the round was recorded
        # completely (the harness dumps a round after its record barrier; a watchdog dump has threads inside calls by design)
        if i != -1 or (idle != 1 and (key, rd) not in allinc):
            lo = max(0, i - 12) if i >= 0 else max(0, len(t) - 20)
            mism.append({"what": "a recorded thread trace of the library is not accepted by the model's thread automaton "
                                 "(Group.tstep): the implementation took a step the model does not have",
                         "kind": "trace-rejected", "params": byrun[key]["params"],
                         "detail": {"seed": key, "round": rd, "thread": thr, "rejected_at": i, "ended_idle": idle,
                                    "trace_window": [e.brief() for e in t[lo:lo + 30]]}})
    for m in rep["mismatches"]:
        m["kind"] = "round-not-replayed"
        m["params"] = byrun[m["detail"]["seed"]]["params"]
    mism += rep["mismatches"]
    for k, v in rep["counts"].items():
        total[k] = total.get(k, 0) + v
    # floors on what the replay actually covered
    nr = rep["counts"]["rounds_total"]
    if rep["counts"]["rounds_replayed_on_global_model"] == 0 and not fails:
        mism.append({"what": "none of the %d recorded rounds was replayed on the global model" % nr, "kind": "floor",
                     "params": runs[0]["params"], "detail": rep["counts"]})
    exc = rep["counts"]["rounds_not_replayed_incomplete_record"] - len([1 for r_ in runs if "STUCK" in r_["text"]])
    if exc > max(1, nr // 100):
        mism.append({"what": "%d of %d rounds were excused as incompletely recorded (record barrier gave up): more than load explains"
                             % (exc, nr), "kind": "floor", "params": runs[0]["params"], "detail": rep["counts"]})
    rel = rep["counts"]["rounds_replayed_only_without_futex_result_check"]
    if rel > max(3, (3 * nr) // 100):
        mism.append({"what": "%d of %d rounds replay only without the futex-result check: more than the unknown effect time of "
                             "FUTEX_WAKE explains" % (rel, nr), "kind": "floor", "params": runs[0]["params"], "detail": rep["counts"]})
    # known or not: an early notification found by the stamp oracle is the known defect exactly when its round replays
    # completely on the global model and the model run itself submits that very notification (identified by its registration
    # event) while the count has not been zero since its registration.  No ticket comparison is involved: the replay respects
    # the exact order of the harness-level marks, so every model run agrees with the oracle on such a notification; an early
    # notification of a round that does not replay, or that the model does not produce, keeps its instance key.
    total.setdefault("notify_early_known_by_model_run", 0)
    total.setdefault("notify_early_not_reproduced_by_model", 0)
    for f in fails:
        if f.get("early_candidate"):
            me = rep["model_early"].get((key_of[f["label"]], f["round"]))
            if me is not None and f.get("regthr") is not None and (f["regthr"] + 1, f["regrem"]) in me:
                f["key"] = "notify-early"
                total["notify_early_known_by_model_run"] += 1
            else:
                f["replayed"] = me is not None
                total["notify_early_not_reproduced_by_model"] += 1
    return {"fails": fails, "mism": mism, "total": total, "alltr": alltr}


def corpus_run(v):
    """the deterministic witness of the notify-early defect, recorded like one round of the stress client"""
    early, out = run_early(v)
    params = {"corpus": v}
    if early is None:
        # the witness program waits for the leave's 64-bit add on dg_state; a library that no longer performs it hangs here
        return early, None, [{"key": "corpus:c07_early-variant%d-no-verdict" % v, "label": "corpus%d" % v, "variant": v,
                              "params": params,
                              "what": "harness/c07_early.c variant %d did not finish: dispatch_group_leave no longer performs "
                                      "the 64-bit atomic add on dg_state the schedule waits for, or a call blocked (%s)"
                                      % (v, out[:200])}]
    return early, {"label": "corpus%d" % v, "key": -1 - v, "text": out, "params": params, "requested": 1}, []


def correspond(ctx):
    try:
        return _correspond(ctx)
    finally:
        _cleanup()


def _correspond(ctx):
    nseeds, rounds = (3, 36) if ctx.tier == "quick" else (24, 60)
    inv_period = INV_PERIOD if ctx.tier == "quick" else 100
    fails, runs, total, notes = [], [], {}, []
    # fixed corpus first: the deterministic witness of the notify-early defect found on the unchanged tree.  It is recorded and
    # judged like a stress round: the oracle must find B early AND the round must replay on the model with the model run
    # submitting B early; only then it is the known finding (the EARLY token of the program is a statistic)
    for v in (0, 1):
        early, run, f = corpus_run(v)
        total["corpus_notify_early_variant%d" % v] = -1 if early is None else early
        fails += f
        if run:
            runs.append(run)
    for i in range(nseeds):
        seed = ctx.seed * 1000 + i
        permille = [0, 150, 400][i % 3]
        params = {"seed": seed, "rounds": rounds, "permille": permille, "period": inv_period}
        try:
            text = run_harness(ctx, seed, rounds, permille)
        except RuntimeError as ex:
            # the stress client died (a trap inside the library, DISPATCH_CLIENT_CRASH / DISPATCH_INTERNAL_CRASH): a failing input
            fails.append({"key": "seed%d:harness-died" % seed, "label": "seed%d" % seed, "round": -1, "params": params,
                          "what": "the stress client did not survive the run (seed %d, %d rounds, perturbation %d permille): %s"
                                  % (seed, rounds, permille, str(ex)[:200])})
            continue
        runs.append({"label": "seed%d" % seed, "key": seed, "text": text, "params": params, "requested": rounds})
    j = judge(ctx, runs, inv_period, "%s_rounds" % TAG)
    fails += j["fails"]
    mism, alltr = j["mism"], j["alltr"]
    total.update(j["total"])
    if not alltr:
        mism.append({"what": "no thread trace was recorded at all: nothing was measured", "kind": "floor",
                     "params": {"seed": ctx.seed * 1000, "rounds": rounds, "permille": 0, "period": inv_period}, "detail": {}})
    # the corpus witness must be found by the oracle and explained by the model: otherwise the known-finding line would rest
    # on the token alone
    for v in (0, 1):
        if total.get("corpus_notify_early_variant%d" % v) == 1 and \
                not any(f["key"] == "notify-early" and f["label"] == "corpus%d" % v for f in fails):
            mism.append({"what": "harness/c07_early.c variant %d reports EARLY 1 but the recorded run is not judged early by the "
                                 "oracle or is not reproduced by the model run" % v, "kind": "corpus", "params": {"corpus": v},
                         "detail": {"failures_of_that_run": [f["key"] for f in fails if f["label"] == "corpus%d" % v]}})
    distinct = len(set(tuple((e.e.kind, e.e.off, e.e.ok & 1) for e in t) for (_, t, _, _, _) in alltr))
    samples = [{"trace": [e.brief() for e in t][:60]} for (_, t, _, _, _) in alltr[:2]]
    slept = [x for x in alltr if any(e.e.kind == 32 for e in x[1])][:2]
    samples += [{"trace": [e.brief() for e in t][:60]} for (_, t, _, _, _) in slept]
    uniq, seen = [], set()
    for f in fails:
        if f["key"] not in seen:
            seen.add(f["key"])
            uniq.append(f)
    return {"evaluations": len(alltr), "distinct_nontrivial": distinct,
            "rule": "rounds of 2..8 threads running random scripts of enter / leave / group_async_f / notify_f / wait(NOW, timed "
                    "50us-5ms, FOREVER) on one group per round (round kinds: random mix; many simultaneous waiters with short "
                    "timeouts expiring while others keep waiting; notify and enter+notify racing the last leave), many generations "
                    "per round, schedule perturbation inside the library's atomic operations (0/15/40 percent of events), SIGUSR1 "
                    "storms without SA_RESTART, a 10 s no-progress watchdog (every wait of the harness is bounded by lack of "
                    "progress, not by elapsed time) and a record barrier at the end of every round (all leaves' atomic adds "
                    "recorded, the group's internal reference count back to its creation value); every per-thread, per-round event "
                    "trace on dg_state / dg_gen / dg_notify_head / dg_notify_tail and on the target queue's dq_items_tail recorded "
                    "by the DISPATCH_VERIF hook (a run of NULL loads from dg_notify_head by one spinning thread written once) is "
                    "replayed through Group.tstep inside Coq; every round is then executed on Group.gstep by GroupR.sched (trace "
                    "inclusion in the global model: this executable replay plus the order search in this file are the tie; the "
                    "theorem behind it only says that what the scheduler executes are model steps); GroupR_inv.inv_b is evaluated "
                    "on every %d-th state and on the final one as a tripwire only (C07_inv_b_true proves it true on every reachable "
                    "state, so it can only fail if proofs and model drift apart); API-level oracle on stamps: wait==0 needs a "
                    "moment in [call, return] where the count could be zero, wait!=0 needs the deadline reached by the library's "
                    "clock and a moment where the count could be non-zero, every notify block runs exactly once and not while an "
                    "enter that returned before the notify call provably had not started to leave, nothing blocked or unfired after "
                    "quiescence; floors: an empty or truncated dump, zero replayed rounds, more than 1%% excused rounds or more "
                    "than 3%% rounds needing the replay without the futex-result check are mismatches; distinct = distinct "
                    "shapes (kind, offset, outcome) of thread traces" % inv_period,
            "samples": samples, "distribution": total, "traces_validated_against_impl": len(alltr),
            "mismatches": mism[:20], "failures": uniq[:20], "notes": notes}


def _rerun(ctx, params, name):
    """re-execute one recorded input with its recorded parameters against the current build and judge it again"""
    if "corpus" in params:
        early, run, f = corpus_run(params["corpus"])
        if run is None:
            return f, []
        j = judge(ctx, [run], INV_PERIOD, name)
        return f + j["fails"], j["mism"]
    try:
        text = run_harness(ctx, params["seed"], params["rounds"], params["permille"])
    except RuntimeError as ex:
        return [{"key": "seed%d:harness-died" % params["seed"], "what": str(ex)[:300]}], []
    j = judge(ctx, [{"label": "seed%d" % params["seed"], "key": params["seed"], "text": text, "params": params,
                     "requested": params["rounds"]}], params.get("period", INV_PERIOD), name)
    return j["fails"], j["mism"]


def replay(ctx, obj):
    """rc 1: a recorded failure / mismatch reproduces on the current build (re-executed with the recorded seed, round count,
    perturbation and invariant period, judged again by the oracle, the automaton and the global replay; the schedule of a
    stress run is not reproducible, so each input is run up to 3 times and kinds are compared, not rounds); rc 0: none
    reproduces; rc 2: nothing could be executed (entries about proofs / translation / build)"""
    try:
        return _replay(ctx, obj)
    finally:
        _cleanup()


def _replay(ctx, obj):
    items = []
    for f in obj.get("failures", []):
        items.append(("failure", fail_kind(f.get("key", "")), f.get("params"), f.get("what", "")))
    not_executable = []
    for b in obj.get("broken", []):
        d = b.get("detail")
        if b.get("what") == "correspondence" and isinstance(d, dict) and d.get("params"):
            items.append(("mismatch", d.get("kind", "mismatch"), d["params"], d.get("what", "")))
        else:
            not_executable.append(b)
    for b in not_executable:
        print("no longer checks (cannot be re-executed here; only a full ./check re-establishes it): %s: %s"
              % (b.get("what"), str(b.get("detail"))[:600]))
    if not items:
        print("nothing in this replay file can be re-executed")
        return 2
    reproduced, executed, cache = 0, 0, {}
    for n, (cls, kind, params, what) in enumerate(items):
        print("recorded %s [%s]: %s" % (cls, kind, what[:300]))
        if not params:
            print("  no parameters recorded with this entry: cannot be re-executed")
            continue
        pk = tuple(sorted(params.items()))
        hit = None
        for attempt in range(3):
            if (pk, attempt) not in cache:
                cache[(pk, attempt)] = _rerun(ctx, params, "%s_replay%d_%d" % (TAG, n, attempt))
            fails, mism = cache[(pk, attempt)]
            executed += 1
            if cls == "failure":
                # an early notification in a replay file is an UNLISTED one: the known finding (key notify-early) is not the same
                cand = [x for x in fails if fail_kind(x.get("key", "")) == kind and
                        not (kind == "notify-early" and x.get("key") == "notify-early")]
            else:
                cand = [x for x in mism if x.get("kind") == kind]
            if cand:
                hit = cand[0]
                break
        if hit:
            reproduced += 1
            print("  REPRODUCES (%s, attempt %d): %s" % (params, attempt + 1, hit.get("what", "")[:300]))
        else:
            print("  does not reproduce (%s, 3 runs with the recorded parameters)" % (params,))
    if executed == 0:
        return 2
    return 1 if reproduced else 0
