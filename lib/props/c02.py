"""C02 — lane property: word-level mechanism theorems over Gen_dqstate (+ site lists) and the stress oracle."""
import lanes

PROPERTIES_FILE = "Properties/Properties_C02.v"
COQ_DEPS = ["Proofs/Lane_iface.vo"]
GEN_MODULES = ["Gen_dqstate", "Gen_lanesites", "Gen_once"]
LEVEL = "proof"
TRUSTED = [
    "PARTIAL: the theorems are about the dq_state transition bodies / atomic site lists translated from the source on every run "
    "(all 2^64 words); no global invariant of the lane protocol over all interleavings is proved; the property itself is decided "
    "on the implementation by the stress oracle reported in this evidence (exploration, not proof)",
    "src2v translator (clang AST -> Gallina), validated on the functions that have differential harnesses (C06, C12, C18)",
]
ASSUMPTIONS = ["the stress oracle explores the schedules the OS and the perturbation hook produce; absence of a failure there is not a proof"]


def correspond(ctx):
    return lanes.run(ctx, "C02")


def replay(ctx, obj):
    return lanes.replay(ctx, obj)
