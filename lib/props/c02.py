"""C02 — lane property: word-level mechanism theorems over Gen_dqstate (+ site lists) and the stress oracle."""
import lanes
import lanewords
from props import c01_slane
from props import c02_mainq
from props import c02_sync

PROPERTIES_FILE = "Properties/Properties_C02.v"
COQ_DEPS = ["Proofs/Lane_iface.vo", "Proofs/SLane_progress.vo", "Proofs/SLane_measure.vo", "Proofs/SLane_realtime.vo"] + ["Model/LaneWords.vo"] + list(c01_slane.COQ_DEPS) + list(c02_mainq.COQ_DEPS)
EXTRA_PROPERTIES_FILES = ["Properties/Properties_C02_slane.v", c01_slane.PROPERTIES_FILE, c02_mainq.PROPERTIES_FILE, c02_sync.PROPERTIES_FILE]
GEN_MODULES = ["Gen_dqstate", "Gen_lanesites", "Gen_once", "Gen_fields", "Gen_mainq"]
LEVEL = "proof"
TRUSTED = [
    "PARTIAL: (a) word-level theorems about the dq_state transition bodies / atomic site lists translated from the source on every "
    "run (all 2^64 words); (b) protocol theorems (Properties_C02_slane.v) over ALL interleavings for one serial lane under "
    "dispatch_async with any number of submitters and drainers (Model/SLane.v, whose dq_state steps are the regenerated bodies; "
    "its list / root-queue steps are hand-modelled); synchronous submission, concurrent and chained queues and pool growth are "
    "outside that model: there the property is decided on the implementation by the stress oracle reported in this evidence "
    "(exploration, not proof)",
    "src2v translator (clang AST -> Gallina), validated on the functions that have differential harnesses (C06, C12, C18)",
]
TRUSTED += ["word-transition conformance (lib/lanewords.py, Model/LaneWords.v): every dq_state compare-and-swap attempt, single atomic "
            "operation and give-up recorded in the stress runs is judged against the generated Gen_dqstate body of its source line "
            "(parameter domains of lib/lanewords.py param_domain are trusted); it ties Gen_dqstate to the running code, it does not judge the property"]
ASSUMPTIONS = ["the stress oracle explores the schedules the OS and the perturbation hook produce; absence of a failure there is not a proof"]
TRUSTED += ["serial-lane trace conformance and global replay (Properties_C01_slanet.v, lib/props/c01_slane.py): " + t for t in c01_slane.TRUSTED]
ASSUMPTIONS += list(c01_slane.ASSUMPTIONS)


def correspond(ctx):
    return lanes.merge([lanes.run_part("lanes", lambda c: lanes.run(c, "C02"), ctx),
                        lanes.run_part("words", lambda c: lanewords.run(c, "C02"), ctx),
                        lanes.run_part("slane", lambda c: c01_slane.correspond(c, tag="c02_slane"), ctx),
                        lanes.run_part("mainq", c02_mainq.correspond, ctx),
                        lanes.run_part("sync_order", lambda c: c02_sync.correspond(c, tag="c02s"), ctx)])


def replay(ctx, obj):
    return lanes.replay_parts(ctx, obj, {"lanes": lanes.replay, "words": lanewords.replay, "slane": c01_slane.replay, "mainq": c02_mainq.replay, "sync_order": c02_sync.replay})

TRUSTED += ["main queue (Properties_C02_mainq.v, lib/props/c02_mainq.py): " + t for t in c02_mainq.TRUSTED]
ASSUMPTIONS += list(c02_mainq.ASSUMPTIONS)

COQ_DEPS += [d for d in c02_sync.COQ_DEPS if d not in COQ_DEPS]
GEN_MODULES += [m for m in c02_sync.GEN_MODULES if m not in GEN_MODULES]
TRUSTED += ["order across submission kinds (Properties_C02_sync.v, lib/props/c02_sync.py): " + t for t in c02_sync.TRUSTED]
ASSUMPTIONS += list(c02_sync.ASSUMPTIONS)
