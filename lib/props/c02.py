"""C02 — lane property: word-level mechanism theorems over Gen_dqstate (+ site lists) and the stress oracle."""
import re
import common
import lanes
import lanewords
from props import c01_slane
from props import c02_mainq
from props import c02_sync

PROPERTIES_FILE = "Properties/Properties_C02.v"
COQ_DEPS = ["Proofs/Lane_iface.vo", "Proofs/SLane_progress.vo", "Proofs/SLane_measure.vo", "Proofs/SLane_realtime.vo"] + ["Model/LaneWords.vo"] + list(c01_slane.COQ_DEPS) + list(c02_mainq.COQ_DEPS)
EXTRA_PROPERTIES_FILES = ["Properties/Properties_C02_slane.v", c01_slane.PROPERTIES_FILE, c02_mainq.PROPERTIES_FILE, c02_sync.PROPERTIES_FILE]
GEN_MODULES = ["Gen_dqstate", "Gen_lanesites", "Gen_once", "Gen_fields", "Gen_mainq"]
LEVEL = "proof"
TRUSTED = [
    "PARTIAL: (a) word-level theorems about the dq_state transition bodies / atomic site lists translated from the source on every "
    "run (all 2^64 words); (b) protocol theorems (Properties_C02_slane.v) over ALL interleavings for one serial lane under "
    "dispatch_async with any number of submitters and drainers (Model/SLane.v, whose dq_state steps are the regenerated bodies; "
    "its list / root-queue steps are hand-modelled); synchronous submission, concurrent and chained queues and pool growth are "
    "outside that model: there the property is decided on the implementation by the stress oracle reported in this evidence "
    "(exploration, not proof)",
    "src2v translator (clang AST -> Gallina), validated on the functions that have differential harnesses (C06, C12, C18)",
]
TRUSTED += ["word-transition conformance (lib/lanewords.py, Model/LaneWords.v): every dq_state compare-and-swap attempt, single atomic "
            "operation and give-up recorded in the stress runs is judged against the generated Gen_dqstate body of its source line "
            "(parameter domains of lib/lanewords.py param_domain are trusted); it ties Gen_dqstate to the running code, it does not judge the property"]
ASSUMPTIONS = ["the stress oracle explores the schedules the OS and the perturbation hook produce; absence of a failure there is not a proof"]
TRUSTED += ["serial-lane trace conformance and global replay (Properties_C01_slanet.v, lib/props/c01_slane.py): " + t for t in c01_slane.TRUSTED]
ASSUMPTIONS += list(c01_slane.ASSUMPTIONS)


OVERTAKE_PAT = (r"OVERTAKE (\w+) o_held=(\d) u_held=(\d) idle=(\d+) state_locked=(\d+) state_after_x2=(\d+) state_before_sync=(\d+) "
                r"b_ran=(\d) b_ran_before_x2=(\d)")
OVERTAKE_FINALS = [("sync", "dispatch_sync_f"), ("barrier_sync", "dispatch_barrier_sync_f"), ("async_and_wait", "dispatch_async_and_wait_f"),
                   ("barrier_async_and_wait", "dispatch_barrier_async_and_wait_f")]


def overtake_run(exe, final):
    """one forced schedule (harness/c04_overtake.c, serial queue) ending in the given synchronous call, retried like lib/props/c04.py:
    returns (run result, match, schedule reached, overtaken)"""
    r, m, reached = None, None, False
    for attempt in range(5):
        r = common.run([exe, "serial", final], timeout=300 if attempt < 4 else 3000)
        m = re.search(OVERTAKE_PAT, r.stdout)
        reached = bool(m) and r.returncode == 0 and m.group(2) == "1" and m.group(3) == "1" and m.group(4) == m.group(7)
        if reached or (m and m.group(9) == "1"):
            break
    return r, m, reached, bool(m) and m.group(9) == "1"


def overtake_part(ctx):
    """the tail test in front of every synchronous fast path is a plain read (no atomic site, no generated body): run the fixed overtake
    schedule of libdispatch 43b9c73 with each synchronous submission API as the final call of the thread that enqueued x2"""
    exe, msg = common.build_harness("c04_overtake", ["c04_overtake.c"], whitebox=True, extra=["-I" + common.VERIF + "/harness"])
    if exe is None:
        return {"evaluations": 0, "failures": [], "mismatches": [{"what": "overtake schedule: harness build failed", "detail": msg[-1500:]}]}
    fails, mism, n, dist = [], [], 0, {}
    for final, api in OVERTAKE_FINALS:
        r, m, reached, overtaken = overtake_run(exe, final)
        argv = ["serial", final]
        if r.returncode != 0 or not m:
            mism.append({"what": "overtake schedule did not run", "detail": {"argv": argv, "output": (r.stdout + r.stderr)[-800:]}})
            continue
        if not reached and not overtaken:
            mism.append({"what": "overtake schedule (idle word with two items queued) was not established in 5 attempts, so the order of %s "
                                 "after earlier submissions of the same thread was not exercised in this run" % api,
                         "detail": {"argv": argv, "output": r.stdout[-400:]}})
            continue
        n += 1
        dist[final] = "overtaken" if overtaken else "waited"
        if m.group(8) != "1":
            mism.append({"what": "overtake schedule: the synchronous item never ran", "detail": {"argv": argv, "output": r.stdout[-400:]}})
        if overtaken:
            fails.append({"key": "C02:overtake:serial:" + final,
                          "what": "a synchronous submission (%s) overtook items the same thread had submitted earlier and whose submission had returned" % api,
                          "scenario": "overtake", "argv": argv, "output": r.stdout.strip()[-400:]})
    return {"evaluations": n, "distinct_nontrivial": n, "failures": fails, "mismatches": mism, "distribution": dist,
            "rule": "fixed schedule (harness/c04_overtake.c, serial queue; a worker held before its unlock, an enqueuer held after its tail "
                    "exchange, the word idle with x1, x2 queued): the final synchronous call of x2's thread, for each of %s, must not run its "
                    "item before x2" % ", ".join(a for _, a in OVERTAKE_FINALS)}


def overtake_replay(ctx, obj):
    """re-run the recorded argv: 1 reproduces, 0 does not, 2 could not be executed"""
    exe, msg = common.build_harness("c04_overtake", ["c04_overtake.c"], whitebox=True, extra=["-I" + common.VERIF + "/harness"])
    if exe is None:
        print("overtake: harness build failed:", msg[-400:])
        return 2
    rcs = []
    entries = list(obj.get("failures", [])) + [b.get("detail", {}).get("detail", {}) for b in obj.get("broken", [])]
    for e in entries:
        argv = e.get("argv") if isinstance(e, dict) else None
        if not (isinstance(argv, list) and len(argv) == 2 and argv[1] in dict(OVERTAKE_FINALS)):
            rcs.append(2)
            continue
        r, m, reached, overtaken = overtake_run(exe, argv[1])
        print("overtake replay", argv, (r.stdout.strip() or r.stderr.strip())[-300:])
        rcs.append(1 if overtaken else (0 if reached else 2))
    return 1 if 1 in rcs else (2 if 2 in rcs or not rcs else 0)


def correspond(ctx):
    return lanes.merge([lanes.run_part("lanes", lambda c: lanes.run(c, "C02"), ctx),
                        lanes.run_part("overtake", overtake_part, ctx),
                        lanes.run_part("words", lambda c: lanewords.run(c, "C02"), ctx),
                        lanes.run_part("slane", lambda c: c01_slane.correspond(c, tag="c02_slane"), ctx),
                        lanes.run_part("mainq", c02_mainq.correspond, ctx),
                        lanes.run_part("sync_order", lambda c: c02_sync.correspond(c, tag="c02s"), ctx)])


def replay(ctx, obj):
    return lanes.replay_parts(ctx, obj, {"lanes": lanes.replay, "overtake": overtake_replay, "words": lanewords.replay, "slane": c01_slane.replay, "mainq": c02_mainq.replay, "sync_order": c02_sync.replay})

TRUSTED += ["overtake part (harness/c04_overtake.c): the tail test in front of the synchronous fast paths is a plain read, tied to the source "
            "only by the fixed schedule run with each of dispatch_sync_f, dispatch_barrier_sync_f, dispatch_async_and_wait_f and "
            "dispatch_barrier_async_and_wait_f as the final call on a serial queue (one schedule per API, not a proof over schedules)"]
TRUSTED += ["main queue (Properties_C02_mainq.v, lib/props/c02_mainq.py): " + t for t in c02_mainq.TRUSTED]
ASSUMPTIONS += list(c02_mainq.ASSUMPTIONS)

COQ_DEPS += [d for d in c02_sync.COQ_DEPS if d not in COQ_DEPS]
GEN_MODULES += [m for m in c02_sync.GEN_MODULES if m not in GEN_MODULES]
TRUSTED += ["order across submission kinds (Properties_C02_sync.v, lib/props/c02_sync.py): " + t for t in c02_sync.TRUSTED]
ASSUMPTIONS += list(c02_sync.ASSUMPTIONS)
