"""C16 — cancelling a source stops its handler and runs the cancel handler once.
   Model/SrcLife.v (hand: invoke2 phases, wakeup, cancel / cancel_and_wait, global interleaving model, trace monitor);
   Gen_srclife (generated: the rmw loops on dq_atomic_flags of source.c, DSF_* constants, atomic sites)."""
import time

import common
import conc
import driver
from props import c16r

PROPERTIES_FILE = "Properties/Properties_C16.v"
COQ_DEPS = ["Proofs/SrcLife_phase_proofs.vo", "Proofs/SrcLife_proofs.vo", "Proofs/SrcLife_mon_proofs.vo", "Proofs/SrcLifeR_proofs.vo"]
GEN_MODULES = ["Gen_srclife"]
LEVEL = "proof"
COQ_TIMEOUT = 1500
TRUSTED = [
    "Model/SrcLife.v is hand-written (phases of _dispatch_source_invoke2 cut at its reads of dq_atomic_flags and at the callouts, "
    "_dispatch_source_wakeup, cancel, cancel_and_wait, event delivery in two halves); tied by (a) the generated rmw bodies of "
    "Gen_srclife on dq_atomic_flags (interface lemmas over every 32-bit word, C16_*_is_source), (b) the generated atomic-site lists "
    "of _dispatch_source_invoke2 (43 sites cut into the model's program points), _dispatch_source_wakeup, dispatch_source_cancel, "
    "dispatch_source_cancel_and_wait, finalize_unregistration and refs_unregister (C16_sites_match_source), (c) per-thread conformance "
    "of every recorded trace of dq_atomic_flags events + callout marks against SrcLife.mon_step inside Coq; the monitor accepts every "
    "step of the model (C16_monitor_accepts_model), the converse is not claimed, (d) the replay of every recorded round on "
    "SrcLife.gstep (C16_replay_reach, C16_inv_b_sound), (e) the API-level oracle on the same stress runs",
    "the theorems are invariants of every reachable state of SrcLife.gstep (any number of threads, any interleaving of cancel / "
    "cancel_and_wait / events / hang-up / release / activation / invoke phases); what they do not cover: that the lane layer "
    "performs the invokes _dispatch_source_wakeup asks for (C01) and that the kernel delivers events (liveness)",
    "finalize_unregistration's flag update and its futex wake are one model step; cancel_and_wait's try-lock is an oracle input",
    "global replay (Model/SrcLifeR.v, C16_replay_reach / C16_inv_b_sound): every recorded round is executed on SrcLife.gstep itself; "
    "the order of the observations is the recorder's stamps corrected by the exact old->new chain of dq_atomic_flags (a wrong "
    "order can only make a replay fail); reads of ds_handler / ds_pending_data / du_state are not observations (writes are); the "
    "values the model does not compute (orc) are chosen by the scheduler from a short list per program point",
    "drain lock of the source abstracted as one owner at a time; serial exclusion of the target queue assumed (C02)",
    "handlers are installed before activation and not replaced afterwards",
]
ASSUMPTIONS = ["Linux/epoll event backend: no direct knotes (unregistration always succeeds, DSF_NEEDS_EVENT never set)",
               "liveness verdicts (cancel handler ran, source on the reused descriptor fired) use a 20 s bound"]

TYPES = ["timer", "data_add", "read", "write", "signal"]
SCENS = ["pre_activate", "post_activate", "from_handler", "from_target_item", "other_thread", "twice", "cancel_and_wait",
         "cancel_and_wait_pre", "caw_plus_second", "after_hangup", "while_suspended", "from_registration_handler"]
CANCELED, WAITER, NEEDS_EVENT, DELETED = 1 << 28, 1 << 29, 1 << 30, 1 << 31


def run_harness(seed, rounds, permille, first=-1, timeout=600):
    exe, msg = common.build_harness("c16_cancel", ["c16_cancel.c"], whitebox=True, extra=["-I" + common.VERIF + "/harness"])
    if exe is None:
        raise RuntimeError("harness build failed: " + msg)
    r = common.run([exe, str(seed), str(rounds), str(permille), str(first)], timeout=timeout)
    if r.returncode != 0:
        return r.stdout, "harness exited with rc=%s: %s" % (r.returncode, (r.stderr or "")[-800:])
    return r.stdout, None


def analyse(text, label, seed, permille):
    other, per = conc.parse_dump(text)
    fails, traces, stats = [], [], {}
    rounds = {}
    for l in other:
        f = l.split()
        if f and f[0] == "R":
            d = {"id": int(f[1])}
            for kv in f[2:]:
                k, v = kv.split("=")
                d[k] = int(v)
            rounds[d["id"]] = d
    by = {}
    for thr, evs in per.items():
        for e in evs:
            by.setdefault(e.obj // 8, {}).setdefault(thr, []).append(e)

    def bump(k, n=1):
        stats[k] = stats.get(k, 0) + n

    def fail(rd, kind, what):
        d = rounds[rd]
        fails.append({"key": "%s:%s:%s:%s" % (label, TYPES[d["type"]], SCENS[d["scen"]], kind),
                      "what": "%s source, cancel %s (perturbation %d permille): %s" % (TYPES[d["type"]], SCENS[d["scen"]], permille, what),
                      "seed": seed, "permille": permille, "code": d["type"] * 100 + d["scen"], "round": rd})

    for rd, d in sorted(rounds.items()):
        bump("rounds")
        bump("type_" + TYPES[d["type"]])
        bump("scen_" + SCENS[d["scen"]])
        thr_ev = by.get(rd, {})
        allev = sorted((e for evs in thr_ev.values() for e in evs), key=lambda e: e.seq)
        user = [e for e in allev if e.obj % 8 == 0 and e.kind >= 100]
        end = [e.seq for e in user if e.kind == 104 and e.a == 99]
        endseq = end[0] if end else 1 << 62
        ehb = [e for e in user if e.kind == 102 and e.a == 0]
        ehe = [e for e in user if e.kind == 103 and e.a == 0]
        chb = [e for e in user if e.kind == 102 and e.a == 1]
        canc_call = [e for e in user if e.kind == 100 and e.a == 1]
        canc_ret = [e for e in user if e.kind == 101 and e.a == 1]
        caw_ret = [e for e in user if e.kind == 101 and e.a == 2]
        bump("handler_runs", len(ehb))
        # --- handler runs on the target queue
        if any(e.b != 1 for e in ehb):
            fail(rd, "eh-queue", "an event handler invocation did not run on the source's target queue")
        # --- cancel from the handler / from an item on the serial target queue: nothing starts afterwards
        for c in canc_call:
            if c.b in (1, 2):
                late = [e for e in ehb if e.seq > c.seq]
                if late:
                    fail(rd, "eh-after-serial-cancel", "the event handler was invoked again (%d times) after dispatch_source_cancel "
                         "was called from %s" % (len(late), "its own handler" if c.b == 1 else "an item on its serial target queue"))
        # --- cancel from elsewhere: a start whose predecessor ended after the cancel returned read the flag after the set
        rets = [e.seq for e in canc_ret] + [e.seq for e in caw_ret]
        if rets:
            c = min(rets)
            after = [e for e in ehb if e.seq > c]
            if after:
                bump("starts_after_cancel_returned", len(after))
            for b in ehb:
                prev_end = [x.seq for x in ehe if x.seq < b.seq]
                if prev_end and max(prev_end) > c:
                    fail(rd, "eh-after-cancel", "an event handler invocation started although the previous one had ended after "
                         "dispatch_source_cancel had already returned (it cannot have been committed before the cancel)")
                    break
            if len(after) > 1:
                fail(rd, "eh-after-cancel-2", "%d event handler invocations started after dispatch_source_cancel returned" % len(after))
        # --- cancel_and_wait: when it returns no handler is running and none starts
        for c in caw_ret:
            if any(e.seq > c.seq for e in ehb):
                fail(rd, "eh-after-caw", "the event handler was invoked after dispatch_source_cancel_and_wait returned")
            for b in ehb:
                if b.seq < c.seq:
                    ends = [x.seq for x in ehe if x.seq > b.seq and x.thr == b.thr]
                    if not ends or min(ends) > c.seq:
                        fail(rd, "eh-during-caw-return", "dispatch_source_cancel_and_wait returned while the event handler was still running")
                        break
        # --- cancel handler: exactly once, on the target queue, after the last event handler end, nothing after it
        if d["has_ch"]:
            if d["ch_runs"] != 1 or len(chb) != 1:
                fail(rd, "ch-count", "the cancellation handler ran %d times (expected exactly once)%s" %
                     (d["ch_runs"], "; not within 20 s" if d["timeouts"] & 1 else ""))
            if chb:
                c = chb[0]
                if c.b != 1 or d["ob_ontq"] != 1:
                    fail(rd, "ch-queue", "the cancellation handler did not run on the source's target queue")
                if any(e.seq > c.seq for e in ehb):
                    fail(rd, "eh-after-ch", "the event handler was invoked after the cancellation handler")
                if any(e.seq > c.seq for e in ehe):
                    fail(rd, "ch-before-eh-end", "the cancellation handler started before the last event handler invocation had returned")
        # --- state promised at the cancel handler / at cancel_and_wait's return
        if (d["has_ch"] and chb) or not d["has_ch"]:
            if d["ob_flags_ok"] != 1:
                fail(rd, "not-deleted", "at the cancellation point (cancel handler / return of cancel_and_wait) dq_atomic_flags = %#x: "
                     "CANCELED and DELETED are not both set" % d["ob_flags"])
            if d["ob_du0"] != 1:
                fail(rd, "still-registered", "at the cancellation point the unote is still registered (du_state != 0)")
            if d["ob_mon"] == 1:
                fail(rd, "still-monitored", "at the cancellation point the descriptor is still in the library's epoll set")
            if d["ob_mon"] == 0:
                bump("epoll_checked")
        if d["reuse"] == 0:
            fail(rd, "reuse", "a new source on the descriptor number closed and reused in the cancellation handler never fired")
        if d["reuse"] == 1:
            bump("descriptor_reused")
        # --- convergence: one final state whatever the scenario
        ff = d["final_flags"]
        if d["timeouts"] & 2 or not (ff & CANCELED) or not (ff & DELETED) or (ff & (WAITER | NEEDS_EVENT)) or d["h0"] or d["h1"] or d["h2"] \
                or d["du_state"] != 0:
            fail(rd, "final-state", "final state differs: flags=%#x handler slots=%d%d%d du_state=%d (expected CANCELED|DELETED, no "
                 "waiter/needs-event bit, slots released, unregistered)" % (ff, d["h0"], d["h1"], d["h2"], d["du_state"]))
        # --- white-box record: cancel-handler slot taken non-null at most once
        takes = [e for e in allev if e.obj % 8 == 1 and e.kind == 3 and e.off == 8 and e.a != 0 and e.b == 0 and e.seq < endseq]
        if len(takes) > 1:
            fail(rd, "slot-taken-twice", "the cancel handler slot was taken non-NULL %d times" % len(takes))
        # --- per-thread traces for the monitor: events on dq_atomic_flags and marks, up to the end mark
        sv = (2 if d["type"] == 0 else 0) + (1 if d["type"] == 1 else 0)
        for thr, evs in thr_ev.items():
            tr = [e for e in evs if e.obj % 8 == 0 and e.seq < endseq and e.off == 0]
            if tr:
                traces.append((sv, tr, rd, thr))
                bump("flag_writes", sum(1 for e in tr if e.kind in (4, 5, 9) and (e.ok & 1)))
                bump("cas_failures", sum(1 for e in tr if e.kind in (4, 5) and not (e.ok & 1)))
                bump("futex_waits", sum(1 for e in tr if e.kind == 32))
                bump("futex_wakes", sum(1 for e in tr if e.kind == 34))
    return fails, traces, stats, rounds


def correspond(ctx):
    plan = [(0, 60), (150, 120), (400, 60)] if ctx.tier == "quick" else [(0, 240), (150, 480), (400, 240), (80, 240)]
    fails, mism, alltr, total = [], [], [], {}
    jobs, jobinfo = [], []
    for i, (permille, rounds) in enumerate(plan):
        seed = ctx.seed * 1000 + i
        text, err = run_harness(seed, rounds, permille)
        if err:
            fails.append({"key": "seed%d:crash" % seed, "what": "stress run died (seed %d, perturbation %d): %s" % (seed, permille, err),
                          "seed": seed, "permille": permille, "code": -1})
        f, tr, st, rds = analyse(text, "p%d" % permille, seed, permille)
        fails += f
        alltr += [(sv, t, rd, thr, seed) for (sv, t, rd, thr) in tr]
        # the rounds as inputs of the global replay
        other, per = conc.parse_dump(text)
        mgr = [int(l.split()[1]) for l in other if l.startswith("MGR")]
        by = {}
        for thr, evs in per.items():
            for e in evs:
                by.setdefault(e.obj // 8, {}).setdefault(thr, []).append(e)
        for rd in sorted(rds):
            j = c16r.build(rds[rd], by.get(rd, {}), mgr[0] if mgr else -1) if not err else None
            if j is None:
                total["rounds_without_replay_input"] = total.get("rounds_without_replay_input", 0) + 1
                if not err:
                    mism.append({"what": "the recorded writes of dq_atomic_flags of a round do not form one old->new chain (or the round has no marks)",
                                 "detail": {"seed": seed, "round": rd}})
                continue
            jobs.append(j)
            jobinfo.append((seed, permille, rds[rd]))
        for k, v in st.items():
            total[k] = total.get(k, 0) + v
    res = conc.coq_conform("c16_conf", ["Word", "Conc", "Gen_srclife", "SrcLife"], "conform", [(sv, t) for (sv, t, _, _, _) in alltr])
    for (i, idle), (sv, t, rd, thr, seed) in zip(res, alltr):
        if i != -1 or idle != 1:
            mism.append({"what": "a recorded thread trace of dq_atomic_flags events / callouts is not accepted by the model's monitor "
                         "(SrcLife.mon_step): the library did something the model does not allow",
                         "detail": {"seed": seed, "round": rd, "thread": thr, "rejected_at": i, "pending_wake": 1 - idle,
                                    "trace": [e.brief() for e in t][max(0, i - 8):i + 3]}})
    # global replay: every round as a run of SrcLife.gstep
    t0 = time.time()
    rres = c16r.coq_replay("c16_replay", jobs)
    rp = {"rounds_replayed_as_SrcLife_runs": 0, "model_acts_replayed": 0, "observations_replayed": 0, "rounds_with_late_start_replayed": 0}
    for j, (seed, permille, rdd), res in zip(jobs, jobinfo, rres):
        ok, det = c16r.judge(j, rdd, res)
        if ok:
            rp["rounds_replayed_as_SrcLife_runs"] += 1
            rp["model_acts_replayed"] += det["acts"]
            rp["observations_replayed"] += len(j["order"])
            rp["rounds_with_late_start_replayed"] += 1 if det["late_starts"] else 0
        else:
            det.update({"seed": seed, "permille": permille, "round": j["id"], "type": TYPES[rdd["type"]], "cancel": SCENS[rdd["scen"]]})
            mism.append({"what": "a recorded round is not reproduced as a run of the global model SrcLife.gstep (Model/SrcLifeR.v): " + det.get("what", ""),
                         "detail": det})
    rp["replay_seconds"] = round(time.time() - t0, 1)
    total.update(rp)
    # one failure per distinct key
    seen, uniq = set(), []
    for f in fails:
        if f["key"] not in seen:
            seen.add(f["key"])
            uniq.append(f)
    distinct = len(set(tuple((e.kind, e.ok & 1) for e in t) for (_, t, _, _, _) in alltr))
    samples = [{"kind_bits": sv, "trace": [e.brief() for e in t][:30]} for (sv, t, _, _, _) in alltr[:4]]
    return {"evaluations": len(alltr), "distinct_nontrivial": distinct,
            "rule": "stress rounds through the public API: one source per round (timer, DATA_ADD, read pipe, write pipe, signal) on a "
                    "fresh serial target queue with a queue-specific marker, events fed continuously, cancel injected at each "
                    "life-cycle point (before activate, right after, from the handler, from an item on the target queue, from another "
                    "thread, twice, cancel_and_wait, cancel_and_wait before activation, two cancel_and_wait / cancel callers, after "
                    "peer hang-up, while suspended), perturbation 0/15/40 percent inside the library's atomic operations; oracle on "
                    "stamps (handler starts vs cancel call/return, cancel handler exactly once / on the target queue / after the last "
                    "handler end / nothing after it), white-box state at the cancellation point (CANCELED|DELETED, du_state 0, "
                    "descriptor absent from the epoll set via /proc/self/fdinfo, descriptor closed and its number reused by a new "
                    "source that must fire), one final state; every per-thread trace of dq_atomic_flags events + callout marks is "
                    "replayed through SrcLife.mon_step inside Coq; every round (all threads, all five tracked words) is replayed as a run of "
                    "the global model by SrcLifeR.sched inside Coq and the boolean invariant inv_b is evaluated on its end state; "
                    "distinct = distinct trace shapes",
            "samples": samples, "distribution": total, "traces_validated_against_impl": len(alltr),
            "mismatches": mism[:20], "failures": uniq[:20]}


def replay(ctx, obj):
    rc = 0
    for f in obj.get("failures", []):
        print("recorded failure:", f.get("what"))
        code = f.get("code", -1)
        text, err = run_harness(f.get("seed", 1), 30, f.get("permille", 150), first=code)
        if err:
            print("  re-run:", err)
            rc = 1
            continue
        f2, _, _, _ = analyse(text, "replay", f.get("seed", 1), f.get("permille", 150))
        print("  re-run of 30 rounds of that configuration: %d failing checks" % len(f2))
        for x in f2[:5]:
            print("    ", x["what"])
        if f2:
            rc = 1
    for b in obj.get("broken", []):
        print("no longer checks:", b)
        rc = 1
    return rc
