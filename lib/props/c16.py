"""C16 — cancelling a source stops its handler and runs the cancel handler once.
   Model/SrcLife.v (hand: invoke2 phases, wakeup, cancel / cancel_and_wait, global interleaving model, trace monitor);
   Gen_srclife (generated: the rmw loops on dq_atomic_flags of source.c, DSF_* constants, atomic sites)."""
import glob
import json
import os
import time

import common
import conc
import driver
from props import c16r

PROPERTIES_FILE = "Properties/Properties_C16.v"
COQ_DEPS = ["Proofs/SrcLife_phase_proofs.vo", "Proofs/SrcLife_proofs.vo", "Proofs/SrcLife_mon_proofs.vo", "Proofs/SrcLifeR_proofs.vo"]
GEN_MODULES = ["Gen_srclife"]
LEVEL = "proof"
COQ_TIMEOUT = 1500
TRUSTED = [
    "Model/SrcLife.v is hand-written (phases of _dispatch_source_invoke2 cut at its reads of dq_atomic_flags and at the callouts, "
    "_dispatch_source_wakeup, cancel, cancel_and_wait, event delivery in two halves); tied by (a) the generated rmw bodies of "
    "Gen_srclife on dq_atomic_flags (interface lemmas over every 32-bit word, C16_*_is_source), (b) per-thread conformance "
    "of every recorded trace of dq_atomic_flags events + callout marks against SrcLife.mon_step inside Coq; the monitor accepts every "
    "step of the model (C16_monitor_accepts_model), the converse is not claimed, (c) the matching of every recorded round against "
    "SrcLife.gstep by the executable, unproved scheduler SrcLifeR.sched, (d) the API-level oracle on the same stress runs",
    "C16_sites_match_source is a source-drift guard, not a tie of behaviour: the generated atomic-site lists of _dispatch_source_invoke2 "
    "(43 sites), _dispatch_source_wakeup, dispatch_source_cancel, dispatch_source_cancel_and_wait, finalize_unregistration and "
    "refs_unregister are compared with a hand-written annotation table (SrcLife.phase_sites) that phase / gstep / mon_step do not use",
    "the theorems are safety statements: 'exactly once' = at most once, and once the slot of a cancelled source is released the "
    "count is 1; 'every sleeper is woken' = the step that sets DELETED empties the sleeper set (flag update and wake are one "
    "model step); 'converges' = all terminal states of a cancelled source are equal; that they are reached is not stated",
    "the theorems are invariants of every reachable state of SrcLife.gstep (any number of threads, any interleaving of cancel / "
    "cancel_and_wait / events / hang-up / release / activation / invoke phases); what they do not cover: that the lane layer "
    "performs the invokes _dispatch_source_wakeup asks for (C01) and that the kernel delivers events (liveness)",
    "finalize_unregistration's flag update and its futex wake are one model step; cancel_and_wait's try-lock is an oracle input",
    "global replay (Model/SrcLifeR.v): every recorded round is executed on SrcLife.gstep itself by the scheduler SrcLifeR.sched, which is "
    "evaluated inside Coq but not proved: C16_replay_reach is definitional (the reported state is grun of the performed acts, true for "
    "any act list) and inv_b on the end state cannot fail (C16_inv_b_sound): what the replay establishes is trace inclusion as "
    "computed by sched + the end-state comparison of lib/props/c16r.py; "
    "the order of the observations is the recorder's stamps corrected by the exact old->new chain of dq_atomic_flags (a wrong "
    "order can only make a replay fail); reads of ds_handler / ds_pending_data / du_state are not observations (writes are); the "
    "values the model does not compute (orc) are chosen by the scheduler from a short list per program point",
    "drain lock of the source abstracted as one owner at a time; serial exclusion of the target queue assumed (C02)",
    "handlers are installed before activation and not replaced afterwards",
]
ASSUMPTIONS = ["Linux/epoll event backend: no direct knotes (unregistration always succeeds, DSF_NEEDS_EVENT never set)",
               "liveness verdicts (cancel handler ran, source on the reused descriptor fired, final state reached) are taken when the harness "
               "has seen no callout and no API return for 20 s, and are reported only if the configuration shows them again alone with 200 s"]

TYPES = ["timer", "data_add", "read", "write", "signal"]
SCENS = ["pre_activate", "post_activate", "from_handler", "from_target_item", "other_thread", "twice", "cancel_and_wait",
         "cancel_and_wait_pre", "caw_plus_second", "after_hangup", "while_suspended", "from_registration_handler",
         "other_thread_at_latch"]
CANCELED, WAITER, NEEDS_EVENT, DELETED = 1 << 28, 1 << 29, 1 << 30, 1 << 31


def run_harness(seed, rounds, permille, first=-1, timeout=600, wait_s=0):
    """one stress run; returns (stdout, error text or None, note or None).  A wall-clock expiry is not a verdict: the run is
    repeated once, alone, with ten times the limit; only that second outcome counts."""
    exe, msg = common.build_harness("c16_cancel", ["c16_cancel.c"], whitebox=True, extra=["-I" + common.VERIF + "/harness"])
    if exe is None:
        raise RuntimeError("harness build failed: " + msg)
    env = dict(os.environ)
    if wait_s:
        env["C16_WAIT_S"] = str(wait_s)
    cmd = [exe, str(seed), str(rounds), str(permille), str(first)]
    r = common.run(cmd, timeout=timeout, env=env)
    note = None
    if r.returncode == 124:
        note = "stress run (seed %d) exceeded %d s of wall clock: repeated once with %d s" % (seed, timeout, timeout * 10)
        r = common.run(cmd, timeout=timeout * 10, env=env)
    if r.returncode != 0:
        return r.stdout or "", "harness exited with rc=%s: %s" % (r.returncode, (r.stderr or "")[-800:]), note
    last = [l for l in (r.stdout or "").split("\n") if l.strip()][-1:]
    if not last or last[0].split() != ["DONE", str(rounds)]:
        return r.stdout or "", "harness exited with rc=0 but its output is empty or truncated (no final DONE line)", note
    return r.stdout, None, note


def analyse(text, label, seed, permille):
    other, per = conc.parse_dump(text)
    fails, traces, stats = [], [], {}
    rounds = {}
    for l in other:
        f = l.split()
        if f and f[0] == "R":
            d = {"id": int(f[1])}
            for kv in f[2:]:
                k, v = kv.split("=")
                d[k] = int(v)
            rounds[d["id"]] = d
    by = {}
    for thr, evs in per.items():
        for e in evs:
            by.setdefault(e.obj // 8, {}).setdefault(thr, []).append(e)

    def bump(k, n=1):
        stats[k] = stats.get(k, 0) + n

    def fail(rd, kind, what, watchdog=False):
        d = rounds[rd]
        fails.append({"watchdog": watchdog, "key": "%s:%s:%s:%s" % (label, TYPES[d["type"]], SCENS[d["scen"]], kind),
                      "what": "%s source, cancel %s (perturbation %d permille): %s" % (TYPES[d["type"]], SCENS[d["scen"]], permille, what),
                      "seed": seed, "permille": permille, "code": d["type"] * 100 + d["scen"], "round": rd})

    for rd, d in sorted(rounds.items()):
        bump("rounds")
        bump("type_" + TYPES[d["type"]])
        bump("scen_" + SCENS[d["scen"]])
        thr_ev = by.get(rd, {})
        allev = sorted((e for evs in thr_ev.values() for e in evs), key=lambda e: e.seq)
        user = [e for e in allev if e.obj % 8 == 0 and e.kind >= 100]
        end = [e.seq for e in user if e.kind == 104 and e.a == 99]
        endseq = end[0] if end else 1 << 62
        ehb = [e for e in user if e.kind == 102 and e.a == 0]
        ehe = [e for e in user if e.kind == 103 and e.a == 0]
        chb = [e for e in user if e.kind == 102 and e.a == 1]
        canc_call = [e for e in user if e.kind == 100 and e.a == 1]
        canc_ret = [e for e in user if e.kind == 101 and e.a == 1]
        caw_ret = [e for e in user if e.kind == 101 and e.a == 2]
        bump("handler_runs", len(ehb))
        # --- handler runs on the target queue
        if any(e.b != 1 for e in ehb):
            fail(rd, "eh-queue", "an event handler invocation did not run on the source's target queue")
        # --- cancel from the handler / from an item on the serial target queue: nothing starts afterwards
        for c in canc_call:
            if c.b in (1, 2):
                late = [e for e in ehb if e.seq > c.seq]
                if late:
                    fail(rd, "eh-after-serial-cancel", "the event handler was invoked again (%d times) after dispatch_source_cancel "
                         "was called from %s" % (len(late), "its own handler" if c.b == 1 else "an item on its serial target queue"))
        # --- cancel from elsewhere: a start whose predecessor ended after the cancel returned read the flag after the set
        rets = [e.seq for e in canc_ret] + [e.seq for e in caw_ret]
        if rets:
            c = min(rets)
            after = [e for e in ehb if e.seq > c]
            if after:
                bump("starts_after_cancel_returned", len(after))
            for b in ehb:
                prev_end = [x.seq for x in ehe if x.seq < b.seq]
                if prev_end and max(prev_end) > c:
                    fail(rd, "eh-after-cancel", "an event handler invocation started although the previous one had ended after "
                         "dispatch_source_cancel had already returned (it cannot have been committed before the cancel)")
                    break
            if len(after) > 1:
                fail(rd, "eh-after-cancel-2", "%d event handler invocations started after dispatch_source_cancel returned" % len(after))
        # --- cancel_and_wait: when it returns no handler is running and none starts
        for c in caw_ret:
            if any(e.seq > c.seq for e in ehb):
                fail(rd, "eh-after-caw", "the event handler was invoked after dispatch_source_cancel_and_wait returned")
            for b in ehb:
                if b.seq < c.seq:
                    ends = [x.seq for x in ehe if x.seq > b.seq and x.thr == b.thr]
                    if not ends or min(ends) > c.seq:
                        fail(rd, "eh-during-caw-return", "dispatch_source_cancel_and_wait returned while the event handler was still running")
                        break
        # --- cancel handler: exactly once, on the target queue, after the last event handler end, nothing after it
        if d["has_ch"]:
            if d["ch_runs"] != 1 or len(chb) != 1:
                fail(rd, "ch-count", "the cancellation handler ran %d times (expected exactly once)%s" %
                     (d["ch_runs"], "; no run and no progress for 20 s" if d["timeouts"] & 1 else ""), watchdog=bool(d["timeouts"] & 1))
            if chb:
                c = chb[0]
                if c.b != 1 or d["ob_ontq"] != 1:
                    fail(rd, "ch-queue", "the cancellation handler did not run on the source's target queue")
                if any(e.seq > c.seq for e in ehb):
                    fail(rd, "eh-after-ch", "the event handler was invoked after the cancellation handler")
                if any(e.seq > c.seq for e in ehe):
                    fail(rd, "ch-before-eh-end", "the cancellation handler started before the last event handler invocation had returned")
        # --- state promised at the cancel handler / at cancel_and_wait's return
        if (d["has_ch"] and chb) or not d["has_ch"]:
            if d["ob_flags_ok"] != 1:
                fail(rd, "not-deleted", "at the cancellation point (cancel handler / return of cancel_and_wait) dq_atomic_flags = %#x: "
                     "CANCELED and DELETED are not both set" % d["ob_flags"])
            if d["ob_du0"] != 1:
                fail(rd, "still-registered", "at the cancellation point the unote is still registered (du_state != 0)")
            if d["ob_mon"] == 1:
                fail(rd, "still-monitored", "at the cancellation point the descriptor is still in the library's epoll set")
            if d["ob_mon"] == 0:
                bump("epoll_checked")
        if d["reuse"] == 0:
            fail(rd, "reuse", "a new source on the descriptor number closed and reused in the cancellation handler never fired", watchdog=True)
        if d["reuse"] == 1:
            bump("descriptor_reused")
        # --- convergence: one final state whatever the scenario
        ff = d["final_flags"]
        if d["timeouts"] & 2 or not (ff & CANCELED) or not (ff & DELETED) or (ff & (WAITER | NEEDS_EVENT)) or d["h0"] or d["h1"] or d["h2"] \
                or d["du_state"] != 0:
            fail(rd, "final-state", "final state differs: flags=%#x handler slots=%d%d%d du_state=%d (expected CANCELED|DELETED, no "
                 "waiter/needs-event bit, slots released, unregistered)" % (ff, d["h0"], d["h1"], d["h2"], d["du_state"]), watchdog=bool(d["timeouts"] & 2))
        # --- white-box record: cancel-handler slot taken non-null at most once
        takes = [e for e in allev if e.obj % 8 == 1 and e.kind == 3 and e.off == 8 and e.a != 0 and e.b == 0 and e.seq < endseq]
        if len(takes) > 1:
            fail(rd, "slot-taken-twice", "the cancel handler slot was taken non-NULL %d times" % len(takes))
        # --- per-thread traces for the monitor: events on dq_atomic_flags and marks, up to the end mark
        sv = (2 if d["type"] == 0 else 0) + (1 if d["type"] == 1 else 0)
        for thr, evs in thr_ev.items():
            tr = [e for e in evs if e.obj % 8 == 0 and e.seq < endseq and e.off == 0]
            if tr:
                traces.append((sv, tr, rd, thr))
                bump("flag_writes", sum(1 for e in tr if e.kind in (4, 5, 9) and (e.ok & 1)))
                bump("cas_failures", sum(1 for e in tr if e.kind in (4, 5) and not (e.ok & 1)))
                bump("futex_waits", sum(1 for e in tr if e.kind == 32))
                bump("futex_wakes", sum(1 for e in tr if e.kind == 34))
    return fails, traces, stats, rounds


def _cleanup(prefix):
    for f in glob.glob(os.path.join(common.CACHE, "cases", prefix + "_*")) + glob.glob(os.path.join(common.CACHE, "cases", "." + prefix + "_*")):
        try:
            os.remove(f)
        except OSError:
            pass


def _coq_twice(fn):
    """fn(alone) evaluates something in Coq.  A failed evaluation (time limit, memory, machine load) is repeated once, alone (no
    parallel coqc) with ten times the limit; returns (result, None) or (None, error text of the second attempt)."""
    try:
        return fn(False), None
    except Exception:
        try:
            return fn(True), None
        except Exception as e:
            return None, str(e)[-1500:]


LIVENESS = ("ch-count", "final-state", "reuse", "not-deleted", "still-registered")


def judge_runs(runs, tag):
    """runs: list of dict(seed, permille, rounds, first, wait_s).  Executes each against the current build and judges it completely:
    API oracle, per-thread monitor (Coq), global replay (Coq).  Returns dict(fails, mism, total, alltr, notes)."""
    fails, mism, alltr, total, notes = [], [], [], {}, []
    jobs, jobinfo = [], []
    pfx = "c16_%s_%d" % (tag, os.getpid())

    def bump(k, n=1):
        total[k] = total.get(k, 0) + n

    for run in runs:
        seed, permille, rounds, first = run["seed"], run["permille"], run["rounds"], run.get("first", -1)
        rinfo = {"seed": seed, "permille": permille, "rounds": rounds, "first": first}
        text, err, note = run_harness(seed, rounds, permille, first=first, wait_s=run.get("wait_s", 0))
        if note:
            notes.append(note)
        if err:
            fails.append({"key": "seed%d:crash" % seed, "kind": "crash", "run": rinfo,
                          "what": "stress run died or produced no complete output (seed %d, perturbation %d, %d rounds): %s" % (seed, permille, rounds, err),
                          "seed": seed, "permille": permille, "code": first, "rounds": rounds, "first": first})
        try:
            f, tr, st, rds = analyse(text, "p%d" % permille, seed, permille)
        except Exception as e:   # an output cut in the middle of a line
            if not err:
                mism.append({"what": "the output of a stress run cannot be parsed: %s" % e, "kind": "parse", "run": rinfo, "detail": rinfo})
            continue
        for x in f:
            x.update({"rounds": rounds, "first": first, "run": rinfo, "kind": "oracle"})
        fails += f
        bump("rounds_requested", rounds)
        if not err and len(rds) != rounds:
            mism.append({"what": "a stress run recorded %d rounds of the %d requested" % (len(rds), rounds), "kind": "floor", "run": rinfo,
                         "detail": rinfo})
        alltr += [(sv, t, rd, thr, rinfo) for (sv, t, rd, thr) in tr]
        # the rounds as inputs of the global replay
        other, per = conc.parse_dump(text)
        mgr = [int(l.split()[1]) for l in other if l.startswith("MGR")]
        by = {}
        for thr, evs in per.items():
            for e in evs:
                by.setdefault(e.obj // 8, {}).setdefault(thr, []).append(e)
        for rd in sorted(rds):
            j = c16r.build(rds[rd], by.get(rd, {}), mgr[0] if mgr else -1) if not err else None
            if j is None:
                bump("rounds_without_replay_input")
                if not err:
                    mism.append({"what": "the recorded writes of dq_atomic_flags of a round do not form one old->new chain (or the round has no marks)",
                                 "kind": "chain", "run": rinfo, "detail": {"seed": seed, "permille": permille, "round": rd,
                                                                          "type": TYPES[rds[rd]["type"]], "cancel": SCENS[rds[rd]["scen"]]}})
                continue
            jobs.append(j)
            jobinfo.append((rinfo, rds[rd]))
        for k, v in st.items():
            bump(k, v)
    # per-thread conformance
    res, cerr = _coq_twice(lambda alone: conc.coq_conform(pfx + "_conf", ["Word", "Conc", "Gen_srclife", "SrcLife"], "conform",
                                                         [(sv, t) for (sv, t, _, _, _) in alltr], timeout=9000 if alone else 900))
    _cleanup(pfx + "_conf")
    if res is None or len(res) != len(alltr):
        mism.append({"what": "the Coq evaluation of SrcLife.conform on the recorded traces failed twice (the second time alone, limit x10), "
                             "or returned %s results for %d traces: no trace was judged" % (None if res is None else len(res), len(alltr)),
                     "kind": "coq", "run": runs[0] if runs else None, "detail": cerr})
        res = []
    bump("traces_judged_by_monitor", len(res))
    for (i, idle), (sv, t, rd, thr, rinfo) in zip(res, alltr):
        if i != -1 or idle != 1:
            mism.append({"what": "a recorded thread trace of dq_atomic_flags events / callouts is not accepted by the model's monitor "
                         "(SrcLife.mon_step): the library did something the model does not allow", "kind": "monitor", "run": rinfo,
                         "detail": {"seed": rinfo["seed"], "permille": rinfo["permille"], "round": rd, "thread": thr, "rejected_at": i,
                                    "pending_wake": 1 - idle, "trace": [e.brief() for e in t][max(0, i - 8):i + 3]}})
    # global replay: every round as a run of SrcLife.gstep
    t0 = time.time()
    rres, rerr = _coq_twice(lambda alone: c16r.coq_replay(pfx + "_replay", jobs, timeout=9000 if alone else 900, workers=1 if alone else 4))
    _cleanup(pfx + "_replay")
    if rres is None or len(rres) != len(jobs):
        mism.append({"what": "the Coq evaluation of SrcLifeR.replay failed twice (the second time alone, limit x10), or returned %s results "
                             "for %d rounds: no round was replayed" % (None if rres is None else len(rres), len(jobs)),
                     "kind": "coq", "run": runs[0] if runs else None, "detail": rerr})
        rres = []
    rp = {"rounds_replayed_as_SrcLife_runs": 0, "model_acts_replayed": 0, "observations_replayed": 0, "rounds_with_late_start_replayed": 0}
    for j, (rinfo, rdd), res1 in zip(jobs, jobinfo, rres):
        ok, det = c16r.judge(j, rdd, res1)
        if ok:
            rp["rounds_replayed_as_SrcLife_runs"] += 1
            rp["model_acts_replayed"] += det["acts"]
            rp["observations_replayed"] += len(j["order"])
            rp["rounds_with_late_start_replayed"] += 1 if det["late_starts"] else 0
        else:
            det.update({"seed": rinfo["seed"], "permille": rinfo["permille"], "round": j["id"], "type": TYPES[rdd["type"]],
                        "cancel": SCENS[rdd["scen"]], "code": rdd["type"] * 100 + rdd["scen"]})
            mism.append({"what": "a recorded round is not reproduced as a run of the global model SrcLife.gstep (Model/SrcLifeR.v): " + det.get("what", ""),
                         "kind": "replay", "run": rinfo, "detail": det})
    rp["replay_seconds"] = round(time.time() - t0, 1)
    for k, v in rp.items():
        total[k] = total.get(k, 0) + v
    return {"fails": fails, "mism": mism, "total": total, "alltr": alltr, "notes": notes}


def liveness_recheck(fails, total, notes):
    """a verdict that rests on the harness's no-progress watchdog (the cancel handler did not run, the final state was not reached, the
    reused descriptor did not fire) is reported only if that configuration shows it again when run alone with five times the
    no-progress window (4 rounds of 100 s at most: the re-run itself must end inside run_harness's limit, or a deterministic
    hang would cost the check its verdict)"""
    keep, seen = [], {}
    for f in fails:
        if f.get("kind") != "oracle" or not f.get("watchdog"):
            keep.append(f)
            continue
        code = f["code"]
        if code not in seen and len(seen) < 2:
            r = judge_runs([{"seed": f["seed"], "permille": f["permille"], "rounds": 4, "first": code, "wait_s": 100}], "live")
            seen[code] = [x for x in r["fails"] if x.get("watchdog") or x.get("kind") == "crash"]
        if seen.get(code, [True]):
            keep.append(f)
        else:
            total["watchdog_verdicts_not_reproduced_alone"] = total.get("watchdog_verdicts_not_reproduced_alone", 0) + 1
            notes.append("inconclusive (not reported): '%s' rested on the 20 s no-progress watchdog and did not show again in 4 rounds of "
                         "that configuration run alone with a 100 s window" % f["what"])
    return keep


def correspond(ctx):
    plan = [(0, 65), (150, 130), (400, 65)] if ctx.tier == "quick" else [(0, 260), (150, 520), (400, 260), (80, 260)]
    runs = [{"seed": ctx.seed * 1000 + i, "permille": permille, "rounds": rounds, "first": -1} for i, (permille, rounds) in enumerate(plan)]
    r = judge_runs(runs, "chk")
    fails, mism, total, alltr, notes = r["fails"], r["mism"], r["total"], r["alltr"], r["notes"]
    fails = liveness_recheck(fails, total, notes)
    # floors: what was actually recorded, judged and replayed (not what was asked for)
    crashed = any(f.get("kind") == "crash" for f in fails)
    if not crashed:
        floor = []
        if total.get("rounds", 0) == 0:
            floor.append("no round was recorded")
        if not alltr or total.get("traces_judged_by_monitor", 0) == 0:
            floor.append("no thread trace was recorded and judged by the monitor")
        if total.get("rounds_replayed_as_SrcLife_runs", 0) + sum(1 for m in mism if m.get("kind") == "replay") == 0:
            floor.append("no round was replayed on the global model")
        if total.get("handler_runs", 0) == 0 or total.get("flag_writes", 0) == 0:
            floor.append("no event handler invocation / no write of dq_atomic_flags was recorded (hook compiled out?)")
        if total.get("scen_" + SCENS[12], 0) >= 5 and total.get("rounds_with_late_start_replayed", 0) == 0 and not mism:
            floor.append("no replayed round contains an event handler start after CANCELED was set although %d rounds of the scenario "
                         "that forces one were run: the clause about late starts was not exercised" % total.get("scen_" + SCENS[12], 0))
        for x in floor:
            mism.append({"what": "floor: " + x, "kind": "floor", "run": runs[0], "detail": {"distribution": dict(total)}})
    # one failure per distinct key
    seen, uniq = set(), []
    for f in fails:
        if f["key"] not in seen:
            seen.add(f["key"])
            uniq.append(f)
    distinct = len(set(tuple((e.kind, e.ok & 1) for e in t) for (_, t, _, _, _) in alltr))
    samples = [{"kind_bits": sv, "trace": [e.brief() for e in t][:30]} for (sv, t, _, _, _) in alltr[:4]]
    return {"evaluations": total.get("traces_judged_by_monitor", 0), "distinct_nontrivial": distinct,
            "rule": "stress rounds through the public API: one source per round (timer, DATA_ADD, read pipe, write pipe, signal) on a "
                    "fresh serial target queue with a queue-specific marker, events fed continuously, cancel injected at each "
                    "life-cycle point (before activate, right after, from the handler, from an item on the target queue, from another "
                    "thread, twice, cancel_and_wait, cancel_and_wait before activation, two cancel_and_wait / cancel callers, after "
                    "peer hang-up, while suspended, from the registration handler, from another thread held exactly between the "
                    "owner's read of dq_atomic_flags and the handler start), perturbation 0/15/40 percent inside the library's atomic "
                    "operations; oracle on "
                    "stamps (handler starts vs cancel call/return, cancel handler exactly once / on the target queue / after the last "
                    "handler end / nothing after it), white-box state at the cancellation point (CANCELED|DELETED, du_state 0, "
                    "descriptor absent from the epoll set via /proc/self/fdinfo, descriptor closed and its number reused by a new "
                    "source that must fire), one final state; every per-thread trace of dq_atomic_flags events + callout marks is "
                    "run through SrcLife.mon_step inside Coq; every round (all threads, all five tracked words) is matched against "
                    "the global model by the executable scheduler SrcLifeR.sched inside Coq (the scheduler is not proved: a round "
                    "counts as replayed when all its observations were consumed as model steps with the recorded outcomes and the "
                    "end state equals the recorded final state); the boolean invariant inv_b on that end state is a self-check of "
                    "the tooling (by C16_inv_b_sound it cannot fail on a completed replay); evaluations = traces judged by the "
                    "monitor, distinct = distinct trace shapes",
            "samples": samples, "distribution": total, "traces_validated_against_impl": total.get("traces_judged_by_monitor", 0),
            "mismatches": mism[:20], "failures": uniq[:20], "notes": notes}


def replay(ctx, obj):
    """re-executes every recorded failing run (same seed, perturbation, round count, first-round code) against the current build and
    judges it again completely (oracle, monitor, global replay); then, for an entry that names one configuration, 30 rounds of
    that configuration.  1: a failure shows again; 0: nothing shows; 2: nothing in the file could be executed."""
    entries = []
    for f in obj.get("failures", []):
        entries.append(("failure", f.get("what"), f.get("run") or ({"seed": f["seed"], "permille": f.get("permille", 150), "rounds": f.get("rounds", 30),
                                                                   "first": f.get("first", f.get("code", -1))} if "seed" in f else None),
                        f.get("code", -1), f.get("key", "").split(":")[-1]))
    dead = []
    for b in obj.get("broken", []):
        d = b.get("detail") if isinstance(b, dict) else None
        if isinstance(b, dict) and b.get("what") == "correspondence" and isinstance(d, dict) and isinstance(d.get("run"), dict):
            dd = d.get("detail") if isinstance(d.get("detail"), dict) else {}
            entries.append(("mismatch (%s)" % d.get("kind", "?"), d.get("what"), d["run"], dd.get("code", -1), d.get("kind", "?")))
        else:
            dead.append(b)
    done, hits, executed = {}, 0, 0

    def execute(run, label):
        key = (run["seed"], run["permille"], run["rounds"], run.get("first", -1))
        if key not in done:
            print("  re-run %s: seed %d, perturbation %d permille, %d rounds, first-round code %d" % ((label,) + key))
            r = judge_runs([dict(run)], "rep")
            r["fails"] = liveness_recheck(r["fails"], r["total"], r["notes"])
            done[key] = r
            for x in r["fails"][:6]:
                print("    failing check:", x["what"])
            for m in r["mism"][:6]:
                print("    mismatch:", m["what"], json.dumps(m.get("detail"), default=str)[:600])
            for n in r["notes"]:
                print("    note:", n)
            print("    -> %d rounds, %d traces judged, %d rounds replayed: %d failing checks, %d mismatches" % (
                r["total"].get("rounds", 0), r["total"].get("traces_judged_by_monitor", 0),
                r["total"].get("rounds_replayed_as_SrcLife_runs", 0), len(r["fails"]), len(r["mism"])))
        r = done[key]
        return len(r["fails"]) + len(r["mism"])

    for kind, what, run, code, tag in entries:
        print("recorded %s: %s" % (kind, what))
        if not run:
            dead.append({"what": kind, "detail": what})
            continue
        executed += 1
        n = execute(run, "of the recorded run")
        if n == 0 and isinstance(code, int) and code >= 0 and run.get("first", -1) < 0:
            n = execute({"seed": run["seed"], "permille": run["permille"], "rounds": 30, "first": code}, "of 30 rounds of that configuration")
        if n:
            print("  reproduces")
            hits += 1
        else:
            print("  does not reproduce")
    for b in dead:
        print("no longer checked (nothing to execute for this entry; only a full ./check C16 re-establishes it):",
              json.dumps(b, default=str)[:1500])
    if hits:
        return 1
    if executed:
        return 0
    return 2
