"""C15 — custom data sources coalesce without loss and never re-enter their handler.
Model/SrcData.v (thread automaton tstep + global model), Gen_srcdata (sites, constants), Gen_dqstate.wakeup_loop."""
import os
import re

import common
import conc
import driver
from props import c15_replay

PROPERTIES_FILE = "Properties/Properties_C15.v"
COQ_DEPS = ["Proofs/SrcData_proofs.vo", "Proofs/SrcLane_proofs.vo", "Proofs/SrcLane_measure.vo", "Proofs/SrcLaneR_proofs.vo"]
GEN_MODULES = ["Gen_srcdata", "Gen_dqstate"]
LEVEL = "proof"
TRUSTED = [
    "two hand-written models of the same source lines (dispatch_source_merge_data, the data clause of _dispatch_source_wakeup and "
    "_dispatch_source_invoke2, _dispatch_source_latch_and_call for dst_action = PASS_DATA): (A) Model/SrcData.v, whose thread "
    "automaton tstep is what every recorded thread trace is replayed through, and (B) Model/SrcLane.v, the same protocol on the "
    "source's real dq_state word in the style of Model/SLane.v (adds _dispatch_queue_class_invoke's lock / unlock / DIRTY retry, "
    "_dispatch_queue_invoke_finish, _dispatch_lane_suspend / _dispatch_lane_resume(is_source)); exclusivity and the "
    "no-stranding clauses are proved on (B), the data clauses on both",
    "ties of (A): site-list equalities (merge_data, latch_and_call, get_data) checked by Coq; per-thread trace conformance: merge "
    "threads in full (ds_pending_data, dq_atomic_flags, dq_state; the wakeup's committed word must be an output of the generated "
    "wakeup_loop with MAKE_DIRTY|CONSUME_2); every other thread projected on ds_pending_data, handler marks and its own successful "
    "dq_state writes, which must be outputs of the generated bodies WITH THE PARAMETERS (B) USES: lock = drain_try_lock(self, "
    "floor in 0..15) returning owned = IN_BARRIER+WIDTH_INTERVAL+ENQUEUED, unlock = drain_try_unlock(owned, done) or "
    "invoke_finish_loop(owned), renew = xor DIRTY on a dirty word, suspend-field writes = suspend_loop / resume_loop(is_source=1) / "
    "resume_activate_loop; the exchange and the handler marks are accepted only between the thread's own lock and unlock",
    "ties of (B): every dq_state transition is a generated body (field-level specifications Proofs/Lane_fields.v, SLaneS_fields.v, "
    "resume_src_fields); and every recorded round of the stress harness is replayed as a run of SrcLane.begin / SrcLane.gstep "
    "(Model/SrcLaneR.v, lib/props/c15_replay.py): per thread the recorded operations are read as model actions with their recorded "
    "outcome (untrusted, but strict: every successful write of dq_state and ds_pending_data, every handler and call mark must be "
    "consumed), a global order is proposed from the recorder's stamps and the exact old->new chains (untrusted), and the Coq "
    "scheduler takes an action only if the model state holds the value the implementation observed, the model step is enabled "
    "and it produces the recorded words, program point, latched and delivered value; the model must end in the recorded final "
    "words with all threads idle; the boolean invariant inv_b (proved to follow from the proved invariant) is evaluated on every "
    "state.  C15_replay_reach: whatever it is given, the scheduler only takes model steps.  Loads and failed compare-exchanges "
    "inside rmw loops, flag loads outside the modelled tests, the target-queue push and reference counts are not model steps "
    "and are skipped by the reading.  A round that is not reproduced with the first order proposal is tried with up to eight "
    "others before it is reported",
    "the global order is now searched for first (c15_replay.joint_order: depth-first over the actions that change a word, the "
    "installed / cancel flags or the target-queue counter, earliest stamp first, so that every action sees what it recorded of "
    "BOTH words; sound pruning; untrusted like the rest of the proposal); the separately built chains remain as fall-backs",
    "termination of (B) (Proofs/SrcLane_measure.v): program-point conditional potential; every step and worker pick-up pays at least "
    "1, a client call adds its constant (C15_every_step_pays, C15_worker_pickup_pays, C15_client_call_cost, C15_execution_bound); "
    "not a fairness statement: it bounds the work between client calls, it does not say the target queue's workers run",
    "boundary of (B): the target queue is a counter of how many times the source sits in it and any idle thread may pop it; that "
    "the target queue eventually invokes what sits in it is C01 for the target.  Scope of (B): from the source as created (inactive) "
    "through activation, role inheritance and installation; up to 62 nested suspensions (no side counter), no over-resume; "
    "cancellation only as the flag (life cycle: C16)",
    "atomicity: each os_atomic_* operation / each successful compare-exchange of an rmw loop is one step; sequentially consistent "
    "interleaving (all data operations are relaxed RMWs on one word, whose modification order is total in C11 as well)",
    "dispatch_source_get_data inside the handler returns the ds_data stored by latch_and_call (checked on every recorded call)",
]
ASSUMPTIONS = ["fair scheduling of the target queue's workers for the 'delivered afterwards' clause (the theorem shows that "
               "a source with pending data is enqueued/dirty or about to be; not when it is scheduled)",
               "uncancelled source for the conservation clauses (merge_data drops values once DSF_CANCELED is visible, as documented)"]

M64 = 1 << 64
KINDS = ["ADD", "OR", "REPLACE"]
TARGETS = ["serial", "concurrent", "global", "overcommit-root(NULL)"]


def gen_consts():
    txt = open(os.path.join(common.gen_dir(), "Gen_srcdata.v")).read()
    return {m.group(1): int(m.group(2)) for m in re.finditer(r"Definition (\w+) : Z := (-?\d+)\.", txt)}


def run_harness(ctx, seed, rounds, permille):
    exe, msg = common.build_harness("c15_srcdata", ["c15_srcdata.c"], whitebox=True, extra=["-I" + common.VERIF + "/harness"])
    if exe is None:
        raise RuntimeError("harness build failed: " + msg)
    r = common.run([exe, str(seed), str(rounds), str(permille)], timeout=900)
    if r.returncode != 0:
        raise RuntimeError("harness failed rc=%s: %s" % (r.returncode, (r.stderr or "")[-1500:]))
    return r.stdout


def word_after(e):
    """(old, new) of a successful write event on a word, or None"""
    k = e.kind
    if k in (4, 5):
        return (e.a, e.b) if (e.ok & 1) else None
    if k == 3:
        return (e.a, e.b)
    if k == 2:
        return None
    if k == 6:
        return (e.a, (e.a + e.b) % M64)
    if k == 7:
        return (e.a, (e.a - e.b) % M64)
    if k == 8:
        return (e.a, e.a & e.b)
    if k == 9:
        return (e.a, e.a | e.b)
    if k == 10:
        return (e.a, e.a ^ e.b)
    return None


def project(evs, C, stats):
    """one thread's events on one source -> the trace fed to SrcData.tstep.
    Inside a merge call (DVU_CALL..DVU_RET) everything is kept.  Outside: events on ds_pending_data and the handler marks are
    kept; the thread's own successful dq_state writes are turned into LOCK / UNLOCK / RELOOP / HIWORD events carrying the word
    before and after, when they change the drain owner from 0 to this thread, from this thread to 0, clear DIRTY under its
    ownership, or change the suspend field; the automaton checks each against the generated bodies (drain_try_lock,
    drain_try_unlock / invoke_finish with the serial-drain `owned`, xor DIRTY, suspend / resume(is_source) / activate
    loops).  Everything else (flag reads, loads and failed attempts on dq_state, wakeups outside merge_data) is dropped."""
    out, inmerge = [], False
    for e in evs:
        if e.kind == 100:
            inmerge = True
            out.append(e)
            continue
        if e.kind == 101:
            inmerge = False
            out.append(e)
            continue
        if e.kind == 113:
            continue   # READY mark: start of the global replay (lib/props/c15_replay.py), not an event of the automaton
        if inmerge or e.kind >= 100 or e.off == 0:
            out.append(e)
            continue
        if e.off == 2:
            w = word_after(e)
            if w is None:
                continue
            old, new = w
            own = e.tid & C["DISPATCH_QUEUE_DRAIN_OWNER_MASK"]
            oo, no = old & C["DISPATCH_QUEUE_DRAIN_OWNER_MASK"], new & C["DISPATCH_QUEUE_DRAIN_OWNER_MASK"]
            live = C["DISPATCH_QUEUE_ENQUEUED"] | C["DISPATCH_QUEUE_ENQUEUED_ON_MGR"] | C["DISPATCH_QUEUE_DIRTY"]
            syn = None
            if oo == 0 and no == own:
                syn = 120
                stats["lock"] += 1
            elif oo == own and no == 0:
                syn = 121
                stats["unlock_live" if (new & live) else "unlock_clean"] += 1
            elif oo == own and no == own and (old & C["DISPATCH_QUEUE_DIRTY"]) and not (new & C["DISPATCH_QUEUE_DIRTY"]):
                syn = 122
                stats["renew_dirty"] += 1
            elif oo != no and (oo == own or no == own):
                syn = 123   # an ownership change the model has no event for: will be rejected
            elif (old ^ new) >> 55:
                syn = 124   # suspend-count field written: dispatch_suspend / dispatch_resume / activation
                stats["suspend_field_writes"] += 1
            if syn:
                # the derived event carries the words: the automaton checks them with the generated bodies
                x = conc.Ev([e.thr, e.tid, e.seq, syn, 0, e.obj, 0, 0, old, new, 1, e.line])
                out.append(x)
    return out


def analyse(text, label, C, runinfo):
    other, per = conc.parse_dump(text)
    rounds, q = {}, {}
    for l in other:
        f = l.split()
        if f[0] == "R":
            rounds[int(f[1])] = dict(kind=int(f[2]), target=int(f[3]), n=int(f[4]), qos=int(f[5]))
        elif f[0] == "Q":
            q[int(f[1])] = {kv.split("=")[0]: int(kv.split("=")[1]) for kv in f[2:]}
    stats = {k: 0 for k in ("rounds", "merge_calls", "merges_zero", "merge_saw_nothing_pending", "wakeup_cas_retries",
                            "wakeup_commits_enqueue", "wakeup_commits_dirty_only", "wakeup_not_installed", "lock", "unlock_live",
                            "unlock_clean", "renew_dirty", "latches", "latch_zero_early_return", "handler_calls",
                            "post_handler_pending_requeue", "suspends", "resumes", "merges_during_handler",
                            "merges_while_suspended_approx", "drain_without_latch", "suspend_field_writes")}
    for k in KINDS:
        stats["rounds_" + k] = 0
    for k in TARGETS:
        stats["rounds_target_" + k] = 0
    byround = {}
    for thr, evs in per.items():
        for e in evs:
            rd, fld = divmod(e.obj, 3)
            e.obj, e.off = rd, fld
            byround.setdefault(rd, {}).setdefault(thr, []).append(e)
    fails, traces = [], []
    for rd, info in sorted(rounds.items()):
        stats["rounds"] += 1
        stats["rounds_" + KINDS[info["kind"]]] += 1
        stats["rounds_target_" + TARGETS[info["target"]]] += 1
        thr_ev = byround.get(rd, {})
        allev = sorted((e for evs in thr_ev.values() for e in evs), key=lambda e: e.seq)
        merged = [e.a for e in allev if e.kind == 100]
        begins = [e for e in allev if e.kind == 102]
        ends = [e for e in allev if e.kind == 103]
        deliv = [e.a for e in begins]
        qq = q.get(rd)
        rep = dict(runinfo, round=rd, kind=KINDS[info["kind"]], target=TARGETS[info["target"]], threads=info["n"], label=label)

        def fail(tag, what):
            fails.append(dict(rep, key="%s:r%d:%s" % (label, rd, tag), what="%s source on %s queue, %d merging threads: %s" % (
                KINDS[info["kind"]], TARGETS[info["target"]], info["n"], what)))
        if qq is None:
            fail("noq", "round did not finish")
            continue
        stats["merge_calls"] += len(merged)
        stats["merges_zero"] += sum(1 for v in merged if v == 0)
        stats["handler_calls"] += len(deliv)
        if any(v == 0 for v in deliv):
            fail("zero", "the handler was invoked with dispatch_source_get_data() == 0")
        if qq["reentered"]:
            fail("reentered", "the event handler was entered %d times while already running on another thread" % qq["reentered"])
        iv = sorted((b.seq, b.thr) for b in begins)
        evs_by_thr = {}
        for b in begins:
            evs_by_thr.setdefault(b.thr, []).append(b.seq)
        ivs = []
        for thr, evs in thr_ev.items():
            bs = [e.seq for e in evs if e.kind == 102]
            es = [e.seq for e in evs if e.kind == 103]
            ivs += list(zip(bs, es))
        ivs.sort()
        for (b1, e1), (b2, e2) in zip(ivs, ivs[1:]):
            if b2 < e1:
                fail("overlap", "two handler invocations overlap (stamps %d..%d and %d..%d)" % (b1, e1, b2, e2))
                break
        if qq["stuck1"]:
            fail("stuck", "after all merge/suspend/resume calls returned the source stayed with ds_pending_data=%d, dq_state=%#x "
                 "for 12 s: merged data was never delivered" % (qq["pending"], qq["state"]))
        elif qq["stuck2"]:
            fail("stuck-sentinel", "a final non-zero merge on the idle source was not delivered within 12 s (ds_pending_data=%d, "
                 "dq_state=%#x)" % (qq["pending2"], qq["state2"]))
        if not (qq["stuck1"] or qq["stuck2"]):
            if info["kind"] == 0 and sum(deliv) % M64 != sum(merged) % M64:
                fail("sum", "sum of delivered values %d != sum of merged values %d (mod 2^64), %d merges, %d handler calls" % (
                    sum(deliv) % M64, sum(merged) % M64, len(merged), len(deliv)))
            if info["kind"] == 1:
                du, mu = 0, 0
                for v in deliv:
                    du |= v
                for v in merged:
                    mu |= v
                if du != mu:
                    fail("union", "union of delivered masks %#x != union of merged masks %#x" % (du, mu))
            if info["kind"] == 2:
                ms = set(merged)
                bad = [v for v in deliv if v not in ms]
                if bad:
                    fail("member", "delivered value %#x was never merged" % bad[0])
                if not deliv or deliv[-1] != qq["sentinel"]:
                    fail("last", "the final non-zero merge %#x is not the last value delivered (last = %s)" % (
                        qq["sentinel"], hex(deliv[-1]) if deliv else "none"))
        # coverage of interesting interleavings (approximate, from stamps)
        hi = 0
        for e in allev:
            if e.kind == 100 and any(b <= e.seq <= x for b, x in ivs):
                hi += 1
        stats["merges_during_handler"] += hi
        depth = 0
        for e in allev:
            if e.kind == 110:
                depth += 1
            elif e.kind == 111:
                depth -= 1
            elif e.kind == 100 and depth > 0:
                stats["merges_while_suspended_approx"] += 1
        stats["suspends"] += sum(1 for e in allev if e.kind == 110)
        stats["resumes"] += sum(1 for e in allev if e.kind == 111)
        for thr, evs in thr_ev.items():
            tr = project(evs, C, stats)
            if not tr:
                continue
            for i, e in enumerate(tr):
                if e.kind == 3 and e.off == 0:
                    stats["latches"] += 1
                    if e.a == 0:
                        stats["latch_zero_early_return"] += 1
                if e.kind == 5 and e.off == 2:
                    if not (e.ok & 1):
                        stats["wakeup_cas_retries"] += 1
                    elif (e.b & C["DISPATCH_QUEUE_ENQUEUED"]) and not (e.a & C["DISPATCH_QUEUE_ENQUEUED"]):
                        stats["wakeup_commits_enqueue"] += 1
                    else:
                        stats["wakeup_commits_dirty_only"] += 1
                if e.kind == 101 and i >= 2 and tr[i - 1].kind == 1 and tr[i - 1].off == 0 and tr[i - 1].a == 0:
                    stats["merge_saw_nothing_pending"] += 1
                if e.kind == 1 and e.off == 2 and i >= 1 and tr[i - 1].kind == 1 and tr[i - 1].off == 1:
                    stats["wakeup_not_installed"] += 1
                if e.kind == 121 and i >= 1 and tr[i - 1].kind == 1 and tr[i - 1].off == 0 and tr[i - 1].a != 0 and i >= 2 and \
                        tr[i - 2].kind == 103:
                    stats["post_handler_pending_requeue"] += 1
                if e.kind == 121 and i >= 2 and tr[i - 1].kind == 1 and tr[i - 2].kind == 120:
                    stats["drain_without_latch"] += 1
            traces.append((info["kind"] + 4 * (tr[0].tid & C["DISPATCH_QUEUE_DRAIN_OWNER_MASK"]), tr, rd, thr))
    return fails, traces, stats


def shape(tr):
    return tuple((e.kind, e.off, e.ok & 1, e.a == 0) for e in tr)


def correspond(ctx):
    C = gen_consts()
    nproc, rounds = (9, 12) if ctx.tier == "quick" else (45, 18)
    fails, mism, alltr, total = [], [], [], {}
    C2 = dict(C)
    C2.update({"LINE_" + k: v for k, v in c15_replay.site_lines().items()})
    rjobs, rmeta, rstats = [], [], {}
    for i in range(nproc):
        seed = ctx.seed * 1000 + i
        permille = [0, 150, 400][i % 3]
        runinfo = {"seed": seed, "rounds": rounds, "permille": permille}
        text = run_harness(ctx, seed, rounds, permille)
        f, tr, st = analyse(text, "seed%d" % seed, C, runinfo)
        fails += f
        alltr += [(sv, t, rd, thr, seed) for (sv, t, rd, thr) in tr]
        for k, v in st.items():
            total[k] = total.get(k, 0) + v
        # the same recording, as a run of the global lane model
        j_, m_, mm_, rs_ = c15_replay.replay_text(text, "seed%d" % seed, C2)
        rjobs += j_
        rmeta += m_
        mism += mm_
        for k, v in rs_.items():
            rstats[k] = rstats.get(k, 0) + v
    import threading
    rbox = {}

    def do_replay():
        import time
        t0_ = time.time()
        try:
            rbox["res"], rbox["retried"] = c15_replay.replay_all("c15_replay", rjobs, rmeta, C2)
            rbox["wall"] = round(time.time() - t0_, 1)
        except Exception as ex:   # noqa
            rbox["err"] = str(ex)
    rth = threading.Thread(target=do_replay)
    rth.start()
    res, err = [], None
    pairs = [(sv, t) for (sv, t, _, _, _) in alltr]
    nparts = 4
    size = (len(pairs) + nparts - 1) // nparts if pairs else 1
    parts = [pairs[i:i + size] for i in range(0, len(pairs), size)]

    def conf(ix):
        last = None
        for attempt in range(2):   # keep the API-level failures of these runs even if the Coq evaluation cannot be done
            try:
                return conc.coq_conform("c15_conf_p%d" % ix, ["Word", "Conc", "Gen_dqstate", "Gen_srcdata", "SrcData"], "conform",
                                        parts[ix], chunk=250), None
            except RuntimeError as ex:
                last = str(ex)
        return None, last
    from concurrent.futures import ThreadPoolExecutor
    with ThreadPoolExecutor(max_workers=nparts) as ex:
        outs = list(ex.map(conf, range(len(parts))))
    for r_, e_ in outs:
        if e_ is not None:
            err = e_
            res = []
            break
        res += r_
    if err is not None:
        mism.append({"what": "trace conformance could not be evaluated in Coq", "detail": err[-1500:]})
    for (i, idle), (sv, t, rd, thr, seed) in zip(res, alltr):
        if i != -1 or idle != 1:
            lo = max(0, i - 8) if i >= 0 else max(0, len(t) - 12)
            mism.append({"what": "a recorded thread trace of the library is not accepted by the model's thread automaton "
                         "(SrcData.tstep): the implementation took a step the model does not have",
                         "detail": {"seed": seed, "round": rd, "thread": thr, "kind_qos": sv, "rejected_at": i,
                                    "ended_idle": idle, "around": [e.brief() for e in t[lo:(i + 3 if i >= 0 else len(t))]]}})
    rth.join()
    if "err" in rbox:
        mism.append({"what": "the global replay on SrcLane.gstep could not be evaluated in Coq", "detail": rbox["err"][-1500:]})
    else:
        mm_, nrep = c15_replay.judge(rmeta, rbox["res"], C2)
        mism += mm_
        rstats["rounds_replayed"] = nrep
        rstats["rounds_needing_another_order_proposal"] = rbox.get("retried", 0)
        rstats["wall_s_concurrent_with_the_thread_conformance"] = rbox.get("wall", 0)
    for k, v in rstats.items():
        total["replay_" + k] = v
    # (only the first 20 mismatches are kept below: how many of which layer)
    total["mismatches_round_not_readable_as_lane_actions"] = sum(1 for m in mism if m["what"].startswith("a recorded round cannot"))
    total["mismatches_global_replay"] = sum(1 for m in mism if m["what"].startswith("global replay"))
    total["mismatches_thread_automaton"] = sum(1 for m in mism if m["what"].startswith("a recorded thread trace"))
    distinct = len(set(shape(t) for (_, t, _, _, _) in alltr))
    mergers = [x for x in alltr if any(e.kind == 100 for e in x[1])][:2]
    drainers = [x for x in alltr if any(e.kind == 3 for e in x[1])][:2]
    samples = [{"kind_qos": sv, "trace": [e.brief() for e in t][:40]} for (sv, t, _, _, _) in mergers + drainers]
    return {"evaluations": len(alltr), "distinct_nontrivial": distinct,
            "rule": "custom data sources of kind ADD / OR / REPLACE on serial, concurrent, global and overcommit-root (NULL) target queues; 2..8 pthreads "
                    "merging random values (ADD: small, random 64-bit and wrap-provoking operands; OR: bits and masks; REPLACE: "
                    "unique values; 1/16 zero), a handler that sleeps/yields on a quarter of its calls each, one thread "
                    "suspending and resuming (depth 1-2), merges racing the activation in half of the rounds; schedule "
                    "perturbation inside the library's atomic operations (0/15/40 percent of events).  Every recorded per-thread "
                    "trace (merge threads: ds_pending_data, dq_atomic_flags, dq_state; drain side: ds_pending_data, handler "
                    "marks and lock/unlock/renew derived from the thread's own dq_state writes) is replayed through "
                    "SrcData.tstep inside Coq.  API oracle per source after draining (wait until at rest, then a sentinel "
                    "merge, wait until delivered): ADD sum of delivered = sum of merged mod 2^64, OR unions equal, REPLACE "
                    "delivered values all merged and the sentinel is the last delivered; no handler call with data 0; handler "
                    "never re-entered (atomic flag + stamp intervals); not stuck (white-box read of ds_pending_data / dq_state "
                    "after 12 s).  distinct = distinct shapes of thread traces",
            "samples": samples, "distribution": total, "traces_validated_against_impl": len(alltr),
            "mismatches": mism[:20], "failures": fails[:20]}


def replay(ctx, obj):
    C = gen_consts()
    for f in obj.get("failures", []):
        print("recorded failure:", f.get("what"))
        seed, rounds, permille = int(f.get("seed", 1000)), int(f.get("rounds", 9)), int(f.get("permille", 150))
        text = run_harness(ctx, seed, rounds, permille)
        f2, _, _ = analyse(text, f.get("label", "seed%d" % seed), C, {"seed": seed, "rounds": rounds, "permille": permille})
        print("re-run c15_srcdata %d %d %d: %d failures" % (seed, rounds, permille, len(f2)))
        for x in f2[:5]:
            print("  ", x["what"])
    for b in obj.get("broken", []):
        print("no longer checks:", b)
    return 1
