"""C15 — custom data sources coalesce without loss and never re-enter their handler.
Model/SrcData.v (thread automaton tstep + global model), Gen_srcdata (sites, constants), Gen_dqstate.wakeup_loop."""
import os
import re

import common
import conc
import driver
from props import c15_replay

PROPERTIES_FILE = "Properties/Properties_C15.v"
COQ_DEPS = ["Proofs/SrcData_proofs.vo", "Proofs/SrcLane_proofs.vo", "Proofs/SrcLane_measure.vo", "Proofs/SrcLaneR_proofs.vo"]
GEN_MODULES = ["Gen_srcdata", "Gen_dqstate"]
LEVEL = "proof"
TRUSTED = [
    "two hand-written models of the same source lines (dispatch_source_merge_data, the data clause of _dispatch_source_wakeup and "
    "_dispatch_source_invoke2, _dispatch_source_latch_and_call for dst_action = PASS_DATA): (A) Model/SrcData.v, whose thread "
    "automaton tstep is what every recorded thread trace is replayed through, and (B) Model/SrcLane.v, the same protocol on the "
    "source's real dq_state word in the style of Model/SLane.v (adds _dispatch_queue_class_invoke's lock / unlock / DIRTY retry, "
    "_dispatch_queue_invoke_finish, _dispatch_lane_suspend / _dispatch_lane_resume(is_source)); exclusivity and the "
    "no-stranding clauses are proved on (B), the data clauses on both",
    "ties of (A): site-list equalities (merge_data, latch_and_call, get_data) checked by Coq; per-thread trace conformance: merge "
    "threads in full (ds_pending_data, dq_atomic_flags, dq_state; the wakeup's committed word must be an output of the generated "
    "wakeup_loop with MAKE_DIRTY|CONSUME_2); every other thread projected on ds_pending_data, handler marks and its own successful "
    "dq_state writes, which must be outputs of the generated bodies WITH THE PARAMETERS (B) USES: lock = drain_try_lock(self, "
    "floor in 0..15) returning owned = IN_BARRIER+WIDTH_INTERVAL+ENQUEUED, unlock = drain_try_unlock(owned, done) or "
    "invoke_finish_loop(owned), renew = xor DIRTY on a dirty word, suspend-field writes = suspend_loop / resume_loop(is_source=1) / "
    "resume_activate_loop; the exchange and the handler marks are accepted only between the thread's own lock and unlock",
    "ties of (B): every dq_state transition is a generated body (field-level specifications Proofs/Lane_fields.v, SLaneS_fields.v, "
    "resume_src_fields); and every recorded round of the stress harness is replayed as a run of SrcLane.begin / SrcLane.gstep "
    "(Model/SrcLaneR.v, lib/props/c15_replay.py): per thread the recorded operations are read as model actions with their recorded "
    "outcome (untrusted, but strict: every successful write of dq_state and ds_pending_data, every handler and call mark must be "
    "consumed), a global order is proposed from the recorder's stamps and the exact old->new chains (untrusted), and the Coq "
    "scheduler takes an action only if the model state holds the value the implementation observed, the model step is enabled "
    "and it produces the recorded words, program point, latched and delivered value; the model must end in the recorded final "
    "words with all threads idle; the boolean invariant inv_b (proved to follow from the proved invariant) is evaluated on every "
    "state.  C15_replay_reach: whatever it is given, the scheduler only takes model steps.  Loads and failed compare-exchanges "
    "inside rmw loops, flag loads outside the modelled tests, the target-queue push and reference counts are not model steps "
    "and are skipped by the reading.  A round that is not reproduced with the first order proposal is tried with up to eight "
    "others before it is reported",
    "the global order is now searched for first (c15_replay.joint_order: depth-first over the actions that change a word, the "
    "installed / cancel flags or the target-queue counter, earliest stamp first, so that every action sees what it recorded of "
    "BOTH words; sound pruning; untrusted like the rest of the proposal); the separately built chains remain as fall-backs",
    "termination of (B) (Proofs/SrcLane_measure.v): program-point conditional potential; every step and worker pick-up pays at least "
    "1, a client call adds its constant (C15_every_step_pays, C15_worker_pickup_pays, C15_client_call_cost, C15_execution_bound); "
    "not a fairness statement: it bounds the work between client calls, it does not say the target queue's workers run",
    "what a successful replay establishes: a replay starts from SrcLaneR.init_from w0 inst -- the source at rest with the "
    "RECORDED first dq_state word (checked by init_word_ok: inactive as created, or idle and active), not from a state known "
    "to be SrcLane.reach-able from init_state / init_inactive; C15_replay_sound gives every replayed state the invariant Inv "
    "(and reachability from that recorded start, reachw), hence everything that follows from Inv alone (exclusivity, the word's "
    "lock shape, the no-stranding and DIRTY clauses, the data clauses); the exported theorems stated over `reach c rb` are not "
    "claimed of replayed states as such",
    "POut is absorbing: a thread that leaves the modelled fragment (over-resume, side suspend counter, IN_BARRIER hand-off, "
    "invalid suspension state) stays at POut forever, so after one such call `quiescent` (all threads Idle) is unsatisfiable "
    "for that thread set and C15_merge_while_busy_delivered / C15_terminal_all_delivered say nothing about that execution; the "
    "stress harness never produces such a call (no over-resume, at most 2 nested suspensions) and a recorded round that did "
    "would not be replayable (reported)",
    "boundary of (B): the target queue is a counter of how many times the source sits in it and any idle thread may pop it; that "
    "the target queue eventually invokes what sits in it is C01 for the target.  Scope of (B): from the source as created (inactive) "
    "through activation, role inheritance and installation; up to 62 nested suspensions (no side counter), no over-resume; "
    "cancellation only as the flag (life cycle: C16)",
    "atomicity: each os_atomic_* operation / each successful compare-exchange of an rmw loop is one step; sequentially consistent "
    "interleaving (all data operations are relaxed RMWs on one word, whose modification order is total in C11 as well)",
    "dispatch_source_get_data inside the handler returns the ds_data stored by latch_and_call (checked on every recorded call)",
]
ASSUMPTIONS = ["fair scheduling of the target queue's workers for the 'delivered afterwards' clause (the theorem shows that "
               "a source with pending data is enqueued/dirty or about to be; not when it is scheduled)",
               "uncancelled source for the conservation clauses (merge_data drops values once DSF_CANCELED is visible, as documented)"]

M64 = 1 << 64
KINDS = ["ADD", "OR", "REPLACE"]
TARGETS = ["serial", "concurrent", "global", "overcommit-root(NULL)"]


def gen_consts():
    txt = open(os.path.join(common.gen_dir(), "Gen_srcdata.v")).read()
    return {m.group(1): int(m.group(2)) for m in re.finditer(r"Definition (\w+) : Z := (-?\d+)\.", txt)}


HARNESS_TIMEOUT = 300


def run_harness(ctx, seed, rounds, permille):
    """returns (text, error).  A run that hits the wall-clock limit is repeated once, alone, with ten times the limit
    before anything is reported (machine load must not look like a failure); a crash, a non-zero exit or an output without the
    recorder dump is an error (a broken tie), never a silent pass."""
    exe, msg = common.build_harness("c15_srcdata", ["c15_srcdata.c"], whitebox=True, extra=["-I" + common.VERIF + "/harness"])
    if exe is None:
        return None, "harness build failed: " + msg[-1500:]
    r = common.run([exe, str(seed), str(rounds), str(permille)], timeout=HARNESS_TIMEOUT)
    if r.returncode == 124:
        r = common.run([exe, str(seed), str(rounds), str(permille)], timeout=10 * HARNESS_TIMEOUT)
        if r.returncode == 124:
            return None, "c15_srcdata %d %d %d did not finish within %d s even when run alone" % (seed, rounds, permille,
                                                                                                  10 * HARNESS_TIMEOUT)
    if r.returncode != 0:
        return None, "c15_srcdata %d %d %d exited with %s: %s" % (seed, rounds, permille, r.returncode, (r.stderr or "")[-1500:])
    if not re.search(r"^E ", r.stdout or "", flags=re.M):
        return None, "c15_srcdata %d %d %d printed no recorded event (hook compiled out or output truncated)" % (seed, rounds,
                                                                                                               permille)
    return r.stdout, None


def word_after(e):
    """(old, new) of a successful write event on a word, or None"""
    k = e.kind
    if k in (4, 5):
        return (e.a, e.b) if (e.ok & 1) else None
    if k == 3:
        return (e.a, e.b)
    if k == 2:
        return None
    if k == 6:
        return (e.a, (e.a + e.b) % M64)
    if k == 7:
        return (e.a, (e.a - e.b) % M64)
    if k == 8:
        return (e.a, e.a & e.b)
    if k == 9:
        return (e.a, e.a | e.b)
    if k == 10:
        return (e.a, e.a ^ e.b)
    return None


def project(evs, C, stats):
    """one thread's events on one source -> the trace fed to SrcData.tstep.
    Inside a merge call (DVU_CALL..DVU_RET) everything is kept.  Outside: events on ds_pending_data and the handler marks are
    kept; the thread's own successful dq_state writes are turned into LOCK / UNLOCK / RELOOP / HIWORD events carrying the word
    before and after, when they change the drain owner from 0 to this thread, from this thread to 0, clear DIRTY under its
    ownership, or change the suspend field; the automaton checks each against the generated bodies (drain_try_lock,
    drain_try_unlock / invoke_finish with the serial-drain `owned`, xor DIRTY, suspend / resume(is_source) / activate
    loops).  Everything else (flag reads, loads and failed attempts on dq_state, wakeups outside merge_data) is dropped."""
    out, inmerge = [], False
    for e in evs:
        if e.kind == 100:
            inmerge = True
            out.append(e)
            continue
        if e.kind == 101:
            inmerge = False
            out.append(e)
            continue
        if e.kind == 113:
            continue   # READY mark: start of the global replay (lib/props/c15_replay.py), not an event of the automaton
        if inmerge or e.kind >= 100 or e.off == 0:
            out.append(e)
            continue
        if e.off == 2:
            w = word_after(e)
            if w is None:
                continue
            old, new = w
            own = e.tid & C["DISPATCH_QUEUE_DRAIN_OWNER_MASK"]
            oo, no = old & C["DISPATCH_QUEUE_DRAIN_OWNER_MASK"], new & C["DISPATCH_QUEUE_DRAIN_OWNER_MASK"]
            live = C["DISPATCH_QUEUE_ENQUEUED"] | C["DISPATCH_QUEUE_ENQUEUED_ON_MGR"] | C["DISPATCH_QUEUE_DIRTY"]
            syn = None
            if oo == 0 and no == own:
                syn = 120
                stats["lock"] += 1
            elif oo == own and no == 0:
                syn = 121
                stats["unlock_live" if (new & live) else "unlock_clean"] += 1
            elif oo == own and no == own and (old & C["DISPATCH_QUEUE_DIRTY"]) and not (new & C["DISPATCH_QUEUE_DIRTY"]):
                syn = 122
                stats["renew_dirty"] += 1
            elif oo != no and (oo == own or no == own):
                syn = 123   # an ownership change the model has no event for: will be rejected
            elif (old ^ new) >> 55:
                syn = 124   # suspend-count field written: dispatch_suspend / dispatch_resume / activation
                stats["suspend_field_writes"] += 1
            if syn:
                # the derived event carries the words: the automaton checks them with the generated bodies
                x = conc.Ev([e.thr, e.tid, e.seq, syn, 0, e.obj, 0, 0, old, new, 1, e.line])
                out.append(x)
    return out


def analyse(text, label, C, runinfo):
    other, per = conc.parse_dump(text)
    rounds, q = {}, {}
    for l in other:
        f = l.split()
        if f[0] == "R":
            rounds[int(f[1])] = dict(kind=int(f[2]), target=int(f[3]), n=int(f[4]), qos=int(f[5]))
        elif f[0] == "Q":
            q[int(f[1])] = {kv.split("=")[0]: int(kv.split("=")[1]) for kv in f[2:]}
    stats = {k: 0 for k in ("rounds", "merge_calls", "merges_zero", "merge_saw_nothing_pending", "wakeup_cas_retries",
                            "wakeup_commits_enqueue", "wakeup_commits_dirty_only", "wakeup_not_installed", "lock", "unlock_live",
                            "unlock_clean", "renew_dirty", "latches", "latch_zero_early_return", "handler_calls",
                            "post_handler_pending_requeue", "suspends", "resumes", "merges_during_handler",
                            "merges_while_suspended_approx", "drain_without_latch", "suspend_field_writes")}
    for k in KINDS:
        stats["rounds_" + k] = 0
    for k in TARGETS:
        stats["rounds_target_" + k] = 0
    byround = {}
    for thr, evs in per.items():
        for e in evs:
            rd, fld = divmod(e.obj, 3)
            e.obj, e.off = rd, fld
            byround.setdefault(rd, {}).setdefault(thr, []).append(e)
    fails, traces = [], []
    for rd, info in sorted(rounds.items()):
        stats["rounds"] += 1
        stats["rounds_" + KINDS[info["kind"]]] += 1
        stats["rounds_target_" + TARGETS[info["target"]]] += 1
        thr_ev = byround.get(rd, {})
        allev = sorted((e for evs in thr_ev.values() for e in evs), key=lambda e: e.seq)
        merged = [e.a for e in allev if e.kind == 100]
        begins = [e for e in allev if e.kind == 102]
        ends = [e for e in allev if e.kind == 103]
        deliv = [e.a for e in begins]
        qq = q.get(rd)
        rep = dict(runinfo, round=rd, kind=KINDS[info["kind"]], target=TARGETS[info["target"]], threads=info["n"], label=label)

        def fail(tag, what):
            fails.append(dict(rep, key="%s:r%d:%s" % (label, rd, tag), what="%s source on %s queue, %d merging threads: %s" % (
                KINDS[info["kind"]], TARGETS[info["target"]], info["n"], what)))
        if qq is None:
            fail("noq", "round did not finish")
            continue
        stats["merge_calls"] += len(merged)
        stats["merges_zero"] += sum(1 for v in merged if v == 0)
        stats["handler_calls"] += len(deliv)
        if any(v == 0 for v in deliv):
            fail("zero", "the handler was invoked with dispatch_source_get_data() == 0")
        if qq["reentered"]:
            fail("reentered", "the event handler was entered %d times while already running on another thread" % qq["reentered"])
        iv = sorted((b.seq, b.thr) for b in begins)
        evs_by_thr = {}
        for b in begins:
            evs_by_thr.setdefault(b.thr, []).append(b.seq)
        ivs = []
        for thr, evs in thr_ev.items():
            bs = [e.seq for e in evs if e.kind == 102]
            es = [e.seq for e in evs if e.kind == 103]
            if len(bs) != len(es):
                fail("marks", "thread %d has %d handler BEGIN marks and %d END marks: a handler invocation never returned "
                     "(or the recording is truncated)" % (thr, len(bs), len(es)))
            ivs += list(zip(bs, es))
        ivs.sort()
        for (b1, e1), (b2, e2) in zip(ivs, ivs[1:]):
            if b2 < e1:
                fail("overlap", "two handler invocations overlap (stamps %d..%d and %d..%d)" % (b1, e1, b2, e2))
                break
        if qq["stuck1"]:
            fail("stuck", "after all merge/suspend/resume calls returned the source stayed with ds_pending_data=%d, dq_state=%#x "
                 "and nothing moved for 12 s (no recorded operation, no change of either word): merged data was never delivered" % (qq["pending"], qq["state"]))
        elif qq["stuck2"]:
            fail("stuck-sentinel", "a final non-zero merge on the idle source was not delivered and nothing moved for 12 s (ds_pending_data=%d, "
                 "dq_state=%#x)" % (qq["pending2"], qq["state2"]))
        if not (qq["stuck1"] or qq["stuck2"]):
            if info["kind"] == 0 and sum(deliv) % M64 != sum(merged) % M64:
                fail("sum", "sum of delivered values %d != sum of merged values %d (mod 2^64), %d merges, %d handler calls" % (
                    sum(deliv) % M64, sum(merged) % M64, len(merged), len(deliv)))
            if info["kind"] == 1:
                du, mu = 0, 0
                for v in deliv:
                    du |= v
                for v in merged:
                    mu |= v
                if du != mu:
                    fail("union", "union of delivered masks %#x != union of merged masks %#x" % (du, mu))
            if info["kind"] == 2:
                ms = set(merged)
                bad = [v for v in deliv if v not in ms]
                if bad:
                    fail("member", "delivered value %#x was never merged" % bad[0])
                if not deliv or deliv[-1] != qq["sentinel"]:
                    fail("last", "the final non-zero merge %#x is not the last value delivered (last = %s)" % (
                        qq["sentinel"], hex(deliv[-1]) if deliv else "none"))
        # coverage of interesting interleavings (approximate, from stamps)
        hi = 0
        for e in allev:
            if e.kind == 100 and any(b <= e.seq <= x for b, x in ivs):
                hi += 1
        stats["merges_during_handler"] += hi
        depth = 0
        for e in allev:
            if e.kind == 110:
                depth += 1
            elif e.kind == 111:
                depth -= 1
            elif e.kind == 100 and depth > 0:
                stats["merges_while_suspended_approx"] += 1
        stats["suspends"] += sum(1 for e in allev if e.kind == 110)
        stats["resumes"] += sum(1 for e in allev if e.kind == 111)
        for thr, evs in thr_ev.items():
            tr = project(evs, C, stats)
            if not tr:
                continue
            for i, e in enumerate(tr):
                if e.kind == 3 and e.off == 0:
                    stats["latches"] += 1
                    if e.a == 0:
                        stats["latch_zero_early_return"] += 1
                if e.kind == 5 and e.off == 2:
                    if not (e.ok & 1):
                        stats["wakeup_cas_retries"] += 1
                    elif (e.b & C["DISPATCH_QUEUE_ENQUEUED"]) and not (e.a & C["DISPATCH_QUEUE_ENQUEUED"]):
                        stats["wakeup_commits_enqueue"] += 1
                    else:
                        stats["wakeup_commits_dirty_only"] += 1
                if e.kind == 101 and i >= 2 and tr[i - 1].kind == 1 and tr[i - 1].off == 0 and tr[i - 1].a == 0:
                    stats["merge_saw_nothing_pending"] += 1
                if e.kind == 1 and e.off == 2 and i >= 1 and tr[i - 1].kind == 1 and tr[i - 1].off == 1:
                    stats["wakeup_not_installed"] += 1
                if e.kind == 121 and i >= 1 and tr[i - 1].kind == 1 and tr[i - 1].off == 0 and tr[i - 1].a != 0 and i >= 2 and \
                        tr[i - 2].kind == 103:
                    stats["post_handler_pending_requeue"] += 1
                if e.kind == 121 and i >= 2 and tr[i - 1].kind == 1 and tr[i - 2].kind == 120:
                    stats["drain_without_latch"] += 1
            traces.append((info["kind"] + 4 * (tr[0].tid & C["DISPATCH_QUEUE_DRAIN_OWNER_MASK"]), tr, rd, thr))
    return fails, traces, stats


def shape(tr):
    return tuple((e.kind, e.off, e.ok & 1, e.a == 0) for e in tr)


MAX_EMBED_EVENTS = 1500      # a failing round / trace is embedded in the mismatch (for --replay) only below this size
MAX_EMBED = 2                # ... and only for the first few mismatches of a kind


def ev_line(e, obj=None):
    return "E %d %d %d %d %d %d %d %d %d %d %d %d" % (e.thr, e.tid, e.seq, e.kind, e.order, e.obj if obj is None else obj, e.off,
                                                     e.size, e.a, e.b, e.ok, e.line)


def round_text(text, rd):
    """the lines of one round of a harness output (its R and Q line and its recorded events), or None when too large"""
    out = []
    for l in text.split("\n"):
        f = l.split()
        if not f:
            continue
        if f[0] in ("R", "Q") and int(f[1]) == rd:
            out.append(l)
        elif f[0] == "E" and int(f[6]) // 3 == rd:
            out.append(l)
    return out if len(out) <= MAX_EMBED_EVENTS else None


def coq_name(tag):
    return "c15_%d_%s" % (os.getpid(), tag)          # two checks running at once must not write the same cases/*.v


def conform_traces(pairs, tag):
    """SrcData.conform on (self value, trace) pairs, in up to four parallel Coq processes; a part whose evaluation fails (time
    limit, memory) is evaluated once more alone with ten times the limit.  returns (results, error)"""
    if not pairs:
        return [], None
    nparts = 4
    size = (len(pairs) + nparts - 1) // nparts
    parts = [pairs[i:i + size] for i in range(0, len(pairs), size)]
    imports = ["Word", "Conc", "Gen_dqstate", "Gen_srcdata", "SrcData"]

    def conf(ix):
        try:
            return conc.coq_conform(coq_name("conf_%s_p%d" % (tag, ix)), imports, "conform", parts[ix], chunk=250), None
        except (RuntimeError, IndexError) as ex:
            return None, str(ex)
    from concurrent.futures import ThreadPoolExecutor
    with ThreadPoolExecutor(max_workers=nparts) as ex:
        outs = list(ex.map(conf, range(len(parts))))
    res = []
    for ix, (r_, e_) in enumerate(outs):
        if e_ is not None:
            try:      # once more, alone
                r_ = conc.coq_conform(coq_name("conf_%s_p%d_alone" % (tag, ix)), imports, "conform", parts[ix], timeout=9000,
                                      chunk=250)
            except (RuntimeError, IndexError) as ex:
                return [], str(ex)
        if len(r_) != len(parts[ix]):
            return [], "coq conformance returned %d results for %d traces" % (len(r_), len(parts[ix]))
        res += r_
    return res, None


def judge_runs(runs, C, tag="run", want_rounds=None):
    """runs: list of (harness output, label, runinfo).  The whole judgement of recorded runs: API oracles, per-thread conformance
    with SrcData.tstep, global replay on SrcLane.gstep.  returns dict(fails, mism, alltr, total)"""
    fails, mism, alltr, total = [], [], [], {}
    C2 = dict(C)
    C2.update({"LINE_" + k: v for k, v in c15_replay.site_lines().items()})
    rjobs, rmeta, rstats = [], [], {}
    texts = {}
    for text, label, runinfo in runs:
        texts[label] = (text, runinfo)
        f, tr, st = analyse(text, label, C, runinfo)
        fails += f
        alltr += [(sv, t, rd, thr, label) for (sv, t, rd, thr) in tr]
        for k, v in st.items():
            total[k] = total.get(k, 0) + v
        if want_rounds is not None and st["rounds"] != want_rounds:
            mism.append({"what": "the harness recorded %d rounds where %d were requested" % (st["rounds"], want_rounds),
                         "detail": {"label": label, "run": runinfo}})
        # the same recording, as a run of the global lane model
        j_, m_, mm_, rs_ = c15_replay.replay_text(text, label, C2)
        rjobs += j_
        rmeta += m_
        mism += mm_
        for k, v in rs_.items():
            rstats[k] = rstats.get(k, 0) + v
    import threading
    rbox = {}

    def do_replay():
        import time
        t0_ = time.time()
        try:
            rbox["res"], rbox["retried"] = c15_replay.replay_all(coq_name("replay_" + tag), rjobs, rmeta, C2)
            rbox["wall"] = round(time.time() - t0_, 1)
        except Exception as ex:   # noqa
            rbox["err"] = str(ex)
    rth = threading.Thread(target=do_replay)
    rth.start()
    res, err = conform_traces([(sv, t) for (sv, t, _, _, _) in alltr], tag)
    if err is not None:
        mism.append({"what": "trace conformance could not be evaluated in Coq", "detail": {"error": err[-1500:]}})
    elif len(res) != len(alltr):
        mism.append({"what": "trace conformance returned %d verdicts for %d traces" % (len(res), len(alltr)), "detail": {}})
    else:
        for (i, idle), (sv, t, rd, thr, label) in zip(res, alltr):
            if i != -1 or idle != 1:
                lo = max(0, i - 8) if i >= 0 else max(0, len(t) - 12)
                mism.append({"what": "a recorded thread trace of the library is not accepted by the model's thread automaton "
                             "(SrcData.tstep): the implementation took a step the model does not have",
                             "detail": {"label": label, "run": texts[label][1], "round": rd, "thread": thr, "kind_qos": sv,
                                        "rejected_at": i, "ended_idle": idle,
                                        "around": [e.brief() for e in t[lo:(i + 3 if i >= 0 else len(t))]],
                                        "trace": [ev_line(e) for e in t] if len(t) <= MAX_EMBED_EVENTS else None}})
    rth.join()
    if "err" in rbox:
        mism.append({"what": "the global replay on SrcLane.gstep could not be evaluated in Coq",
                     "detail": {"error": rbox["err"][-1500:]}})
    else:
        mm_, nrep = c15_replay.judge(rmeta, rbox["res"], C2)
        mism += mm_
        rstats["rounds_replayed"] = nrep
        rstats["rounds_needing_another_order_proposal"] = rbox.get("retried", 0)
        rstats["wall_s_concurrent_with_the_thread_conformance"] = rbox.get("wall", 0)
    for k, v in rstats.items():
        total["replay_" + k] = v
    # what --replay needs: the parameters of the run and (small rounds only) the recording of the round itself
    nemb = {}
    for m in mism:
        d = m.get("detail")
        if not isinstance(d, dict) or "label" not in d or d["label"] not in texts:
            continue
        d.setdefault("run", texts[d["label"]][1])
        kind = m["what"][:24]
        if "round" in d and "trace" not in d and nemb.get(kind, 0) < MAX_EMBED:
            d["round_recording"] = round_text(texts[d["label"]][0], d["round"])
            nemb[kind] = nemb.get(kind, 0) + 1
        elif d.get("trace") is not None:
            if nemb.get(kind, 0) >= MAX_EMBED:
                d["trace"] = None
            nemb[kind] = nemb.get(kind, 0) + 1
    # (only the first 20 mismatches are kept below: how many of which layer)
    total["mismatches_round_not_readable_as_lane_actions"] = sum(1 for m in mism if m["what"].startswith("a recorded round cannot"))
    total["mismatches_global_replay"] = sum(1 for m in mism if m["what"].startswith("global replay"))
    total["mismatches_thread_automaton"] = sum(1 for m in mism if m["what"].startswith("a recorded thread trace"))
    return dict(fails=fails, mism=mism, alltr=alltr, total=total)


def correspond(ctx):
    C = gen_consts()
    nproc, rounds = (9, 12) if ctx.tier == "quick" else (45, 18)
    runs, pre = [], []
    for i in range(nproc):
        seed = ctx.seed * 1000 + i
        permille = [0, 150, 400][i % 3]
        runinfo = {"seed": seed, "rounds": rounds, "permille": permille}
        text, err = run_harness(ctx, seed, rounds, permille)
        if err is not None:
            pre.append({"what": "a harness run produced no recording: " + err, "detail": {"run": runinfo}})
            continue
        runs.append((text, "seed%d" % seed, runinfo))
    J = judge_runs(runs, C, "main", want_rounds=rounds)
    fails, mism, alltr, total = J["fails"], pre + J["mism"], J["alltr"], J["total"]
    total["harness_runs_requested"] = nproc
    total["harness_runs_recorded"] = len(runs)
    # floors: what was actually measured
    if total.get("rounds", 0) == 0 or not alltr:
        mism.append({"what": "nothing was measured: %d rounds and %d thread traces recorded" % (total.get("rounds", 0), len(alltr)),
                     "detail": {}})
    if total.get("replay_rounds", 0) == 0 or total.get("replay_rounds_replayed", 0) + total.get(
            "mismatches_round_not_readable_as_lane_actions", 0) + total.get("mismatches_global_replay", 0) < total.get("replay_rounds", 0):
        mism.append({"what": "the global replay did not account for every recorded round: %d rounds, %d replayed, %d not readable, "
                     "%d not reproduced" % (total.get("replay_rounds", 0), total.get("replay_rounds_replayed", 0),
                                            total.get("mismatches_round_not_readable_as_lane_actions", 0),
                                            total.get("mismatches_global_replay", 0)), "detail": {}})
    if total.get("handler_calls", 0) == 0 or total.get("merge_calls", 0) == 0:
        mism.append({"what": "no merge_data call or no handler invocation was recorded", "detail": {}})
    distinct = len(set(shape(t) for (_, t, _, _, _) in alltr))
    mergers = [x for x in alltr if any(e.kind == 100 for e in x[1])][:2]
    drainers = [x for x in alltr if any(e.kind == 3 for e in x[1])][:2]
    samples = [{"kind_qos": sv, "trace": [e.brief() for e in t][:40]} for (sv, t, _, _, _) in mergers + drainers]
    return {"evaluations": len(alltr), "distinct_nontrivial": distinct,
            "rule": "custom data sources of kind ADD / OR / REPLACE on serial, concurrent, global and overcommit-root (NULL) target queues; 2..8 pthreads "
                    "merging random values (ADD: small, random 64-bit and wrap-provoking operands; OR: bits and masks; REPLACE: "
                    "unique values; 1/16 zero), a handler that sleeps/yields on a quarter of its calls each, one thread "
                    "suspending and resuming (depth 1-2), merges racing the activation in half of the rounds; schedule "
                    "perturbation inside the library's atomic operations (0/15/40 percent of events).  Every recorded per-thread "
                    "trace (merge threads: ds_pending_data, dq_atomic_flags, dq_state; drain side: ds_pending_data, handler "
                    "marks and lock/unlock/renew derived from the thread's own dq_state writes) is replayed through "
                    "SrcData.tstep inside Coq.  API oracle per source after draining (wait until at rest, then a sentinel "
                    "merge, wait until delivered): ADD sum of delivered = sum of merged mod 2^64, OR unions equal, REPLACE "
                    "delivered values all merged and the sentinel is the last delivered; no handler call with data 0; handler "
                    "never re-entered (atomic flag + stamp intervals); not stuck (progress based: the harness gives up on a source "
                    "only after 12 s in which no operation was recorded and neither ds_pending_data nor dq_state nor the handler "
                    "counters changed).  A harness run that hits its time limit is run once more alone with ten times the limit; "
                    "a failed Coq evaluation likewise.  distinct = distinct shapes of thread traces",
            "samples": samples, "distribution": total, "traces_validated_against_impl": len(alltr),
            "mismatches": mism[:20], "failures": fails[:20]}


def rerun_and_judge(ctx, C, run, tries, tag):
    """the recorded run again (same seed, round count, perturbation); thread schedules differ from run to run, so it is tried a
    few times.  returns (executed, failures + mismatches of the first try that has any)"""
    executed = False
    for k in range(tries):
        text, err = run_harness(ctx, int(run["seed"]), int(run["rounds"]), int(run["permille"]))
        if err is not None:
            print("  re-run could not be executed:", err)
            continue
        executed = True
        J = judge_runs([(text, "seed%d" % int(run["seed"]), dict(run))], C, "%s_%d" % (tag, k), want_rounds=int(run["rounds"]))
        bad = J["fails"] + J["mism"]
        print("  re-run c15_srcdata %s %s %s (#%d): %d failures, %d mismatches" % (run["seed"], run["rounds"], run["permille"],
                                                                               k + 1, len(J["fails"]), len(J["mism"])))
        if bad:
            return True, bad
    return executed, []


def replay(ctx, obj):
    """re-executes what the file records and judges it again: rc 1 reproduces, 0 does not, 2 nothing could be executed"""
    C = gen_consts()
    reproduced, executed, unexecutable = 0, 0, 0
    seen_runs, run_result = set(), {}

    def run_key(r):
        return (int(r["seed"]), int(r["rounds"]), int(r["permille"]))
    for n, f in enumerate(obj.get("failures", [])):
        print("recorded failure:", f.get("what"))
        if not all(k in f for k in ("seed", "rounds", "permille")):
            print("  the entry does not say which run it came from: nothing to execute")
            unexecutable += 1
            continue
        if run_key(f) in seen_runs:
            continue
        seen_runs.add(run_key(f))
        ex, bad = rerun_and_judge(ctx, C, f, 3, "rf%d" % n)
        run_result[run_key(f)] = (ex, bool(bad))
        executed += 1 if ex else 0
        unexecutable += 0 if ex else 1
        for x in bad[:5]:
            print("   reproduces:", x["what"][:600])
        reproduced += 1 if bad else 0
        if ex and not bad:
            print("  does not reproduce")
    for n, b in enumerate(obj.get("broken", [])):
        d = b.get("detail") if isinstance(b, dict) else None
        if not isinstance(b, dict) or b.get("what") != "correspondence" or not isinstance(d, dict):
            print("no longer checked (%s): %s" % (b.get("what") if isinstance(b, dict) else "?", str(d if d is not None else b)[:800]))
            print("  a proof / translation / build entry is not an input that can be executed again: only a full ./check C15 "
                  "re-establishes it")
            unexecutable += 1
            continue
        print("recorded mismatch:", str(d.get("what"))[:600])
        dd = d.get("detail") if isinstance(d.get("detail"), dict) else {}
        # 1. the recorded round / trace itself through the judge again.  This is a verdict about that RECORDING (made with the
        #    library as it was then): it shows whether model and judge still reject it; whether the current build still behaves
        #    like that is what the re-run (2.) says, and the re-run decides whenever it can be executed
        emb = None
        if dd.get("round_recording"):
            J = judge_runs([("\n".join(dd["round_recording"]) + "\n", dd.get("label", "rec"), dd.get("run", {}))], C, "rb%d" % n)
            bad = [m for m in J["mism"] if not m["what"].startswith("the harness recorded")] + J["fails"]
            print("  the recorded round, judged again: %d failures / mismatches" % len(bad))
            for x in bad[:2]:
                print("    still:", x["what"][:400])
            emb = bool(bad)
        elif dd.get("trace"):
            tr = [conc.Ev(l.split()[1:]) for l in dd["trace"]]
            res, err = conform_traces([(int(dd["kind_qos"]), tr)], "rb%d" % n)
            if err is None and len(res) == 1:
                emb = res[0][0] != -1 or res[0][1] != 1
                print("  the recorded thread trace through SrcData.conform again: %s" % (
                    "rejected at %d (ended idle: %d)" % res[0] if emb else "accepted"))
            else:
                print("  the recorded thread trace could not be evaluated:", err)
        # 2. the run it came from, again, against the current build
        run = dd.get("run")
        has_run = isinstance(run, dict) and all(k in run for k in ("seed", "rounds", "permille"))
        if has_run and run_key(run) not in seen_runs:
            ex, bad = rerun_and_judge(ctx, C, run, 2, "rr%d" % n)
            run_result[run_key(run)] = (ex, bool(bad))
            seen_runs.add(run_key(run))
            for x in bad[:5]:
                print("   reproduces:", x["what"][:600])
        ex, rbad = run_result.get(run_key(run), (False, False)) if has_run else (False, False)
        if ex:
            executed += 1
            reproduced += 1 if rbad else 0
            if not rbad:
                print("  the run it came from does not reproduce it on this build")
        elif emb is not None:
            executed += 1
            reproduced += 1 if emb else 0
        else:
            print("  the entry carries no run parameters and no recording (or neither could be executed): only a full ./check C15 "
                  "re-establishes it")
            unexecutable += 1
    if reproduced:
        print("reproduces (%d of the recorded entries)" % reproduced)
        return 1
    if executed and not unexecutable:
        print("does not reproduce")
        return 0
    if executed:
        print("does not reproduce for the %d entries that could be executed; %d entries could not be executed" % (executed,
                                                                                                           unexecutable))
        return 2
    print("nothing could be executed")
    return 2
