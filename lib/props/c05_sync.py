"""C05 (synchronous hand-off) — Model/SyncWait.v: thread automaton tstep + global model of dispatch_sync_f /
dispatch_barrier_sync_f / dispatch_async_and_wait_f / dispatch_async_f / root-queue workers on one serial lane.
Exposes correspond(ctx) for lib/props/c05.py (per-thread trace conformance evaluated in Coq + API-level oracle)."""
import os

import common
import conc
import driver

PROPERTIES_FILE = "Properties/Properties_C05_sync.v"
COQ_DEPS = ["Proofs/SyncWait_proofs.vo", "Proofs/SyncEdges_proofs.vo", "Proofs/SyncWait_example.vo",
            "Proofs/SyncOrder_proofs.vo", "Proofs/SyncOrder_example.vo"]
GEN_MODULES = ["Gen_dqstate", "Gen_lanesites", "Gen_once", "Gen_group", "Gen_sema"]
LEVEL = "proof"
TRUSTED = [
    "Model/SyncWait.v is hand-written control flow around generated pieces (every dq_state rmw body, memory order and constant "
    "comes from Gen_dqstate / Gen_lanesites); it is tied by (a) site-list equalities checked by Coq and (b) per-thread trace "
    "conformance: every recorded thread trace of the real library under stress must be accepted by SyncWait.tstep",
    "atomicity: each os_atomic_* operation is one step; interleaving semantics is sequentially consistent; the C11 memory model "
    "is NOT formalised: the C05_edge_* theorems state the presence and placement of release/acquire pairs on the word that "
    "carries each hand-off (as read from the source on every run) and that the model's consumer proceeds only on a value written "
    "by that release; the hardware half is exercised by the check-summed plain payloads of the stress oracle",
    "scope of the model: one serial lane (width 1) targeting a root queue, never suspended / retargeted, not thread-bound; the "
    "QoS argument of the rmw bodies is existential; steps the hook cannot see (plain reads of dq_items_tail, the store to the "
    "predecessor's do_next, root-queue push/pop) are explicit tau steps",
    "FLAT CLIENTS: SyncWait.tstep accepts a submission call only at Idle, never from inside a work item of the lane; an item that "
    "submits to its own queue (drainer = pusher) is outside the model, outside every C05_sync / C02_sync theorem and is not "
    "produced by the stress harness",
    "group edge: the producer side and the dispatch_group_wait consumer are pinned by C05_edge_group; the consumer side of "
    "dispatch_group_notify (the thread running the notify block performs no acquire on the group's words) is NOT pinned by any theorem",
    "return-after-finish is an invariant of the reachable states (the model's return action is unguarded), not an enabling condition",
    "kernel: futex_wait may return spuriously, FUTEX_WAKE wakes the sleeper on the word; scheduler fairness is assumed for the "
    "no-lost-wake clause (the theorem shows that a wake-up is always pending, not when it is scheduled)",
    "thread lock values (tid & 0x3fffffff) are distinct and non-zero",
]
ASSUMPTIONS = ["fair scheduling for the liveness-as-invariant clause", "x86-64 TSO for the hardware half of the visibility edges"]

IMPORTS = ["Word", "Conc", "Gen_consts", "Gen_dqstate", "Gen_lanesites", "SyncWait", "SyncOrder"]
OFFS = {1: 0, 2: 8, 3: 16}


class XEv(conc.Ev):
    __slots__ = ()

    def __init__(self, e, **kw):
        for n in conc.Ev.__slots__:
            setattr(self, n, kw.get(n, getattr(e, n)))


def _pid_name(name):
    """case files under .cache/cases are shared by every check running at the moment: names carry the tag AND the pid"""
    return "%s_p%d" % (name, os.getpid())


def coq_eval_retry(name, body, timeout=900):
    """one Coq evaluation; a failure (timeout, kill, error) is re-run ONCE, alone, with a 10x limit before it is reported.
    returns (vals or None, raw)"""
    ok, vals, raw = driver.coq_eval(_pid_name(name), IMPORTS, body, timeout=timeout)
    if not ok:
        ok, vals, raw = driver.coq_eval(_pid_name(name) + "_retry", IMPORTS, body, timeout=timeout * 10)
    return (vals if ok else None), raw


def coq_conform_big(name, traces, seg=1200, per_file=45000):
    """conform (SyncWait.v) evaluated in Coq on every trace; every trace is written as a concatenation of short list literals
    (one huge literal overflows coqc's stack).  returns ([(rejected_index, ended_idle) or None (not judged)], [problems])"""
    out, problems, batch, nev = [], [], [], 0

    def flush():
        nonlocal batch, nev
        if not batch:
            return
        body = []
        for k, (sv, tr) in enumerate(batch):
            parts = []
            for j in range(0, max(len(tr), 1), seg):
                body.append("Definition t%d_%d : list event := [%s]." % (k, j // seg, "; ".join(e.coq() for e in tr[j:j + seg])))
                parts.append("t%d_%d" % (k, j // seg))
            body.append("Definition t%d : list event := %s." % (k, " ++ ".join(parts)))
        body.append("Eval vm_compute in [%s]." % "; ".join(
            "(let '(i, d) := conform %d t%d in [i; d])" % (sv, k) for k, (sv, _) in enumerate(batch)))
        vals, raw = coq_eval_retry("%s_%d" % (name, len(out)), "\n".join(body) + "\n")
        xs = driver.ints(vals[0]) if vals is not None and len(vals) == 1 else None
        if xs is None or len(xs) != 2 * len(batch):
            problems.append({"what": "the Coq evaluation of SyncWait.conform failed twice (second time alone with a 10x limit) or printed "
                                     "the wrong number of results: %d recorded traces were NOT judged" % len(batch),
                             "detail": {"coq_output": raw[-1500:]}})
            out.extend([None] * len(batch))
        else:
            out.extend((xs[2 * i], xs[2 * i + 1]) for i in range(len(batch)))
        batch, nev = [], 0

    for sv, tr in traces:
        if batch and nev + len(tr) > per_file:
            flush()
        batch.append((sv, tr))
        nev += len(tr)
    flush()
    return out, problems


def build():
    exe, msg = common.build_harness("c05_sync", ["c05_sync.c"], whitebox=True, extra=["-I" + common.VERIF + "/harness"])
    if exe is None:
        raise RuntimeError("harness build failed: " + msg)
    return exe


HARNESS_TIMEOUT = 240


def run_unit(exe, args):
    """one harness run = one unit (args = [seed, calls, permille, nclients, nfeeders, mix]).  A wall-clock expiry or a
    watchdog exit (rc 3: no progress for 10 s) is re-run ONCE, alone, with a 10x limit; only what the second run shows is
    reported.  returns (text, rc, problems, retried)"""
    cmd = [exe] + [str(x) for x in args]
    r = common.run(cmd, timeout=HARNESS_TIMEOUT)
    retried = 0
    if r.returncode in (124, 3):
        retried = 1
        r = common.run(cmd, timeout=HARNESS_TIMEOUT * 10)
    problems = []
    text = r.stdout or ""
    if r.returncode == 124:
        problems.append({"what": "the harness run did not finish twice (%d s, then %d s alone): no verdict from this run"
                                 % (HARNESS_TIMEOUT, HARNESS_TIMEOUT * 10), "args": list(args), "detail": {"tail": text[-400:]}})
    elif r.returncode not in (0, 1, 3):
        problems.append({"what": "the harness died (rc %s): no verdict from this run" % r.returncode, "args": list(args),
                         "detail": {"stderr": (r.stderr or "")[-800:], "tail": text[-400:]}})
    elif r.returncode != 3 and not any(l.startswith("S ") for l in text.split("\n")):
        problems.append({"what": "the harness output is empty or truncated (no final statistics line): no verdict from this run",
                         "args": list(args), "detail": {"rc": r.returncode, "tail": text[-400:]}})
    return text, r.returncode, problems, retried


def judge_traces(name, alltr):
    """per-thread conformance of (self, trace, thread, label, args) entries; returns (mismatches, events judged, shapes)"""
    mism, shapes, nev = [], set(), 0
    res, problems = coq_conform_big(name, [(sv, t) for (sv, t, _, _, _) in alltr])
    mism += problems
    if len(res) != len(alltr):
        mism.append({"what": "internal: %d conformance results for %d traces" % (len(res), len(alltr)), "detail": {}})
    for r, (sv, t, thr, label, args) in zip(res, alltr):
        if r is None:
            continue
        i, idle = r
        nev += len(t)
        if i != -1 or idle != 1:
            lo = max(0, i - 12)
            mism.append({"what": "a recorded thread trace of the library is not accepted by the model's thread automaton "
                                 "(SyncWait.tstep): the implementation took a step the model does not have",
                         "args": list(args), "trace_end_only": bool(i == -1),
                         "detail": {"run": label, "thread": thr, "self": sv, "rejected_at": i, "ended_idle": idle,
                                    "around": [e.brief() for e in t[lo:i + 3]] if i >= 0 else [e.brief() for e in t[-10:]]}})
        cur = []
        for e in t:
            cur.append(e)
            if e.kind == 101:
                shapes.add(shape(cur))
                cur = []
        if cur:
            shapes.add(shape(cur[:60]))
    return mism, nev, shapes


def stress_unit(exe, args, label=None):
    """run + API oracle of one stress / retarget unit; returns (failures, problems, traces[(sv, t, thr, label, args)], stats, retried)"""
    label = label or "seed%d/%d/%d/%d/%d/%d" % tuple(args)
    text, rc, problems, retried = run_unit(exe, args)
    f, tr, st = analyse(text, label)
    for x in f:
        x["args"] = list(args)
    if not problems and args[5] != 9 and not tr:
        problems.append({"what": "the harness recorded no event at all (hook compiled out?): nothing to judge in this run",
                         "args": list(args), "detail": {}})
    return f, problems, [(sv, t, thr, label, list(args)) for (sv, t, thr) in tr], st, retried


def overtake(exe, seed, tag="c05s"):
    """the fixed overtake schedule (harness mix 10): API oracle + the whole run, globally ordered, replayed through the
    model in Coq (SyncOrder.xreplay) with the tail-tested fast path (tstep) and with the old one (tstep_old)"""
    args = [seed, 0, 0, 0, 0, 10]
    label = "overtake/seed%d" % seed
    fails, mism, traces, st, retried = stress_unit(exe, args, label)
    info = {}
    # the harness text is needed once more for the OT line: stress_unit does not keep it, so the line is carried in stats
    info = dict(st.get("_ot", {}))
    if not mism and "schedule_reached" not in info:
        mism.append({"what": "the overtake scenario printed no OT line (truncated output): no verdict from this run", "args": args, "detail": {}})
    evs = sorted((e for (_, tr, _, _, _) in traces for e in tr), key=lambda e: e.seq)[:4000]   # a prefix is replayed when the run is long
    if not evs:
        return fails, mism, traces, st, info, 0, label
    ths = sorted({e.tid & 0x3fffffff for e in evs})
    body, parts = [], []
    for j in range(0, len(evs), 400):
        body.append("Definition g%d : list (Z * event) := [%s]." % (j // 400, "; ".join(
            "(%d, %s)" % (e.tid & 0x3fffffff, e.coq()) for e in evs[j:j + 400])))
        parts.append("g%d" % (j // 400))
    body.append("Definition g : list (Z * event) := %s." % " ++ ".join(parts))
    for ts in ("tstep", "tstep_old"):
        body.append("Eval vm_compute in (let '(i, okb) := xreplay %s %s (init_state, h0) g 0 true in [i; if okb then 1 else 0])."
                    % (ts, driver.zlist(ths)))
    vals, raw = coq_eval_retry("%s_overtake_%d" % (tag, seed), "\n".join(body) + "\n")
    if vals is None or len(vals) != 2:
        mism.append({"what": "the Coq replay of the overtake schedule failed twice (second time alone with a 10x limit): the recorded "
                             "run was NOT judged", "args": args, "detail": {"coq_output": raw[-1500:]}})
        return fails, mism, traces, st, info, 0, label
    new, old = driver.ints(vals[0]), driver.ints(vals[1])
    if new[0] != -1 or new[1] != 1:
        i = new[0]
        lo = max(0, i - 10)
        mism.append({"what": "the recorded overtake schedule (worker about to unlock after an empty list, first enqueuer stalled "
                             "after its tail exchange, second enqueuer returns without wakeup, then dispatch_sync by the same thread) "
                             "is not a run of the model with the tail test in the fast path (SyncWait.tstep, S_ftail)",
                     "args": args,
                     "detail": {"run": label, "rejected_at": i, "order_ok": new[1], "schedule": info,
                                "old_fast_path_model": {"accepts": old[0] == -1, "order_ok": old[1],
                                                        "reading": "accepted by SyncWait.tstep_old with order_ok = 0: the library behaves "
                                                                   "like the model WITHOUT the tail test (libdispatch before 43b9c73)"
                                                                   if old[0] == -1 and old[1] == 0 else ""},
                                "around": ["t%d %s" % (e.tid & 0x3fffffff, e.brief()) for e in evs[lo:i + 3]] if i >= 0 else []}})
    return fails, mism, traces, st, info, len(evs), label


def normalise(per):
    """recorder events -> model events: queue words become (obj 0, offset 0/8/16); the thread event of a waiter becomes
    (obj = its lock value, offset 0); the do_next links of contexts living on a tracked stack (8-byte accesses) are not
    part of the model (taus) and are dropped"""
    out = {}
    for thr, evs in per.items():
        tr = []
        for e in evs:
            if e.kind >= 100:
                tr.append(XEv(e, off=0, size=0))
            elif e.obj in OFFS:
                tr.append(XEv(e, obj=0, off=OFFS[e.obj]))
            elif e.size == 4 or e.kind in (32, 33, 34):
                tr.append(XEv(e, obj=e.obj & 0x3fffffff, off=0))
        if tr:
            out[thr] = tr
    return out


def shape(tr):
    """the control-flow shape of one call / drain session (for distinct counting)"""
    return tuple((e.kind, e.order, 0 if e.obj == 0 else 1, e.off, e.ok & 1,
                  (e.a == 0) if e.kind in (1, 3) else (e.a == 4294967295 if e.kind in (6, 7) else 0)) for e in tr)


def analyse(text, label):
    other, per = conc.parse_dump(text)
    fails, stats = [], {}
    for l in other:
        if l.startswith("FAIL "):
            what = l[5:]
            key = "%s:%s" % (label, " ".join(what.split()[:4]))
            if not any(f["key"] == key for f in fails):
                fails.append({"key": key, "what": what[:300], "label": label})
        elif l.startswith("OT "):
            stats["_ot"] = {k: int(v) for k, _, v in (tok.partition("=") for tok in l.split()[1:])}
        elif l.startswith("S "):
            for tok in l.split()[1:]:
                k, _, v = tok.partition("=")
                if k in ("items", "async", "self_run", "drainer_run"):
                    stats[k] = int(v)
    traces = []
    for thr, tr in sorted(normalise(per).items()):
        traces.append((tr[0].tid & 0x3fffffff, tr, thr))
    return fails, traces, stats


def branch_stats(traces, dist):
    """how often each branch of the model was exercised (no source line numbers involved)"""
    def inc(k, n=1):
        dist[k] = dist.get(k, 0) + n
    for _, tr, _ in traces:
        incall = 0
        for i, e in enumerate(tr):
            pv = tr[i - 1] if i > 0 else None
            if e.kind == 100:
                incall = e.obj
            elif e.kind == 101:
                if incall == 3 and pv is not None and pv.kind == 1 and pv.obj != 0:
                    inc("async_and_wait_returned_after_remote_run")
                incall = 0
            if e.kind == 5 and e.obj == 0 and not (e.ok & 1):
                inc("cas_failures_on_dq_state")
            if e.kind == 5 and e.obj == 0 and e.order == 2 and (e.ok & 1):
                inc("fast_path_acquired" if incall else "worker_lock_attempts_committed")
            if e.kind == 7 and e.obj != 0:
                inc("wait_dec_saw_signal" if e.a == 1 else "wait_dec_before_signal")
            if e.kind == 6 and e.obj != 0:
                inc("signal_before_wait" if e.a == 0 else "signal_after_wait_needs_futex_wake")
                if pv is not None and pv.kind == 5 and pv.obj == 0 and (pv.ok & 1):
                    inc("lock_transfers_by_worker" if not incall else "lock_transfers_by_sync_caller")
                    if e.obj == (e.tid & 0x3fffffff):
                        inc("waiter_took_lock_and_handed_it_to_itself")
                elif pv is not None and pv.kind == 103:
                    inc("remote_run_signals")
            if e.kind == 32:
                inc("futex_waits")
            if e.kind == 33 and e.b != 0:
                inc("futex_wait_returned_without_sleeping_or_eintr")
            if e.kind == 10 and e.obj == 0:
                inc("dirty_xor_retries")
            if e.kind == 4 and e.obj == 0 and e.off == 8:
                inc("pop_tail_cas_ok" if (e.ok & 1) else "pop_tail_cas_lost_to_enqueuer")
            if e.kind == 1 and e.obj == 0 and e.off == 16 and e.a == 0:
                inc("head_not_yet_linked_spins")
            if e.kind == 5 and e.obj == 0 and e.order == 3 and (e.ok & 1) and incall in (1, 2, 3) and pv is not None \
                    and pv.kind == 1 and pv.obj == 0 and i >= 2 and tr[i - 2].kind == 103:
                inc("inline_unlock_after_fast_path")


PLANS = {   # (calls, permille, clients, feeders, mix)
    "quick": [(40, 0, 6, 2, 0), (40, 200, 6, 1, 0), (30, 400, 8, 2, 0), (80, 150, 3, 0, 0), (40, 250, 5, 1, 3), (40, 100, 2, 1, 2)],
    "thorough": [(150, 0, 6, 2, 0), (150, 200, 6, 1, 0), (120, 400, 8, 2, 0), (200, 150, 3, 0, 0), (150, 250, 5, 1, 3),
                 (150, 100, 2, 1, 2), (150, 300, 10, 3, 0), (200, 50, 4, 0, 1), (150, 350, 4, 2, 3), (100, 500, 12, 2, 0)],
}


# the order part registered under C02 (lib/props/c02_sync.py): fewer stress runs, same oracle, the overtake schedule
ORDER_PLANS = {
    "quick": [(40, 150, 4, 1, 0), (60, 100, 3, 0, 1), (40, 300, 5, 1, 0)],
    "thorough": [(150, 150, 4, 1, 0), (200, 100, 3, 0, 1), (150, 300, 5, 1, 0), (150, 0, 6, 2, 2), (150, 400, 8, 1, 3), (200, 50, 2, 0, 0)],
}


def judge_unit(exe, args, tag):
    """run one unit with the recorded parameters against the current build and judge it completely (API oracle, per-thread
    conformance, whole-run replay for the overtake schedule); returns (failures, mismatches, traces, stats, info, retried)"""
    if args[5] == 10:
        f, m, tr, st, info, nge, label = overtake(exe, args[0], tag)
        info = dict(info, whole_run_events=nge)
        if not m and not info.get("schedule_reached"):
            info["not_reached"] = 1
        return f, m, tr, st, info, 0
    f, m, tr, st, retried = stress_unit(exe, args, "retarget/seed%d" % args[0] if args[5] == 9 else None)
    return f, m, tr, st, {}, retried


def correspond(ctx, tag="c05s", plans=None, retarget=True):
    exe = build()
    plan = (plans or PLANS)["quick" if ctx.tier == "quick" else "thorough"]
    fails, mism, alltr, dist = [], [], [], {}
    nitems = 0
    units = [[ctx.seed * 1000 + i, calls, pm, ncl, nfd, mix] for i, (calls, pm, ncl, nfd, mix) in enumerate(plan)]
    # oracle-only scenario: synchronous calls through a retargeted queue never overlap items of its serial target
    units += [[ctx.seed * 1000 + 500 + j, 150, [0, 200][j % 2], 0, 0, 9] for j in range((2 if ctx.tier == "quick" else 6) if retarget else 0)]
    measured = 0
    for args in units:
        f, m, tr, st, _, retried = judge_unit(exe, args, tag)
        fails += f
        mism += m
        dist["harness_runs_rerun_after_timeout_or_watchdog"] = dist.get("harness_runs_rerun_after_timeout_or_watchdog", 0) + retried
        if not m and (tr or args[5] == 9) and st.get("items", 0) > 0:
            measured += 1
        nitems += st.get("items", 0)
        if args[5] == 9:
            dist["retarget_scenario_items"] = dist.get("retarget_scenario_items", 0) + st.get("items", 0)
            continue
        for k in ("self_run", "drainer_run", "async"):
            dist[k] = dist.get(k, 0) + st.get(k, 0)
        branch_stats([(sv, t, thr) for (sv, t, thr, _, _) in tr], dist)
        alltr += tr
    dist["stress_runs_requested"], dist["stress_runs_measured"] = len(units), measured
    if measured < len(units) and not mism:
        mism.append({"what": "only %d of the %d requested harness runs produced a verdict" % (measured, len(units)), "detail": {}})
    # the fixed overtake schedule: API oracle, per-thread conformance and whole-run replay
    reached, tried = 0, []
    want = 1 if ctx.tier == "quick" else 2
    for j in range(5 if ctx.tier == "quick" else 8):
        args = [ctx.seed * 1000 + 700 + j, 0, 0, 0, 0, 10]
        f, m, tr, st, info, _ = judge_unit(exe, args, tag)
        tried.append(args)
        fails += f
        mism += m
        nitems += st.get("items", 0)
        alltr += tr
        reached += info.get("schedule_reached", 0)
        dist["overtake_schedule_runs"] = dist.get("overtake_schedule_runs", 0) + 1
        dist["overtake_whole_run_events_replayed"] = dist.get("overtake_whole_run_events_replayed", 0) + info.get("whole_run_events", 0)
        if f or m or reached >= want:
            break
    dist["overtake_schedule_reached"] = reached
    if not reached and not any(x.get("args", [0] * 6)[5] == 10 for x in mism):
        mism.append({"what": "the overtake schedule was never reached in %d runs (the holds in the hook did not produce the idle word "
                             "with queued items): the scenario no longer exercises the tail test" % len(tried),
                     "args_list": tried, "detail": {}})
    m, nev, shapes = judge_traces(tag + "_conf", alltr)
    # a trace that merely ENDS away from Idle (nothing rejected) can be a recording cut short on a loaded machine: that run is
    # repeated once and only what the repetition shows is reported
    ends = [x for x in m if x.get("trace_end_only")]
    if ends:
        m = [x for x in m if not x.get("trace_end_only")]
        for args in {tuple(x["args"]) for x in ends}:
            f2, m2, tr2, st2, _, _ = judge_unit(exe, list(args), tag)
            m3, nev3, _ = judge_traces(tag + "_conf_again", tr2)
            if f2 or m2 or m3:
                fails += f2
                m += m2 + m3
            else:
                dist["runs_repeated_because_a_trace_ended_away_from_idle_and_clean_then"] = \
                    dist.get("runs_repeated_because_a_trace_ended_away_from_idle_and_clean_then", 0) + 1
    mism += m
    if nev <= 0 or not alltr:
        mism.append({"what": "no recorded event was judged against the model in this run (traces: %d, events judged: %d): nothing "
                             "ties SyncWait.tstep to the code" % (len(alltr), nev), "detail": {}})
    samples = [{"self": sv, "thread": thr, "run": label, "first_events": [e.brief() for e in t[:25]]} for (sv, t, thr, label, _) in alltr[:3]]
    return {"evaluations": nev, "distinct_nontrivial": len(shapes),
            "rule": "stress runs of harness/c05_sync.c: 2..12 client threads calling dispatch_sync_f / dispatch_barrier_sync_f / "
                    "dispatch_async_and_wait_f on ONE serial queue kept busy by feeder threads with dispatch_async_f bursts, schedule "
                    "perturbation inside the library's atomic operations (0..50 percent of events); every atomic operation on "
                    "dq_state / dq_items_tail / dq_items_head and on the waiters' thread events, futex calls and call/return/callout "
                    "marks are recorded per thread and each thread's whole trace is replayed through SyncWait.tstep (tau-closed) inside "
                    "Coq; API-level oracle on the same runs: return stamp after the item's end stamp, run count exactly one, overlap "
                    "counter of the serial queue, check-summed plain payloads (submitter -> item, item -> next item, item -> caller "
                    "after return); order oracle for any mix of submission kinds (clients also submit dispatch_async_f items): no item "
                    "starts before the previous item of the same thread has finished, and (post-hoc on the stamps) before every item "
                    "whose call had returned before its own call began has finished; the fixed overtake schedule of libdispatch 43b9c73 "
                    "(two threads held in the hook) recorded and replayed as ONE globally ordered run through the model in Coq "
                    "(SyncOrder.xreplay: taus searched), which must accept it with order_ok; evaluations = recorded events replayed; "
                    "distinct = distinct control-flow shapes of calls / drain sessions; a harness run that hits its wall-clock limit or its "
                    "no-progress watchdog, and a Coq evaluation that fails, are repeated once alone with a 10x limit before anything is "
                    "reported; a run whose only defect is a trace ending away from Idle is repeated once; runs without a verdict, "
                    "unjudged traces and zero judged events are mismatches; evaluations counts judged events only",
            "samples": samples, "distribution": dist, "traces_validated_against_impl": len(alltr), "items_judged": nitems,
            "mismatches": mism[:20], "failures": fails[:20]}


def replay(ctx, obj):
    """re-executes every recorded failing input (same seed / calls / permille / clients / feeders / scenario) against the
    current build and judges it again completely.  1 = a failure or mismatch shows again, 0 = every recorded input was re-run
    and is clean now, 2 = nothing (or not everything) could be re-executed and nothing reproduced"""
    exe = build()
    tag = "c05s_replay"
    units, nonexec = [], []

    def add(a):
        a = [int(x) for x in a]
        if len(a) == 6 and a not in units:
            units.append(a)

    for f in obj.get("failures", []):
        print("recorded failure:", f.get("what"))
        if f.get("args"):
            add(f["args"])
        else:
            nonexec.append(f.get("what"))
    for b in obj.get("broken", []):
        d = b.get("detail") if isinstance(b, dict) else None
        if isinstance(d, dict) and d.get("args"):
            print("recorded broken tie:", str(d.get("what"))[:200])
            add(d["args"])
        elif isinstance(d, dict) and d.get("args_list"):
            print("recorded broken tie:", str(d.get("what"))[:200])
            for a in d["args_list"]:
                add(a)
        else:
            nonexec.append("%s: %s" % (b.get("what") if isinstance(b, dict) else "entry", str(d if d is not None else b)[:300]))
    repro = 0
    for args in units:
        f, m, tr, st, info, _ = judge_unit(exe, args, tag)
        if args[5] not in (9, 10):
            m2, _, _ = judge_traces(tag + "_conf", tr)
            m += m2
        elif args[5] == 10:
            m2, _, _ = judge_traces(tag + "_conf", tr)
            m += m2
            if not m and not info.get("schedule_reached"):
                m.append({"what": "the overtake schedule was not reached in this re-run"})
        if f or m:
            repro += 1
            print("re-run %s: REPRODUCES (%d failures, %d mismatches)" % (args, len(f), len(m)))
            for x in f[:5]:
                print("   FAIL", x["what"])
            for x in m[:5]:
                print("   MISMATCH", str(x.get("what"))[:300])
        else:
            print("re-run %s: does not reproduce (items judged %s, traces %d; stress schedules differ from run to run)" % (args, st.get("items"), len(tr)))
    for n in nonexec:
        print("no longer checked, and not re-executable by itself (a proof, a translation, a build or a tie without a recorded "
              "input): %s -- only a full ./check re-establishes it" % n)
    if repro:
        return 1
    if units and not nonexec:
        print("does not reproduce")
        return 0
    return 2
