"""C05 (synchronous hand-off) — Model/SyncWait.v: thread automaton tstep + global model of dispatch_sync_f /
dispatch_barrier_sync_f / dispatch_async_and_wait_f / dispatch_async_f / root-queue workers on one serial lane.
Exposes correspond(ctx) for lib/props/c05.py (per-thread trace conformance evaluated in Coq + API-level oracle)."""
import common
import conc
import driver

PROPERTIES_FILE = "Properties/Properties_C05_sync.v"
COQ_DEPS = ["Proofs/SyncWait_proofs.vo", "Proofs/SyncEdges_proofs.vo", "Proofs/SyncWait_example.vo",
            "Proofs/SyncOrder_proofs.vo", "Proofs/SyncOrder_example.vo"]
GEN_MODULES = ["Gen_dqstate", "Gen_lanesites", "Gen_once", "Gen_group", "Gen_sema"]
LEVEL = "proof"
TRUSTED = [
    "Model/SyncWait.v is hand-written control flow around generated pieces (every dq_state rmw body, memory order and constant "
    "comes from Gen_dqstate / Gen_lanesites); it is tied by (a) site-list equalities checked by Coq and (b) per-thread trace "
    "conformance: every recorded thread trace of the real library under stress must be accepted by SyncWait.tstep",
    "atomicity: each os_atomic_* operation is one step; interleaving semantics is sequentially consistent; the C11 memory model "
    "is NOT formalised: the C05_edge_* theorems state the presence and placement of release/acquire pairs on the word that "
    "carries each hand-off (as read from the source on every run) and that the model's consumer proceeds only on a value written "
    "by that release; the hardware half is exercised by the check-summed plain payloads of the stress oracle",
    "scope of the model: one serial lane (width 1) targeting a root queue, never suspended / retargeted, not thread-bound; the "
    "QoS argument of the rmw bodies is existential; steps the hook cannot see (plain reads of dq_items_tail, the store to the "
    "predecessor's do_next, root-queue push/pop) are explicit tau steps",
    "kernel: futex_wait may return spuriously, FUTEX_WAKE wakes the sleeper on the word; scheduler fairness is assumed for the "
    "no-lost-wake clause (the theorem shows that a wake-up is always pending, not when it is scheduled)",
    "thread lock values (tid & 0x3fffffff) are distinct and non-zero",
]
ASSUMPTIONS = ["fair scheduling for the liveness-as-invariant clause", "x86-64 TSO for the hardware half of the visibility edges"]

IMPORTS = ["Word", "Conc", "Gen_consts", "Gen_dqstate", "Gen_lanesites", "SyncWait", "SyncOrder"]
OFFS = {1: 0, 2: 8, 3: 16}


class XEv(conc.Ev):
    __slots__ = ()

    def __init__(self, e, **kw):
        for n in conc.Ev.__slots__:
            setattr(self, n, kw.get(n, getattr(e, n)))


def coq_conform_big(name, traces, seg=1200, per_file=45000):  # noqa
    """like conc.coq_conform, for long traces: every trace is written as a concatenation of short list literals (one
    huge literal overflows coqc's stack); returns [(rejected_index, ended_idle)] in order"""
    out, batch, nev = [], [], 0

    def flush():
        nonlocal batch, nev
        if not batch:
            return
        body = []
        for k, (sv, tr) in enumerate(batch):
            parts = []
            for j in range(0, max(len(tr), 1), seg):
                body.append("Definition t%d_%d : list event := [%s]." % (k, j // seg, "; ".join(e.coq() for e in tr[j:j + seg])))
                parts.append("t%d_%d" % (k, j // seg))
            body.append("Definition t%d : list event := %s." % (k, " ++ ".join(parts)))
        body.append("Eval vm_compute in [%s]." % "; ".join(
            "(let '(i, d) := conform %d t%d in [i; d])" % (sv, k) for k, (sv, _) in enumerate(batch)))
        ok, vals, raw = driver.coq_eval("%s_%d" % (name, len(out)), IMPORTS, "\n".join(body) + "\n", timeout=900)
        if not ok or len(vals) != 1:
            raise RuntimeError("coq conformance evaluation failed: " + raw[-2000:])
        xs = driver.ints(vals[0])
        out.extend((xs[2 * i], xs[2 * i + 1]) for i in range(len(batch)))
        batch, nev = [], 0

    for sv, tr in traces:
        if batch and nev + len(tr) > per_file:
            flush()
        batch.append((sv, tr))
        nev += len(tr)
    flush()
    return out


def overtake(exe, seed, tag="c05s"):
    """the fixed overtake schedule (harness mix 10): API oracle + the whole run, globally ordered, replayed through the
    model in Coq (SyncOrder.xreplay) with the tail-tested fast path (tstep) and with the old one (tstep_old)"""
    text, rc = run_harness(exe, seed, 0, 0, 0, 0, 10)
    label = "overtake/seed%d" % seed
    fails, traces, st = analyse(text, label)
    for x in fails:
        x["args"] = [seed, 0, 0, 0, 0, 10]
    info = {}
    for l in text.split("\n"):
        if l.startswith("OT "):
            for tok in l.split()[1:]:
                k, _, v = tok.partition("=")
                info[k] = int(v)
    evs = sorted((e for (_, tr, _) in traces for e in tr), key=lambda e: e.seq)[:4000]   # a prefix is replayed when the run is long
    ths = sorted({e.tid & 0x3fffffff for e in evs})
    body, parts = [], []
    for j in range(0, max(len(evs), 1), 400):
        body.append("Definition g%d : list (Z * event) := [%s]." % (j // 400, "; ".join(
            "(%d, %s)" % (e.tid & 0x3fffffff, e.coq()) for e in evs[j:j + 400])))
        parts.append("g%d" % (j // 400))
    body.append("Definition g : list (Z * event) := %s." % " ++ ".join(parts))
    for ts in ("tstep", "tstep_old"):
        body.append("Eval vm_compute in (let '(i, okb) := xreplay %s %s (init_state, h0) g 0 true in [i; if okb then 1 else 0])."
                    % (ts, driver.zlist(ths)))
    ok, vals, raw = driver.coq_eval("%s_overtake_%d" % (tag, seed), IMPORTS, "\n".join(body) + "\n", timeout=900)
    if not ok or len(vals) != 2:
        raise RuntimeError("coq replay of the overtake schedule failed: " + raw[-2000:])
    new, old = driver.ints(vals[0]), driver.ints(vals[1])
    mism = []
    if new[0] != -1 or new[1] != 1:
        i = new[0]
        lo = max(0, i - 10)
        mism.append({"what": "the recorded overtake schedule (worker about to unlock after an empty list, first enqueuer stalled "
                             "after its tail exchange, second enqueuer returns without wakeup, then dispatch_sync by the same thread) "
                             "is not a run of the model with the tail test in the fast path (SyncWait.tstep, S_ftail)",
                     "detail": {"run": label, "rejected_at": i, "order_ok": new[1], "schedule": info,
                                "old_fast_path_model": {"accepts": old[0] == -1, "order_ok": old[1],
                                                        "reading": "accepted by SyncWait.tstep_old with order_ok = 0: the library behaves "
                                                                   "like the model WITHOUT the tail test (libdispatch before 43b9c73)"
                                                                   if old[0] == -1 and old[1] == 0 else ""},
                                "around": ["t%d %s" % (e.tid & 0x3fffffff, e.brief()) for e in evs[lo:i + 3]] if i >= 0 else []}})
    return fails, mism, traces, st, info, len(evs), label


def build():
    exe, msg = common.build_harness("c05_sync", ["c05_sync.c"], whitebox=True, extra=["-I" + common.VERIF + "/harness"])
    if exe is None:
        raise RuntimeError("harness build failed: " + msg)
    return exe


def run_harness(exe, seed, calls, permille, nclients, nfeeders, mix=0):
    r = common.run([exe, str(seed), str(calls), str(permille), str(nclients), str(nfeeders), str(mix)], timeout=240)
    if r.returncode not in (0, 1, 3):
        raise RuntimeError("harness died rc=%s: %s" % (r.returncode, (r.stderr or "")[-1500:]))
    return r.stdout, r.returncode


def normalise(per):
    """recorder events -> model events: queue words become (obj 0, offset 0/8/16); the thread event of a waiter becomes
    (obj = its lock value, offset 0); the do_next links of contexts living on a tracked stack (8-byte accesses) are not
    part of the model (taus) and are dropped"""
    out = {}
    for thr, evs in per.items():
        tr = []
        for e in evs:
            if e.kind >= 100:
                tr.append(XEv(e, off=0, size=0))
            elif e.obj in OFFS:
                tr.append(XEv(e, obj=0, off=OFFS[e.obj]))
            elif e.size == 4 or e.kind in (32, 33, 34):
                tr.append(XEv(e, obj=e.obj & 0x3fffffff, off=0))
        if tr:
            out[thr] = tr
    return out


def shape(tr):
    """the control-flow shape of one call / drain session (for distinct counting)"""
    return tuple((e.kind, e.order, 0 if e.obj == 0 else 1, e.off, e.ok & 1,
                  (e.a == 0) if e.kind in (1, 3) else (e.a == 4294967295 if e.kind in (6, 7) else 0)) for e in tr)


def analyse(text, label):
    other, per = conc.parse_dump(text)
    fails, stats = [], {}
    for l in other:
        if l.startswith("FAIL "):
            what = l[5:]
            key = "%s:%s" % (label, " ".join(what.split()[:4]))
            if not any(f["key"] == key for f in fails):
                fails.append({"key": key, "what": what[:300], "label": label})
        elif l.startswith("S "):
            for tok in l.split()[1:]:
                k, _, v = tok.partition("=")
                if k in ("items", "async", "self_run", "drainer_run"):
                    stats[k] = int(v)
    traces = []
    for thr, tr in sorted(normalise(per).items()):
        traces.append((tr[0].tid & 0x3fffffff, tr, thr))
    return fails, traces, stats


def branch_stats(traces, dist):
    """how often each branch of the model was exercised (no source line numbers involved)"""
    def inc(k, n=1):
        dist[k] = dist.get(k, 0) + n
    for _, tr, _ in traces:
        incall = 0
        for i, e in enumerate(tr):
            pv = tr[i - 1] if i > 0 else None
            if e.kind == 100:
                incall = e.obj
            elif e.kind == 101:
                if incall == 3 and pv is not None and pv.kind == 1 and pv.obj != 0:
                    inc("async_and_wait_returned_after_remote_run")
                incall = 0
            if e.kind == 5 and e.obj == 0 and not (e.ok & 1):
                inc("cas_failures_on_dq_state")
            if e.kind == 5 and e.obj == 0 and e.order == 2 and (e.ok & 1):
                inc("fast_path_acquired" if incall else "worker_lock_attempts_committed")
            if e.kind == 7 and e.obj != 0:
                inc("wait_dec_saw_signal" if e.a == 1 else "wait_dec_before_signal")
            if e.kind == 6 and e.obj != 0:
                inc("signal_before_wait" if e.a == 0 else "signal_after_wait_needs_futex_wake")
                if pv is not None and pv.kind == 5 and pv.obj == 0 and (pv.ok & 1):
                    inc("lock_transfers_by_worker" if not incall else "lock_transfers_by_sync_caller")
                    if e.obj == (e.tid & 0x3fffffff):
                        inc("waiter_took_lock_and_handed_it_to_itself")
                elif pv is not None and pv.kind == 103:
                    inc("remote_run_signals")
            if e.kind == 32:
                inc("futex_waits")
            if e.kind == 33 and e.b != 0:
                inc("futex_wait_returned_without_sleeping_or_eintr")
            if e.kind == 10 and e.obj == 0:
                inc("dirty_xor_retries")
            if e.kind == 4 and e.obj == 0 and e.off == 8:
                inc("pop_tail_cas_ok" if (e.ok & 1) else "pop_tail_cas_lost_to_enqueuer")
            if e.kind == 1 and e.obj == 0 and e.off == 16 and e.a == 0:
                inc("head_not_yet_linked_spins")
            if e.kind == 5 and e.obj == 0 and e.order == 3 and (e.ok & 1) and incall in (1, 2, 3) and pv is not None \
                    and pv.kind == 1 and pv.obj == 0 and i >= 2 and tr[i - 2].kind == 103:
                inc("inline_unlock_after_fast_path")


PLANS = {   # (calls, permille, clients, feeders, mix)
    "quick": [(40, 0, 6, 2, 0), (40, 200, 6, 1, 0), (30, 400, 8, 2, 0), (80, 150, 3, 0, 0), (40, 250, 5, 1, 3), (40, 100, 2, 1, 2)],
    "thorough": [(150, 0, 6, 2, 0), (150, 200, 6, 1, 0), (120, 400, 8, 2, 0), (200, 150, 3, 0, 0), (150, 250, 5, 1, 3),
                 (150, 100, 2, 1, 2), (150, 300, 10, 3, 0), (200, 50, 4, 0, 1), (150, 350, 4, 2, 3), (100, 500, 12, 2, 0)],
}


# the order part registered under C02 (lib/props/c02_sync.py): fewer stress runs, same oracle, the overtake schedule
ORDER_PLANS = {
    "quick": [(40, 150, 4, 1, 0), (60, 100, 3, 0, 1), (40, 300, 5, 1, 0)],
    "thorough": [(150, 150, 4, 1, 0), (200, 100, 3, 0, 1), (150, 300, 5, 1, 0), (150, 0, 6, 2, 2), (150, 400, 8, 1, 3), (200, 50, 2, 0, 0)],
}


def correspond(ctx, tag="c05s", plans=None, retarget=True):
    exe = build()
    plan = (plans or PLANS)["quick" if ctx.tier == "quick" else "thorough"]
    fails, mism, alltr, dist, shapes = [], [], [], {}, set()
    nitems = 0
    for i, (calls, pm, ncl, nfd, mix) in enumerate(plan):
        seed = ctx.seed * 1000 + i
        text, rc = run_harness(exe, seed, calls, pm, ncl, nfd, mix)
        label = "seed%d/%d/%d/%d/%d/%d" % (seed, calls, pm, ncl, nfd, mix)
        f, tr, st = analyse(text, label)
        for x in f:
            x["args"] = [seed, calls, pm, ncl, nfd, mix]
        fails += f
        nitems += st.get("items", 0)
        for k in ("self_run", "drainer_run", "async"):
            dist[k] = dist.get(k, 0) + st.get(k, 0)
        branch_stats(tr, dist)
        alltr += [(sv, t, thr, label) for (sv, t, thr) in tr]
    # oracle-only scenario: synchronous calls through a retargeted queue never overlap items of its serial target
    for j in range((2 if ctx.tier == "quick" else 6) if retarget else 0):
        seed = ctx.seed * 1000 + 500 + j
        text, rc = run_harness(exe, seed, 150, [0, 200][j % 2], 0, 0, 9)
        f, _, st = analyse(text, "retarget/seed%d" % seed)
        for x in f:
            x["args"] = [seed, 150, [0, 200][j % 2], 0, 0, 9]
        fails += f
        nitems += st.get("items", 0)
        dist["retarget_scenario_items"] = dist.get("retarget_scenario_items", 0) + st.get("items", 0)
    # the fixed overtake schedule: API oracle, per-thread conformance and whole-run replay
    reached = 0
    for j in range(3 if ctx.tier == "quick" else 6):
        f, m, tr, st, info, nge, label = overtake(exe, ctx.seed * 1000 + 700 + j, tag)
        fails += f
        mism += m
        nitems += st.get("items", 0)
        alltr += [(sv, t, thr, label) for (sv, t, thr) in tr]
        reached += info.get("schedule_reached", 0)
        dist["overtake_schedule_runs"] = dist.get("overtake_schedule_runs", 0) + 1
        dist["overtake_whole_run_events_replayed"] = dist.get("overtake_whole_run_events_replayed", 0) + nge
        if reached >= (1 if ctx.tier == "quick" else 2) and not f and not m:
            break
    dist["overtake_schedule_reached"] = reached
    if not reached:
        mism.append({"what": "the overtake schedule was never reached (the holds in the hook did not produce the idle word with "
                             "queued items): the scenario no longer exercises the tail test", "detail": {}})
    res = coq_conform_big(tag + "_conf", [(sv, t) for (sv, t, _, _) in alltr])
    nev = 0
    for (i, idle), (sv, t, thr, label) in zip(res, alltr):
        nev += len(t)
        if i != -1 or idle != 1:
            lo = max(0, i - 12)
            mism.append({"what": "a recorded thread trace of the library is not accepted by the model's thread automaton "
                                 "(SyncWait.tstep): the implementation took a step the model does not have",
                         "detail": {"run": label, "thread": thr, "self": sv, "rejected_at": i, "ended_idle": idle,
                                    "around": [e.brief() for e in t[lo:i + 3]] if i >= 0 else [e.brief() for e in t[-10:]]}})
        # distinct control-flow shapes of calls / sessions
        cur = []
        for e in t:
            cur.append(e)
            if e.kind == 101:
                shapes.add(shape(cur))
                cur = []
        if cur:
            shapes.add(shape(cur[:60]))
    samples = [{"self": sv, "thread": thr, "run": label, "first_events": [e.brief() for e in t[:25]]} for (sv, t, thr, label) in alltr[:3]]
    return {"evaluations": nev, "distinct_nontrivial": len(shapes),
            "rule": "stress runs of harness/c05_sync.c: 2..12 client threads calling dispatch_sync_f / dispatch_barrier_sync_f / "
                    "dispatch_async_and_wait_f on ONE serial queue kept busy by feeder threads with dispatch_async_f bursts, schedule "
                    "perturbation inside the library's atomic operations (0..50 percent of events); every atomic operation on "
                    "dq_state / dq_items_tail / dq_items_head and on the waiters' thread events, futex calls and call/return/callout "
                    "marks are recorded per thread and each thread's whole trace is replayed through SyncWait.tstep (tau-closed) inside "
                    "Coq; API-level oracle on the same runs: return stamp after the item's end stamp, run count exactly one, overlap "
                    "counter of the serial queue, check-summed plain payloads (submitter -> item, item -> next item, item -> caller "
                    "after return); order oracle for any mix of submission kinds (clients also submit dispatch_async_f items): no item "
                    "starts before the previous item of the same thread has finished, and (post-hoc on the stamps) before every item "
                    "whose call had returned before its own call began has finished; the fixed overtake schedule of libdispatch 43b9c73 "
                    "(two threads held in the hook) recorded and replayed as ONE globally ordered run through the model in Coq "
                    "(SyncOrder.xreplay: taus searched), which must accept it with order_ok; evaluations = recorded events replayed; "
                    "distinct = distinct control-flow shapes of calls / drain sessions",
            "samples": samples, "distribution": dist, "traces_validated_against_impl": len(alltr), "items_judged": nitems,
            "mismatches": mism[:20], "failures": fails[:20]}


def replay(ctx, obj):
    exe = build()
    for f in obj.get("failures", []):
        print("recorded failure:", f.get("what"))
        a = f.get("args")
        if a:
            text, rc = run_harness(exe, *a)
            f2, _, _ = analyse(text, "replay")
            print("re-run %s: %d failures" % (a, len(f2)))
            for x in f2[:5]:
                print("  ", x["what"])
    for b in obj.get("broken", []):
        print("no longer checks:", b)
    return 1
