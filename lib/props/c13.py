"""C13 — dispatch_data objects behave as immutable byte strings.
   Model/Data.v (hand, mirrors src/data.c case by case) is extracted to OCaml (Extract/Extract_data.v, ocaml/c13_driver.ml)
   and run against the library (harness/c13_data.c, public API) on random operation trees.  Two comparisons per command:
     failures   : the library's answer judged against the property itself (byte strings kept by this file: concat = a+b,
                  subrange = the clamped slice, map/apply = the same bytes, copy_region contains the location, destructor
                  exactly once and not while a dependent object is still held) -- independent of the Coq model;
     mismatches : every other difference between the library's answer and the model's (sizes, the exact region list seen
                  by apply, object identities of results, copy_region results, destructor order) = broken tie."""
import subprocess
import zlib
import common
import driver

PROPERTIES_FILE = "Properties/Properties_C13.v"
COQ_DEPS = ["Proofs/Data_proofs.vo", "Extract/Extract_data.vo"]
GEN_MODULES = []
LEVEL = "proof"
TRUSTED = [
    "Model/Data.v is hand-written after src/data.c and src/data_internal.h; tied by differential runs through the public API "
    "(size, bytes via map and apply, exact apply region lists, object identity of every result, copy_region at every record "
    "boundary +-1, destructor calls and their order after draining the destructor queue)",
    "C pointer arithmetic = model indices is validated by those runs (and ASan in the thorough tier), not proved",
    "one reference count per object (the external count); custom destructors are delivered by dispatch_async on a queue: "
    "'exactly once' for them also relies on C01",
    "flattened composites (dispatch_data_get_flattened_bytes_4libxpc, not exported by libdispatch.so on Linux) are modelled and "
    "compared only in the statically linked variant of the harness",
]
ASSUMPTIONS = ["malloc succeeds (the only modelled DISPATCH_OUT_OF_MEMORY path is the concat whose total size does not fit in size_t)",
               "ownership theorems: the client is well-behaved (Data.legal): it passes only objects it holds a reference to, releases "
               "only references it holds, passes size_t arguments; new objects get never-used identities (new allocations)",
               "disposal is synchronous and one count per object is modelled (the external count; the internal count stays 1)"]

U64 = 1 << 64
SMAX = U64 - 1
CAP_SIZE = 5000
CAP_RECS = 96
OBSERVABLE = (0, 4)
SCRIPT_CAP = 4000          # commands kept in a recorded script (a case has at most a few hundred)
KEEP_SCRIPTS = 6           # recorded failures / mismatches that keep their script (replay input); the others keep the text only


def blob(b):
    return "%x.%08x.%s" % (len(b), zlib.crc32(b) & 0xffffffff, b[:8].hex())


class Coproc:
    def __init__(self, exe):
        self.p = subprocess.Popen([exe], stdin=subprocess.PIPE, stdout=subprocess.PIPE, text=True, bufsize=1)

    def cmd(self, line):
        self.p.stdin.write(line + "\n")
        self.p.stdin.flush()
        a = self.p.stdout.readline()
        if not a.endswith("\n"):
            raise RuntimeError("model driver (ocaml/c13_driver.ml) died or gave a truncated answer at command %r (rc=%s)"
                               % (line[:80], self.p.poll()))
        return a.rstrip("\n")

    def close(self):
        try:
            self.p.stdin.close()
            self.p.wait(timeout=10)
        except Exception:
            self.p.kill()


def fields(line):
    d = {}
    for t in line.split()[1:]:
        if "=" in t:
            k, v = t.split("=", 1)
            d[k] = v
        else:
            d[t] = ""
    return d


def bounds_of(f):
    size = int(f["size"], 16)
    if f.get("recs", "leaf") == "leaf":
        return [0, size]
    rs = f["recs"]
    if rs.startswith("flat:"):
        rs = rs[5:]
    b = [0]
    for r in rs.split(","):
        b.append(b[-1] + int(r.split(":")[2], 16))
    return b


# ---------------------------------------------------------------------------------------------------------------- generation

def gen_case(rng, model, allow_flatten, stats):
    """one random operation tree; returns [(command, model answer)]"""
    out = []

    def send(line):
        a = model.cmd(line)
        out.append((line, a))
        return a

    send("reset")
    info = {0: {"obj": 0, "size": 0, "bounds": [0, 0], "depth": 0}}
    held = {}          # object id -> references held by the client
    nleaves = rng.choice([1, 1, 2, 2, 3, 3, 4, 5, 6, 8, 12, 20, 32, 64])
    nops = rng.range(4, 14) if nleaves < 4 else rng.range(8, 60)
    made = 0
    nxt = 1

    def live_names(maxdepth=11):
        return [n for n, i in info.items() if (n == 0 or held.get(i["obj"], 0) > 0) and i["depth"] <= maxdepth]

    def record(name, ans, depth):
        f = fields(ans)
        oid = int(f["id"], 16)
        info[name] = {"obj": oid, "size": int(f["size"], 16), "bounds": bounds_of(f), "depth": depth}
        if oid != 0:
            held[oid] = held.get(oid, 0) + 1

    def near(vals, lo=0, hi=SMAX):
        c = set()
        for v in vals:
            for d in (-1, 0, 1):
                c.add((v + d) % U64)
        return sorted(x for x in c if lo <= x <= hi)

    def observe(name):
        i = info[name]
        b = i["bounds"]
        locs = near(b)
        if len(locs) > 14:
            keep = set(near([0, i["size"]]))
            while len(keep) < 14:
                keep.add(rng.choice(locs))
            locs = sorted(keep)
        if rng.chance(1, 3):
            locs += [SMAX, SMAX - 1, 1 << 63, i["size"] + (1 << 32)]
        nrec = len(b) - 1
        stopk = rng.choice([0, 0, 1, 2, max(nrec - 1, 0), nrec, nrec + 1, rng.below(nrec + 1)])
        send("O %x %x %s" % (name, stopk, " ".join("%x" % l for l in locs)))
        stats["observe"] = stats.get("observe", 0) + 1

    steps = 0
    while steps < nops + nleaves and nxt < 4000:
        steps += 1
        names = live_names()
        if made < nleaves and (len(names) <= 1 or rng.chance(1, 3)):
            size = rng.choice([0, 1, 1, 2, 3, 5, 8, 16, 33, 64, 100, 128, 255, 256, 257, 299, 300, rng.range(0, 300), rng.range(0, 300)])
            salt = rng.below(256)
            bs = bytes(((salt + i * 7 + (i >> 5) * 3) & 0xff) for i in range(size))
            kind = rng.choice([0, 0, 0, 0, 4, 4, 1, 2])
            name = nxt; nxt += 1
            a = send("L %x %d %s" % (name, kind, bs.hex() if size else "-"))
            record(name, a, 0)
            made += 1
            stats["leaf_size_%s" % ("0" if size == 0 else "1-16" if size <= 16 else "17-300")] = stats.get(
                "leaf_size_%s" % ("0" if size == 0 else "1-16" if size <= 16 else "17-300"), 0) + 1
            observe(name)
            continue
        k = rng.below(100)
        if k < 30:      # concat
            a = rng.choice(names)
            cands = [n for n in names if info[n]["size"] + info[a]["size"] <= CAP_SIZE and
                     len(info[n]["bounds"]) + len(info[a]["bounds"]) <= CAP_RECS]
            if not cands:
                continue
            b = rng.choice(cands)
            if rng.chance(1, 2):
                a, b = b, a
            name = nxt; nxt += 1
            ans = send("C %x %x %x" % (name, a, b))
            record(name, ans, 1 + max(info[a]["depth"], info[b]["depth"]))
            stats["concat"] = stats.get("concat", 0) + 1
            observe(name)
        elif k < 68:    # subrange
            a = rng.choice(names)
            i = info[a]
            size, b = i["size"], i["bounds"]
            m = rng.below(10)
            inside = [x for x in near(b) if x < size]
            if m < 6 and inside:
                off = rng.choice(inside)
            elif m < 7:
                off = rng.choice(near([size]))
            elif m < 8:
                off = rng.range(0, size)
            else:
                off = rng.choice([SMAX, SMAX - 1, 1 << 63, (1 << 63) - 1, 1 << 32, size + 1, size + (1 << 32)])
            m = rng.below(12)
            if m < 5:
                ln = (rng.choice(b) - off + rng.choice([-1, 0, 0, 1])) % U64
            elif m < 7:
                ln = (size - off + rng.choice([-1, 0, 1])) % U64
            elif m < 10:   # offset + length around the wrap of size_t
                ln = (SMAX - off + rng.choice([-1, 0, 1, 2, 3])) % U64
            elif m < 11:
                ln = rng.choice([0, 1, 2, size, size + 1, max(size - 1, 0), SMAX, SMAX - 1, 1 << 63])
            else:
                ln = rng.range(0, size + 2)
            name = nxt; nxt += 1
            ans = send("S %x %x %x %x" % (name, a, off, ln))
            record(name, ans, 1 + i["depth"])
            cls = "empty" if off >= size or ln == 0 else "clamped" if ln > size - off else "inside"
            stats["subrange_" + cls] = stats.get("subrange_" + cls, 0) + 1
            if off + ln >= U64:
                stats["subrange_sum_wraps"] = stats.get("subrange_sum_wraps", 0) + 1
            observe(name)
        elif k < 74:    # map kept as an object
            a = rng.choice(names)
            name = nxt; nxt += 1
            ans = send("M %x %x" % (name, a))
            record(name, ans, 1 + info[a]["depth"])
            stats["map"] = stats.get("map", 0) + 1
            observe(name)
        elif k < 82:    # copy_region kept as an object
            a = rng.choice(names)
            i = info[a]
            loc = rng.choice(near(i["bounds"]) + [i["size"], SMAX])
            name = nxt; nxt += 1
            ans = send("P %x %x %x" % (name, a, loc))
            record(name, ans, 1 + i["depth"])
            stats["copy_region"] = stats.get("copy_region", 0) + 1
            observe(name)
        elif k < 86:
            a = rng.choice(names)
            send("R %x" % a)
            if info[a]["obj"] != 0:
                held[info[a]["obj"]] += 1
            stats["retain"] = stats.get("retain", 0) + 1
        elif k < 96:
            a = rng.choice(names)
            send("X %x" % a)
            if info[a]["obj"] != 0:
                held[info[a]["obj"]] -= 1
            stats["release"] = stats.get("release", 0) + 1
        elif allow_flatten:
            a = rng.choice(names)
            ans = send("F %x" % a)
            stats["flatten"] = stats.get("flatten", 0) + 1
            observe(a)
    # release everything the client still holds, in random order
    rel = []
    for oid, c in held.items():
        nm = [n for n, i in info.items() if i["obj"] == oid][0]
        rel += [nm] * c
    while rel:
        j = rng.below(len(rel))
        send("X %x" % rel.pop(j))
    send("counts")
    return out


# ---------------------------------------------------------------------------------------------------------------- running

LOAD_NOTES = []
WALL_LIMIT = 3600      # backstop only: a hang inside one command is ended by the harness itself (no progress for 40 s -> rc 97)


def harness_answers(exe, cases, timeout=WALL_LIMIT, env=None):
    """cases: list of lists of command lines. Returns (answers, info): answers[i] = answer lines of case i, None-padded and
    followed by a "DIED rc=.." line where the harness died in that case (crash; or rc 97 = the harness' progress watchdog: one
    command made no progress for 40 s, e.g. libdispatch sleeping and retrying an allocation of a garbage size), or None when the
    case was not run.  info = {"not_run": [...], "deaths": n, "wall_expired": [...]}.  A wall-clock expiry (rc 124) is load
    until shown otherwise: the case in progress is re-run once, alone, and only that second result is used."""
    res = [None] * len(cases)
    info = {"not_run": [], "deaths": 0, "wall_expired": []}
    start = 0
    while start < len(cases):
        lines = [l for c in cases[start:] for l in c]
        r = common.run([exe], input="\n".join(lines) + "\n", timeout=timeout, env=env)
        out = r.stdout.split("\n")
        if out and out[-1] == "":
            out.pop()
        pos = 0
        died = None
        for ci in range(start, len(cases)):
            n = len(cases[ci])
            chunk = out[pos:pos + n]
            pos += n
            if len(chunk) < n:
                if r.returncode == 124:     # wall clock, not the watchdog: decide on an isolated re-run of this case
                    info["wall_expired"].append(ci)
                    r2 = common.run([exe], input="\n".join(cases[ci]) + "\n", timeout=timeout, env=env)
                    o2 = r2.stdout.split("\n")
                    if o2 and o2[-1] == "":
                        o2.pop()
                    if len(o2) >= n:
                        res[ci] = o2[:n]
                        died = ("retry-ok", ci)
                        break
                    chunk, r = o2[:n], r2
                res[ci] = chunk + [None] * (n - len(chunk))
                res[ci].append("DIED rc=%s %s" % (r.returncode, (r.stderr or "")[-600:]))
                died = ("dead", ci)
                break
            res[ci] = chunk
        if died is None:
            if r.returncode != 0:          # all answers present but the process did not exit cleanly: not silent
                last = len(cases) - 1
                res[last] = list(res[last]) + ["DIED rc=%s after the last answer %s" % (r.returncode, (r.stderr or "")[-600:])]
                info["deaths"] += 1
            break
        if died[0] == "dead":
            info["deaths"] += 1
            if info["deaths"] >= 3:     # do not spend the budget on a library that keeps dying; the rest is reported as not run
                info["not_run"] = list(range(died[1] + 1, len(cases)))
                break
        start = died[1] + 1
    return res, info


def model_answers(mexe, lines):
    m = Coproc(mexe)
    try:
        return [m.cmd(l) for l in lines]
    finally:
        m.close()


# ---------------------------------------------------------------------------------------------------------------- judging

def judge_case(lines, mans, hans):
    """returns (failures, mismatches, compared) for one case; lines/mans/hans aligned"""
    fails, mism = [], []
    exp = {0: b""}            # name -> byte string the object must denote (specification, kept here)
    prov = {0: []}            # name -> [(leaf, from, len)]: where each byte comes from (concat/subrange/copy_region never copy)
    deps = {0: set()}         # name -> leaves whose buffers the object's bytes live in
    kinds = {}
    hname = {}                # name -> harness pointer token
    held = {}                 # pointer -> references held by the client
    gen, ngen = {}, {}        # pointer -> number of times the client dropped its last reference; name -> value when obtained
    ptr_of = {}               # model object id -> pointer (while live in the model)
    empty_ptr = None
    dcalls = {}
    compared = 0

    def pslice(segs, off, ln):
        out, pos = [], 0
        for (lf, fr, n) in segs:
            lo, hi = max(off, pos), min(off + ln, pos + n)
            if lo < hi:
                out.append((lf, fr + lo - pos, hi - lo))
            pos += n
        return out

    def fail(i, what, **kw):
        fails.append(dict(kw, key="%s | %s" % (lines[i].split()[0] + " " + " ".join(lines[i].split()[2:])[:60], what[:70]),
                          what=what, line=i, command=lines[i], library=hans[i], model=mans[i], script=lines[:i + 1]))

    def mis(i, what):
        mism.append({"what": what, "command": lines[i], "library": hans[i], "model": mans[i], "script": lines[:i + 1]})

    def ident(i, tok_m, tok_h, what):
        """model identity token (#id / new) against the library's pointer"""
        live = set(ptr_of.values()) | {empty_ptr}
        if tok_m == "new":
            if tok_h in live:
                mis(i, what + ": library returned an existing object, the model creates a new one")
        elif tok_m.startswith("#"):
            oid = int(tok_m[1:], 16)
            want = empty_ptr if oid == 0 else ptr_of.get(oid)
            if want != tok_h:
                mis(i, what + ": library returned %s, the model returns the existing object #%x (%s)" % (tok_h, oid, want))

    def destructors(i, fh, fm):
        got = [int(x, 16) for x in fh.get("d", "").split(",") if x]
        want = [x for x in (int(y, 16) for y in fm.get("dlog", "").split(",") if y) if kinds.get(x) in OBSERVABLE]
        for g in got:
            dcalls[g] = dcalls.get(g, 0) + 1
            if dcalls[g] > 1:
                fail(i, "destructor of leaf %x called %d times" % (g, dcalls[g]))
            # still needed? some held object may reference the buffer
            users = [n for n, p in hname.items() if held.get(p, 0) > 0 and ngen.get(n) == gen.get(p, 0) and g in deps.get(n, ())]
            if users:
                fail(i, "destructor of leaf %x ran while object %x, which references its buffer, is still held" % (g, users[0]))
        if got != want:
            mis(i, "destructor calls differ: library %s, model %s" % (got, want))
        for x in (int(y, 16) for y in fm.get("freed", "").split(",") if y):
            ptr_of.pop(x, None)

    if len(mans) != len(lines) or len(hans) < len(lines):
        mism.append({"what": "answer lists do not line up with the script: %d commands, %d model answers, %d library answers"
                             % (len(lines), len(mans), len(hans)), "script": lines[:SCRIPT_CAP]})
        return fails, mism, 0
    for i, (cmd, ma, ha) in enumerate(zip(lines, mans, hans)):
        if fails or mism:
            break       # after the first difference the rest of the script may be illegal for the library (aliasing differs)
        if ha is None or (isinstance(ha, str) and ha.startswith("DIED")):
            extra = hans[-1] if isinstance(hans[-1], str) and hans[-1].startswith("DIED") else ""
            fail(i, "library crashed or hung at this command (%s)" % extra[:200])
            break
        compared += 1
        w = cmd.split()
        if w[0] == "reset":
            empty_ptr = ha.split()[1] if len(ha.split()) > 1 else None
            hname[0] = empty_ptr
            continue
        if w[0] == "ovf":
            if ha.startswith("ovf object"):
                fail(i, "concatenation of 2^18 pieces of 2^46 bytes (total 2^64) returned an object of size %d: the size wrapped around size_t" % int(fields(ha)["size"], 16))
            elif ha.startswith("ovf null") and not ha.startswith("ovf null at=18 size=8000000000000000"):
                mis(i, "overflow probe: unexpected answer " + ha)
            continue
        if w[0] == "counts":
            got = dict((int(a, 16), int(b)) for a, b in (t.split(":") for t in ha.split()[1:]))
            for n, k in kinds.items():
                if k in OBSERVABLE and got.get(n, 0) != 1:
                    fail(i, "destructor of leaf %x ran %d times after every reference was released (must be exactly once)" % (n, got.get(n, 0)))
            continue
        if ma == "fault" or ma == "bad":
            mis(i, "model fault (out-of-block access, internal crash or dead operand)")
            break
        fm, fh = fields(ma), fields(ha)
        if w[0] in "LCSMP":
            name = int(w[1], 16)
            if "skipped" in fh:
                break
            hsz = int(fh["size"], 16)
            ptr = fh["id"]
            if w[0] == "L":
                bs = b"" if w[3] == "-" else bytes.fromhex(w[3])
                kinds[name] = int(w[2])
                exp[name] = bs
                prov[name] = [(name, 0, len(bs))] if bs else []
            elif w[0] == "C":
                a, b = int(w[2], 16), int(w[3], 16)
                exp[name] = exp[a] + exp[b]
                prov[name] = prov[a] + prov[b]
            elif w[0] == "S":
                a, off, ln = int(w[2], 16), int(w[3], 16), int(w[4], 16)
                exp[name] = exp[a][off:off + ln] if off < len(exp[a]) else b""
                prov[name] = pslice(prov[a], off, ln) if off < len(exp[a]) else []
            elif w[0] == "M":
                a = int(w[2], 16)
                exp[name] = exp[a]
                prov[name] = [(None, 0, len(exp[a]))] if exp[a] else []   # may be a copy: not counted as a user of the buffers
            elif w[0] == "P":
                a, loc = int(w[2], 16), int(w[3], 16)
                hoff = int(fh["off"], 16)
                if loc >= len(exp[a]):
                    if hsz != 0 or hoff != len(exp[a]):
                        fail(i, "copy_region(location %d >= size %d) returned size %d at offset %d; must be empty at offset = size" % (loc, len(exp[a]), hsz, hoff))
                    exp[name] = b""
                else:
                    if not (hoff <= loc < hoff + hsz) or hoff + hsz > len(exp[a]):
                        fail(i, "copy_region(location %d) returned the region [%d, %d+%d) of a %d-byte object: does not contain the location" % (loc, hoff, hoff, hsz, len(exp[a])))
                        exp[name] = b""
                    else:
                        exp[name] = exp[a][hoff:hoff + hsz]
                prov[name] = pslice(prov[a], hoff, hsz) if exp[name] else []
                if fm.get("off") != fh.get("off"):
                    mis(i, "copy_region offset differs")
            deps[name] = set(x[0] for x in prov[name] if x[0] is not None)
            if "insane" in fh:
                fail(i, "%s returned an object of size %d, larger than all bytes of its operands (expected %d)" % (cmd[:60], hsz, len(exp[name])),
                     expected_size=len(exp[name]), got_size=hsz)
            elif hsz != len(exp[name]):
                fail(i, "%s returned size %d, the denoted byte string has %d bytes" % (cmd[:60], hsz, len(exp[name])),
                     expected_size=len(exp[name]), got_size=hsz)
            if fm["size"] != fh["size"]:
                mis(i, "size differs from the model")
            ident(i, "new" if fm["new"] == "1" else "#" + fm["id"], ptr, "result identity")
            mid = int(fm["id"], 16)
            if fm["new"] == "1" and mid != 0:
                ptr_of[mid] = ptr
            hname[name] = ptr
            ngen[name] = gen.get(ptr, 0)
            if ptr != empty_ptr:
                held[ptr] = held.get(ptr, 0) + 1
            destructors(i, fh, fm)
        elif w[0] in "RXF":
            a = int(w[1], 16)
            if "unsupported" in fh:
                continue
            ident(i, "#" + fm["id"], fh["id"], "operand identity")
            if hname.get(a) != empty_ptr:
                if w[0] == "R":
                    held[hname[a]] = held.get(hname[a], 0) + 1
                elif w[0] == "X":
                    held[hname[a]] = held.get(hname[a], 0) - 1
                    if held[hname[a]] <= 0:      # no client reference left: the address may be reused by another object
                        gen[hname[a]] = gen.get(hname[a], 0) + 1
            destructors(i, fh, fm)
        elif w[0] == "O":
            a = int(w[1], 16)
            stopk = int(w[2], 16)
            e = exp[a]
            if "poisoned" in fh:
                break
            if int(fh["size"], 16) != len(e):
                fail(i, "dispatch_data_get_size = %d, the object denotes %d bytes" % (int(fh["size"], 16), len(e)))
                continue
            # apply: regions tile the byte string
            ap = fh.get("ap", "")
            if "insane" in ap:
                fail(i, "dispatch_data_apply handed out a region larger than the object")
                continue
            res, _, body = ap.partition(":")
            regs = [r.split(",") for r in body.split(";") if r]
            pos = 0
            ok = True
            for (p, off, bl) in regs:
                ln = int(bl.split(".")[0], 16)
                if int(off, 16) != pos or ln == 0 or bl != blob(e[pos:pos + ln]) or pos + ln > len(e):
                    ok = False
                    fail(i, "dispatch_data_apply region (offset %s, %s) is not the next piece of the byte string (expected offset %d, %s)" % (off, bl, pos, blob(e[pos:pos + ln])))
                    break
                pos += ln
            if ok and (pos != len(e) or res != "1"):
                fail(i, "dispatch_data_apply covered %d of %d bytes, result %s" % (pos, len(e), res))
            st = fh.get("st", "")
            if ok and st:
                r2, _, cnt = st.partition(":")
                wantc = min(stopk + 1, len(regs))
                if int(cnt, 16) != wantc or (r2 == "1") != (stopk >= len(regs)):
                    fail(i, "dispatch_data_apply with an applier that stops at region %d: visited %s regions, result %s" % (stopk, cnt, r2))
            mp = fh.get("map", "")
            if mp:
                if mp.split(":")[1] != blob(e):
                    fail(i, "dispatch_data_create_map gave %s, the byte string is %s" % (mp.split(":")[1], blob(e)))
            for c in [x for x in fh.get("cr", "").split(";") if x]:
                loc, p, off, rsz, bl, nreg = c.split(":")
                loc, off, rsz = int(loc, 16), int(off, 16), int(rsz, 16)
                if bl == "insane":
                    fail(i, "copy_region(%d) returned an object larger than the source" % loc)
                elif loc >= len(e):
                    if rsz != 0 or off != len(e):
                        fail(i, "copy_region(location %d >= size %d) returned size %d at offset %d" % (loc, len(e), rsz, off))
                elif not (off <= loc < off + rsz) or bl != blob(e[off:off + rsz]) or nreg != "1":
                    fail(i, "copy_region(location %d) returned offset %d size %d bytes %s regions %s: not the region containing the location (bytes there: %s)"
                         % (loc, off, rsz, bl, nreg, blob(e[off:off + rsz])))
            # tie: every token against the model
            if fm.get("size") != fh.get("size") or fm.get("st") != fh.get("st"):
                mis(i, "observation differs (size / early stop)")
            mres, _, mbody = fm.get("ap", "").partition(":")
            mregs = [r.split(",") for r in mbody.split(";") if r]
            if mres != res or [r[1:] for r in mregs] != [r[1:] for r in regs]:
                mis(i, "apply region list differs from the model (representation choice)")
            else:
                for mr, hr in zip(mregs, regs):
                    ident(i, mr[0], hr[0][0:] if hr[0].startswith("@") else hr[0], "apply region object")
            mm, hm = fm.get("map", ":").split(":"), mp.split(":") if mp else ["", ""]
            if mm[1:] != hm[1:]:
                mis(i, "map bytes differ from the model")
            else:
                ident(i, mm[0], hm[0], "map result")
            mcr = [x.split(":") for x in fm.get("cr", "").split(";") if x]
            hcr = [x.split(":") for x in fh.get("cr", "").split(";") if x]
            if [x[:1] + x[2:] for x in mcr] != [x[:1] + x[2:] for x in hcr]:
                mis(i, "copy_region results differ from the model")
            else:
                for x, y in zip(mcr, hcr):
                    ident(i, x[1], y[1], "copy_region(%s) result" % x[0])
            destructors(i, fh, {"dlog": "", "freed": ""})
    if not fails and not mism and len(hans) > len(lines) and isinstance(hans[-1], str) and hans[-1].startswith("DIED"):
        mis(len(lines) - 1, "the harness answered every command but did not exit cleanly: " + hans[-1][:300])
    return fails, mism, compared


# ---------------------------------------------------------------------------------------------------------------- entry points

CORPUS = [
    # witness of the defect repaired by 643b9b0 (total size 2^64 wrapped to 0); Proofs: concat_total
    ["reset", "ovf", "counts"],
    # the "rest of the data" idiom: offset + length wraps around size_t
    ["reset", "L 1 0 000102030405060708090a0b0c0d0e0f", "S 2 1 1 ffffffffffffffff", "O 2 0 0 1 e f 10", "L 3 4 a0a1a2a3", "C 4 1 3",
     "S 5 4 3 fffffffffffffffe", "O 5 1 0 c d 10 11", "S 6 4 10 ffffffffffffffff", "S 7 4 f fffffffffffffff1", "O 7 0 0 1 4 5",
     "X 1", "X 2", "X 3", "X 4", "X 5", "X 6", "X 7", "counts"],
]


def build(ctx):
    """returns (exe, wexe, mexe, errors): errors lists every build that failed (each one is a broken tie, never a silent skip)"""
    errs = []
    exe, msg = common.build_harness("c13_data", ["c13_data.c"], whitebox=False)
    if exe is None:
        errs.append("harness build (shared library variant) failed: " + msg[-1500:])
    wexe, msg = common.build_harness("c13_data_wb", ["c13_data.c"], whitebox=True)
    if wexe is None:
        errs.append("harness build (static variant, the one that exercises flattened objects) failed: " + msg[-1500:])
    mexe, msg2 = common.build_ocaml("c13_driver.ml", extracted=("data_model",))
    if mexe is None:
        errs.append("model driver build (extracted Model/Data.v + ocaml/c13_driver.ml) failed: " + msg2[-1500:])
    return exe, wexe, mexe, errs


def run_and_judge(binary, batch, variant, env=None):
    """batch: [(case index, lines, model answers)].  Returns (fails, mism, commands judged, cases judged, library answers)"""
    fails, mism, total, judged = [], [], 0, 0
    hs, info = harness_answers(binary, [b[1] for b in batch], env=env)
    if len(hs) != len(batch):
        mism.append({"what": "harness_answers returned %d answer lists for %d cases" % (len(hs), len(batch))})
    for (i, lines, mans), h in zip(batch, hs):
        if h is None:
            continue
        f, m, n = judge_case(lines, mans, h)
        total += n
        judged += 1
        for x in f + m:
            x["case"] = i
            x["variant"] = variant
        fails += f
        mism += m
    if info["wall_expired"]:
        LOAD_NOTES.append("%s variant: the wall limit of %d s expired %d time(s); the case in progress was re-run alone"
                          % (variant, WALL_LIMIT, len(info["wall_expired"])))
    if info["not_run"]:
        mism.append({"what": "%d cases of the %s variant were not run because the harness died %d times before them"
                             % (len(info["not_run"]), variant, info["deaths"]), "variant": variant})
    return fails, mism, total, judged, hs


def correspond(ctx):
    exe, wexe, mexe, errs = build(ctx)
    mism = [{"what": e} for e in errs]
    if exe is None or mexe is None:
        return {"mismatches": mism, "failures": [], "evaluations": 0, "distinct_nontrivial": 0, "rule": "", "samples": [],
                "distribution": {}}
    del LOAD_NOTES[:]
    rng = ctx.rng
    ncases = 260 if ctx.tier == "quick" else 6000
    stats = {}
    model = Coproc(mexe)
    cases = []       # (lines, model answers, flatten?)
    try:
        for c in CORPUS:
            cases.append((list(c), [model.cmd(l) for l in c], False))
        for k in range(ncases):
            fl = (wexe is not None) and (k % 6 == 5)
            g = gen_case(rng, model, fl, stats)
            cases.append(([x[0] for x in g], [x[1] for x in g], fl))
    finally:
        model.close()
    fails = []
    total = judged = 0
    distinct = set()
    samples = []
    for flag, binary in ((False, exe), (True, wexe)):
        batch = [(i, c[0], c[1]) for i, c in enumerate(cases) if c[2] == flag]
        if not batch or binary is None:
            continue
        f, m, n, j, hs = run_and_judge(binary, batch, "static" if flag else "shared")
        fails += f
        mism += m
        total += n
        judged += j
        for (i, lines, mans), h in zip(batch, hs):
            if h is None:
                continue
            for l, a in zip(lines, h):
                if a and l[0] in "CSMPO":
                    distinct.add((l.split()[0], a.split(" d=")[0].replace("@", "")[-80:], l.split()[-1]))
            if len(samples) < 6 and len(lines) > 6 and len(h) > 5:
                samples.append({"command": lines[5], "library": h[5], "model": mans[5]})
    # ASan build of the library (thorough tier): same scripts, any report is a failure, any build problem a broken tie
    notes = []
    if ctx.tier != "quick":
        a_f, a_m, a_note = asan_run(ctx, [(i, c[0], c[1]) for i, c in enumerate(cases) if not c[2]])
        fails += a_f
        mism += a_m
        notes.append(a_note)
    notes += LOAD_NOTES
    stats["cases_generated"] = len(cases)
    stats["cases_judged"] = judged
    stats["commands_generated"] = sum(len(c[0]) for c in cases)
    stats["commands_judged"] = total
    if judged == 0 or total == 0:
        mism.append({"what": "nothing was compared: %d cases generated, %d judged, %d commands judged" % (len(cases), judged, total)})
    elif judged < len(cases) and not fails and not mism:
        mism.append({"what": "only %d of %d generated cases were judged" % (judged, len(cases))})
    seen, uf = set(), []
    for f in fails:
        if f["key"] not in seen:
            seen.add(f["key"])
            uf.append(f)
    for lst in (uf, mism):        # keep the replay file small: only the first few entries keep their script
        for k, x in enumerate(lst):
            if "script" in x:
                if k >= KEEP_SCRIPTS:
                    x["script_dropped"] = len(x.pop("script"))
                else:
                    x["script"] = x["script"][:SCRIPT_CAP]
    return {"evaluations": total, "distinct_nontrivial": len(distinct),
            "rule": "random operation trees (depth <= 12, <= 64 leaves of 0..300 bytes, object size <= %d, four kinds of buffer "
                    "destructors) generated against the extracted Model/Data.v: offsets/lengths at every record boundary +-1, around "
                    "size, and with offset+length around 2^64; after every command the result is observed (size, exact apply region "
                    "list with region objects, early stop, map, copy_region at every boundary +-1 / size / SIZE_MAX, destructor calls "
                    "after draining the queue); every token compared with the model, and the bytes/offsets/destructor counts judged "
                    "against byte strings kept by the checker; evaluations = commands actually judged (see distribution: generated vs "
                    "judged); distinct = distinct (command kind, library answer) pairs" % CAP_SIZE,
            "samples": samples, "distribution": stats, "mismatches": mism[:30], "failures": uf[:30], "notes": notes}


def asan_build():
    """clang-14 ASan build of the library + harness (clang-16 has no ASan runtime here). Returns (exe, error)"""
    import os
    bdir = os.path.join(common.CACHE, "build-asan")
    with common.Lock("build-asan"):
        if not os.path.exists(os.path.join(bdir, "build.ninja")):
            r = common.run(["cmake", "-G", "Ninja", "-S", common.REPO, "-B", bdir, "-DCMAKE_C_COMPILER=/usr/bin/clang-14",
                            "-DCMAKE_CXX_COMPILER=/usr/bin/clang++-14", "-DCMAKE_BUILD_TYPE=RelWithDebInfo", "-DBUILD_TESTING=OFF",
                            "-DCMAKE_C_FLAGS=-Wno-error -fsanitize=address -fno-omit-frame-pointer",
                            "-DCMAKE_CXX_FLAGS=-Wno-error -fsanitize=address -fno-omit-frame-pointer",
                            "-DCMAKE_SHARED_LINKER_FLAGS=-fsanitize=address"], timeout=3600)
            if r.returncode != 0:
                return None, "ASan configure failed: " + (r.stdout + r.stderr)[-600:]
        r = common.run(["ninja", "-C", bdir, "dispatch", "BlocksRuntime"], timeout=7200)
        if r.returncode != 0:
            return None, "ASan build of the library failed: " + (r.stdout + r.stderr)[-600:]
        out = os.path.join(common.CACHE, "bin", "c13_data_asan")
        os.makedirs(os.path.dirname(out), exist_ok=True)
        r = common.run(["clang-14", "-O1", "-g", "-w", "-fblocks", "-fsanitize=address", "-D_GNU_SOURCE=1", "-I" + common.REPO,
                        "-I" + bdir, "-I" + common.REPO + "/src/BlocksRuntime", os.path.join(common.VERIF, "harness", "c13_data.c"),
                        "-o", out, "-L" + bdir, "-ldispatch", "-lBlocksRuntime", "-Wl,-rpath," + bdir, "-lpthread"], timeout=3600)
        if r.returncode != 0:
            return None, "ASan harness build failed: " + r.stderr[-600:]
    return out, ""


def asan_env():
    import os
    return dict(os.environ, ASAN_OPTIONS="detect_leaks=1:abort_on_error=0:halt_on_error=1:exitcode=98")


def asan_judge(hs, batch):
    """an ASan / LSan report ends the process with exit code 98 (ASAN_OPTIONS exitcode): find the case it happened in"""
    fails = []
    for (i, lines, mans), h in zip(batch, hs):
        if h and isinstance(h[-1], str) and h[-1].startswith("DIED rc=98"):
            n = sum(1 for x in h[:len(lines)] if x is not None)
            fails.append({"key": "asan | " + (lines[min(n, len(lines) - 1)][:60]),
                          "what": "AddressSanitizer/LeakSanitizer report at command %d of the case: %s" % (n, h[-1][10:500]),
                          "script": lines[:min(n + 1, len(lines)) if "LeakSanitizer" not in h[-1] else len(lines)],
                          "variant": "asan", "case": i})
    return fails


def asan_run(ctx, batch):
    """thorough tier: the same scripts against the ASan build. Returns (failures, mismatches, note)"""
    out, err = asan_build()
    if out is None:
        return [], [{"what": "ASan tier not run: " + err}], "ASan tier not run"
    f, m, n, j, hs = run_and_judge(out, batch, "asan", env=asan_env())
    last = hs[-1] if hs else None
    if last and isinstance(last[-1], str) and last[-1].startswith("DIED rc=98 after the last answer") and len(batch) > 1:
        # a report at exit (LeakSanitizer): find the case by bisection, so that the recorded script reproduces it alone
        lo = list(batch)
        while len(lo) > 1:
            half = lo[:len(lo) // 2]
            r = common.run([out], input="\n".join(l for b in half for l in b[1]) + "\n", timeout=WALL_LIMIT, env=asan_env())
            lo = half if r.returncode == 98 else lo[len(lo) // 2:]
        h1, _ = harness_answers(out, [lo[0][1]], env=asan_env())
        if h1[0] and isinstance(h1[0][-1], str) and h1[0][-1].startswith("DIED rc=98"):
            batch, hs = list(batch) + [lo[0]], list(hs) + [h1[0]]
            hs[len(hs) - 2] = [x for x in hs[len(hs) - 2] if not (isinstance(x, str) and x.startswith("DIED rc=98 after"))]
    f = asan_judge(hs, batch) + f
    if f:      # the report itself is the finding; the unclean exit it causes is not a second one
        m = [x for x in m if "DIED rc=98" not in str(x.get("what"))]
    if j == 0:
        m.append({"what": "ASan tier: no case was judged"})
    return f, m, "ASan build: %d cases, %d commands judged, %d sanitizer reports" % (j, n, len([x for x in f if x.get("variant") == "asan"]))


def search(ctx, broken):
    out = []
    for extra in range(2):
        c2 = driver.Ctx(ctx.pid, "quick")
        c2.rng = common.Rng(ctx.seed * 7919 + extra + 1)
        r = correspond(c2)
        out += r.get("failures", [])
        if out:
            break
    return out


def replay(ctx, obj):
    """re-run every recorded script (failures and broken ties alike) against the current build and model and re-judge it.
    rc 1: something recorded reproduces; 0: scripts were re-run and nothing reproduces; 2: nothing could be executed."""
    exe, wexe, mexe, errs = build(ctx)
    for e in errs:
        print("build problem: " + e[:600])
    if mexe is None:
        print("the model driver could not be built: nothing can be replayed")
        return 2
    executed = reproduced = 0
    unexecutable = []
    entries = [("failure", f) for f in obj.get("failures", [])]
    for b in obj.get("broken", []):
        d = b.get("detail") if isinstance(b, dict) else None
        if isinstance(b, dict) and b.get("what") == "correspondence" and isinstance(d, dict):
            entries.append(("tie", d))
        else:
            unexecutable.append(b)
    for kind, f in entries:
        script = f.get("script")
        if not script:
            unexecutable.append(f)
            continue
        variant = f.get("variant", "shared")
        env = None
        if variant == "static":
            binary = wexe
        elif variant == "asan":
            binary, err = asan_build()
            env = asan_env()
            if binary is None:
                print("ASan build problem: " + err[:400])
        else:
            binary = exe
        if binary is None:
            print("the %s variant of the harness could not be built; recorded: %s" % (variant, str(f.get("what"))[:200]))
            unexecutable.append(f)
            continue
        mans = model_answers(mexe, script)
        hs, info = harness_answers(binary, [script], env=env)
        hans = hs[0]
        fl, mm, n = judge_case(script, mans, hans)
        if variant == "asan":
            fl = asan_judge(hs, [(0, script, mans)]) + fl
        executed += 1
        print("replaying %d commands (%s, %s variant); last: %s" % (len(script), kind, variant, script[-1][:100]))
        shown = [x for x in hans[:len(script)] if x is not None]
        print("  library: %s" % (shown[-1][:300] if shown else hans[-1]))
        print("  model  : %s" % mans[min(len(shown), len(mans)) - 1][:300])
        for x in fl:
            print("  FAIL (reproduces): " + x["what"])
        for x in mm[:3]:
            print("  differs from the model (reproduces): " + x["what"])
        if fl or mm:
            reproduced += 1
        else:
            print("  does not reproduce (recorded: %s)" % str(f.get("what"))[:300])
    for b in unexecutable:
        w = b.get("what") if isinstance(b, dict) else b
        d = b.get("detail") if isinstance(b, dict) else ""
        print("cannot be re-executed from the replay file (only a full ./check re-establishes it): %s %s" % (str(w)[:300], str(d)[:300] if d else ""))
    if reproduced:
        return 1
    if executed:
        print("does not reproduce: %d recorded script(s) re-run and re-judged, none fails or differs from the model now" % executed)
        return 0
    print("nothing in this replay file could be executed")
    return 2
