#!/usr/bin/env python3
"""clang JSON AST access for src2v: dump one function of one translation unit,
cached on disk by (tree hash, file, function)."""
import hashlib
import json
import os
import subprocess
import sys
import threading

REPO = os.environ.get("VERIF_REPO", "/repo")
VERIF = os.path.dirname(os.path.dirname(os.path.abspath(__file__)))
CACHE = os.path.join(VERIF, ".cache", "ast")

CLANG = "clang-16"

# version of the slimmed AST kept in the cache (part of every cache key): bump when strip() keeps more/other fields
FORMAT = "v2"


def build_dir():
    return os.environ.get("VERIF_CONFIG_DIR", os.path.join(VERIF, ".cache", "build"))


def cflags():
    b = build_dir()
    return [
        "-DDISPATCH_USE_DTRACE=0", "-DHAVE_CONFIG_H", "-D_GNU_SOURCE=1", "-Ddispatch_EXPORTS",
        "-O2", "-DNDEBUG", "-std=gnu11", "-fPIC", "-fvisibility=hidden", "-w",
        "-fmodule-map-file=%s/dispatch/generic/module.modulemap" % REPO,
        "-fmodule-map-file=%s/private/generic/module.modulemap" % REPO,
        "-fno-exceptions", "-fblocks",
        "-I" + b, "-I" + REPO, "-I" + REPO + "/src", "-I" + b + "/src",
        "-I" + REPO + "/private", "-I" + REPO + "/src/BlocksRuntime",
    ]


_tree_hash = None


def tree_hash():
    """hash of every file the translation can depend on"""
    global _tree_hash
    if _tree_hash is not None:
        return _tree_hash
    h = hashlib.sha256()
    for sub in ("src", "dispatch", "private", "os"):
        for root, dirs, files in os.walk(os.path.join(REPO, sub)):
            dirs.sort()
            for f in sorted(files):
                if f.endswith((".h", ".c", ".cpp", ".def", ".modulemap")):
                    p = os.path.join(root, f)
                    h.update(p.encode())
                    with open(p, "rb") as fh:
                        h.update(fh.read())
    b = build_dir()
    for f in ("config/config_ac.h",):
        p = os.path.join(b, f)
        if os.path.exists(p):
            with open(p, "rb") as fh:
                h.update(fh.read())
    _tree_hash = h.hexdigest()[:20]
    return _tree_hash


def parse_docs(txt):
    dec = json.JSONDecoder()
    i = 0
    docs = []
    n = len(txt)
    while i < n:
        while i < n and txt[i].isspace():
            i += 1
        if i >= n:
            break
        d, j = dec.raw_decode(txt, i)
        docs.append(d)
        i = j
    return docs


def has_body(d):
    return any(c.get("kind") == "CompoundStmt" for c in d.get("inner", []))


_cur_file = [None]
_file_cache = {}


def _tok_at(loc):
    f = _cur_file[0]
    if f is None or "offset" not in loc:
        return None
    if f not in _file_cache:
        try:
            with open(f, "rb") as fh:
                _file_cache[f] = fh.read()
        except OSError:
            _file_cache[f] = b""
    o = loc["offset"]
    return _file_cache[f][o:o + loc.get("tokLen", 0)].decode("latin1")


def _track(loc):
    """walk a loc/range object in clang's print order, updating the current
    file (clang omits "file" when unchanged from the previously printed loc)"""
    if not isinstance(loc, dict):
        return
    if "file" in loc:
        _cur_file[0] = loc["file"]
    for k, v in loc.items():
        if isinstance(v, dict) and k != "includedFrom":
            _track(v)


def strip(n, keep):
    """walk in print order; when keep, return a slimmed copy (line numbers only;
    AtomicExpr nodes get "atomic": the builtin's name read at the spelling loc)"""
    if isinstance(n, dict):
        out = {} if keep else None
        for k, v in n.items():
            if k == "loc":
                _track(v)
                if keep:
                    ln = v.get("line") or v.get("expansionLoc", {}).get("line") or v.get("spellingLoc", {}).get("line")
                    if ln:
                        out["line"] = ln
                continue
            if k == "range":
                if keep and n.get("kind") in ("AtomicExpr", "StmtExpr"):
                    # where the outermost macro invocation that produced this node starts (file, byte offset): the
                    # DISPATCH_VERIF hook reports __LINE__ = last line of that invocation (src2v.macro_extent)
                    saved = _cur_file[0]
                    b = v.get("begin", {})
                    _track(b)
                    ex = b.get("expansionLoc", b)
                    if "offset" in ex and _cur_file[0]:
                        out["xoff"] = ex["offset"]
                        out["xfile"] = _cur_file[0]
                    _cur_file[0] = saved
                if n.get("kind") == "AtomicExpr" and keep:
                    b = v.get("begin", {})
                    sp = b.get("spellingLoc", b)
                    if "file" in sp:
                        _cur_file[0] = sp["file"]
                    out["atomic"] = _tok_at(sp)
                    ex = b.get("expansionLoc", b)
                    if "line" in ex:
                        out["line"] = ex["line"]
                _track(v)
                continue
            if k in ("mangledName", "isUsed", "isReferenced", "isImplicit", "storageClass", "inline"):
                continue
            r = strip(v, keep)
            if keep:
                out[k] = r
        return out
    if isinstance(n, list):
        r = [strip(x, keep) for x in n]
        return r if keep else None
    return n if keep else None


def get_function(cfile, fname):
    """returns the FunctionDecl (with body) named fname visible in cfile, or None"""
    os.makedirs(CACHE, exist_ok=True)
    key = hashlib.sha256((FORMAT + tree_hash() + cfile + fname).encode()).hexdigest()[:24]
    cp = os.path.join(CACHE, key + ".json")
    if os.path.exists(cp):
        with open(cp) as fh:
            return json.load(fh)
    with _key_lock(cp):
        return _get_function_locked(cfile, fname, cp)


# strip() keeps per-process state (_cur_file, _file_cache): the clang runs of the prefetch threads go in parallel, the
# walk over each dump does not; and one function is dumped by one thread only (two threads once wrote the same temporary
# file at the same time and cached a mix of two dumps: node ids of two clang runs in one tree)
_strip_lock = threading.Lock()
_key_locks = {}
_key_locks_mu = threading.Lock()


def _key_lock(cp):
    with _key_locks_mu:
        return _key_locks.setdefault(cp, threading.Lock())


def _get_function_locked(cfile, fname, cp):
    if os.path.exists(cp):
        with open(cp) as fh:
            return json.load(fh)
    cmd = [CLANG] + cflags() + ["-fsyntax-only", "-Xclang", "-ast-dump=json", "-Xclang",
                                "-ast-dump-filter=" + fname, os.path.join(REPO, cfile)]
    r = subprocess.run(cmd, stdout=subprocess.PIPE, stderr=subprocess.PIPE, text=True)
    if r.returncode != 0:
        raise RuntimeError("clang failed on %s: %s" % (cfile, r.stderr[-2000:]))
    with _strip_lock:
        res = _select(r.stdout, fname)
    tmp = cp + ".tmp%d.%d" % (os.getpid(), threading.get_ident())
    with open(tmp, "w") as fh:
        json.dump(res, fh)
    os.replace(tmp, cp)
    return res


def _select(text, fname):
    res = None
    _cur_file[0] = None
    for d in parse_docs(text):
        sel = (res is None and d.get("kind") == "FunctionDecl" and d.get("name") == fname and has_body(d))
        x = strip(d, sel)
        if sel:
            res = x
    return res


def show(n, ind=0, out=sys.stdout):
    k = n.get("kind", "?")
    s = "  " * ind + k
    for f in ("name", "opcode", "value", "castKind", "isPostfix", "isArrow", "line"):
        if f in n:
            s += " %s=%s" % (f, n[f])
    if "type" in n:
        s += " :" + n["type"].get("qualType", "")
        if "desugaredQualType" in n["type"]:
            s += " {" + n["type"]["desugaredQualType"] + "}"
    if "referencedDecl" in n:
        s += " ->" + n["referencedDecl"].get("kind", "") + ":" + n["referencedDecl"].get("name", "?")
    print(s, file=out)
    for c in n.get("inner", []):
        show(c, ind + 1, out)


if __name__ == "__main__":
    f = get_function(sys.argv[1], sys.argv[2])
    if f is None:
        print("not found")
    else:
        show(f)
