#!/usr/bin/env python3
"""src2v — translate a whitelist of C functions of /repo (clang JSON AST, macros
expanded, types explicit) into Gallina definitions over Z (coq/Base/Word.v).

modes
  fn    pure function: `Definition f (params) : Z` (or a tuple when the C
        function has out-parameters)
  rmw   function with exactly one os_atomic_rmw_loop: `Definition f (params)
        (old : Z) : rmw_outcome` describing pre-loop code, one loop iteration
        that read `old`, and post-loop code; plus `f_order`
  sites only the ordered list of atomic sites of the function

Everything outside the accepted subset raises Unsupported (file:line): a broken
tie, never a silent skip."""
import json
import os
import re
import subprocess
import sys
from concurrent.futures import ThreadPoolExecutor

sys.path.insert(0, os.path.dirname(os.path.abspath(__file__)))
import astdump  # noqa: E402


class Unsupported(Exception):
    pass


# ----------------------------------------------------------------------------
# types

INT_TYPES = {
    "unsigned long": ("u", 64), "unsigned long long": ("u", 64), "long": ("s", 64), "long long": ("s", 64),
    "unsigned int": ("u", 32), "int": ("s", 32), "unsigned short": ("u", 16), "short": ("s", 16),
    "unsigned char": ("u", 8), "signed char": ("s", 8), "char": ("s", 8), "_Bool": ("u", 1), "bool": ("u", 1),
    "unsigned __int128": ("u", 128), "__int128": ("s", 128),
    "uint64_t": ("u", 64), "int64_t": ("s", 64), "uint32_t": ("u", 32), "int32_t": ("s", 32),
    "uint16_t": ("u", 16), "int16_t": ("s", 16), "uint8_t": ("u", 8), "int8_t": ("s", 8),
    "size_t": ("u", 64), "ssize_t": ("s", 64), "uintptr_t": ("u", 64), "intptr_t": ("s", 64),
    "__time_t": ("s", 64), "__syscall_slong_t": ("s", 64), "time_t": ("s", 64),
}

_unknown_types = {}  # name -> (sign, bits) resolved through the compiler


def clean_type(q):
    q = re.sub(r"\b(const|volatile|_Nullable|_Nonnull|_Null_unspecified|restrict|__restrict)\b", "", q)
    q = re.sub(r"_Atomic\((.*)\)", r"\1", q)
    q = q.replace("_Atomic", "")
    return " ".join(q.split())


class T:
    def __init__(self, kind, sign=None, bits=None, name=None):
        self.kind, self.sign, self.bits, self.name = kind, sign, bits, name

    def __repr__(self):
        return "%s%s" % (self.sign, self.bits) if self.kind == "int" else self.kind + ":" + str(self.name)


def ctype(tnode, tr=None):
    q = tnode.get("desugaredQualType") or tnode.get("qualType")
    q0 = clean_type(q)
    if q0.startswith("typeof") and "desugaredQualType" not in tnode:
        raise Unsupported("unresolved typeof type " + q)
    if q0.endswith("*") or "(*)" in q0 or q0.endswith("^") or "(^)" in q0:
        return T("ptr", "u", 64, q0)
    if q0 in INT_TYPES:
        s, b = INT_TYPES[q0]
        return T("int", s, b)
    if q0 == "void":
        return T("void")
    if q0.startswith("enum "):
        # need underlying type from the compiler
        key = clean_type(tnode.get("qualType"))
        if key.startswith("enum ") and "unnamed" in key:
            return T("int", "u", 32)
        if tr is not None:
            sb = tr.type_info(key)
            return T("int", sb[0], sb[1])
        return T("int", "u", 32)
    if q0.startswith("struct ") or q0.startswith("union "):
        return T("struct", name=q0)
    if q0 == "<builtin fn type>":
        return T("fn")
    if "(" in q0:
        return T("fn")
    if tr is not None:
        try:
            sb = tr.type_info(q0)
        except Unsupported:
            # not an arithmetic type (e.g. a transparent union of object pointers): opaque aggregate
            return T("struct", name=q0)
        return T("int", sb[0], sb[1])
    raise Unsupported("unknown type " + q)


def cval(e):
    m = re.fullmatch(r"\(?\s*(-?\d+)\s*\)?", e.strip())
    return int(m.group(1)) if m else None


def lit(v):
    return str(v) if v >= 0 else "(%d)" % v


def pywrap(t, v):
    if t.kind == "ptr":
        return v % (1 << 64)
    if t.bits == 1:
        return 1 if v != 0 else 0
    m = 1 << t.bits
    v %= m
    if t.sign == "s" and v >= m // 2:
        v -= m
    return v


def wrapname(t):
    if t.bits in (8, 16, 32, 64):
        return "%s%d" % (t.sign, t.bits)
    return "(wrap%s %d)" % (t.sign, t.bits)


def wrap(t, e):
    c = cval(e)
    if c is not None:
        return lit(pywrap(t, c))
    if t.kind == "ptr":
        return "(u64 %s)" % e
    if t.bits == 1:
        return "(b2z (nz %s))" % e
    return "(%s %s)" % (wrapname(t), e)


def subrange(a, b):
    """is every value of int type a representable in b"""
    if a.sign == b.sign:
        return a.bits <= b.bits
    if a.sign == "u" and b.sign == "s":
        return a.bits < b.bits
    return False


def notop(t, e):
    c = cval(e)
    if c is not None:
        return lit(pywrap(t, ~c))
    if t.sign == "s":
        return "(Z.lnot %s)" % e
    if t.bits in (8, 16, 32, 64):
        return "(not%d %s)" % (t.bits, e)
    return "(notu %d %s)" % (t.bits, e)


ORDER = {"memory_order_relaxed": "Relaxed", "memory_order_consume": "Consume", "memory_order_acquire": "Acquire",
         "memory_order_release": "Release", "memory_order_acq_rel": "AcqRel", "memory_order_seq_cst": "SeqCst"}

ATOMIC_KIND = {
    "__c11_atomic_load": "KLoad", "__c11_atomic_store": "KStore", "__c11_atomic_exchange": "KXchg",
    "__c11_atomic_compare_exchange_strong": "KCas", "__c11_atomic_compare_exchange_weak": "KCasWeak",
    "__c11_atomic_fetch_add": "KAdd", "__c11_atomic_fetch_sub": "KSub", "__c11_atomic_fetch_and": "KAnd",
    "__c11_atomic_fetch_or": "KOr", "__c11_atomic_fetch_xor": "KXor",
}
AOP_OF_KIND = {"KXor": "AXor", "KOr": "AOr", "KAnd": "AAnd", "KAdd": "AAdd", "KSub": "ASub", "KStore": "AStore"}


def skip_paren(n):
    while n.get("kind") in ("ParenExpr", "ConstantExpr") or (
            n.get("kind") in ("ImplicitCastExpr", "CStyleCastExpr") and
            n.get("castKind") in ("LValueToRValue", "NoOp", "BitCast", "FunctionToPointerDecay", "BuiltinFnToFnPtr",
                                  "ArrayToPointerDecay")):
        n = n["inner"][0]
    return n


def callee_name(call):
    c = skip_paren(call["inner"][0])
    if c.get("kind") == "DeclRefExpr":
        return c["referencedDecl"].get("name")
    return None


def sanitize(name):
    s = re.sub(r"[^A-Za-z0-9_]", "_", name)
    if s.startswith("_"):
        s = "f" + s
    return s


class Leaf(Exception):
    pass


# ----------------------------------------------------------------------------
# source position of an atomic statement as the DISPATCH_VERIF hook reports it

_src_cache = {}

# kind numbers of the hook (src/shims/atomic.h, enum DV_*)
DV_KIND = {"KLoad": 1, "KStore": 2, "KXchg": 3, "KCas": 4, "KCasWeak": 5, "KAdd": 6, "KSub": 7, "KAnd": 8, "KOr": 9,
           "KXor": 10}


def macro_extent(xfile, xoff):
    """(first line, last line) of the macro invocation (or plain token) that starts at byte xoff of xfile.
    clang expands __LINE__ inside a function-like macro to the line of the END of the outermost invocation (the closing
    parenthesis), so every hook call made by one os_atomic_* statement reports the last line."""
    if xfile not in _src_cache:
        with open(xfile, "rb") as fh:
            _src_cache[xfile] = fh.read()
    b = _src_cache[xfile]
    n = len(b)
    lo = b.count(b"\n", 0, xoff) + 1
    i = xoff
    while i < n and (b[i:i + 1].isalnum() or b[i:i + 1] == b"_"):
        i += 1

    def skip_blank(i):
        while i < n:
            if b[i:i + 1].isspace():
                i += 1
            elif b[i:i + 2] == b"//":
                j = b.find(b"\n", i)
                i = n if j < 0 else j
            elif b[i:i + 2] == b"/*":
                j = b.find(b"*/", i + 2)
                i = n if j < 0 else j + 2
            elif b[i:i + 2] == b"\\\n":
                i += 2
            else:
                break
        return i
    i = skip_blank(i)
    if i == xoff or b[i:i + 1] != b"(":
        return lo, lo          # not a function-like macro invocation
    depth = 0
    while i < n:
        c = b[i:i + 1]
        if c in (b'"', b"'"):
            q = c
            i += 1
            while i < n and b[i:i + 1] != q:
                i += 2 if b[i:i + 1] == b"\\" else 1
            i += 1
            continue
        j = skip_blank(i)
        if j != i:
            i = j
            continue
        if c == b"(":
            depth += 1
        elif c == b")":
            depth -= 1
            if depth == 0:
                return lo, b.count(b"\n", 0, i) + 1
        i += 1
    raise Unsupported("unbalanced macro invocation at %s:%d" % (xfile, lo))


def site_pos(node):
    """{file (relative to the repo), lo, hi} of the statement that produced AST node `node`, or None"""
    xf, xo = node.get("xfile"), node.get("xoff")
    if xf is None or xo is None:
        return None
    lo, hi = macro_extent(xf, xo)
    rel = os.path.relpath(xf, astdump.REPO) if os.path.isabs(xf) else xf
    return {"file": rel, "lo": lo, "hi": hi}


# ----------------------------------------------------------------------------

class FnInfo:
    def __init__(self):
        self.name = None
        self.coqname = None
        self.params = []      # list of dicts: {coq, kind: c|out|member|oracle|havoc, cname, field}
        self.nouts = 0
        self.ret = None       # T
        self.text = None
        self.mode = None
        self.sites = None
        self.order = None
        self.deps = []
        self.old_param = None


class Translator:
    def __init__(self, config):
        self.cfg = config
        self.oracles = config.get("oracles", {})
        self.ignore = set(config.get("ignore_calls", []))
        self.fields = config.get("fields", [])
        self.fns = {}          # (name) -> FnInfo
        self.order = []        # emission order
        self.enum_needed = set()
        self.type_needed = set()
        self.failed = {}
        self.field_ids = {}

    # -- compiler queries (values of enum constants / macros, unknown typedefs)
    def type_info(self, name):
        if name in INT_TYPES:
            return INT_TYPES[name]
        if name not in _unknown_types:
            _unknown_types[name] = query_types([name])[name]
        return _unknown_types[name]

    def field_id(self, fname):
        if fname not in self.field_ids:
            self.field_ids[fname] = len(self.field_ids)
        return self.field_ids[fname]

    # -- function acquisition
    def get(self, cfile, fname, mode="fn", forced=False, loop=0, alias=None, field=None):
        key = alias or fname
        if mode == "rmwloop":
            decl = astdump.get_function(cfile, fname)
            if decl is None:
                raise Unsupported("no definition of %s visible in %s" % (fname, cfile))
            ft = FnTrans(self, cfile, decl, mode)
            ft.loop_index = loop
            try:
                info = ft.translate()
            except Unsupported as e:
                raise Unsupported("%s#%d: %s" % (fname, loop, e))
            info.coqname = sanitize(key)
            info.text = info.text.replace("Definition %s " % sanitize(fname), "Definition %s " % sanitize(key), 1)
            self.fns[key] = info
            self.order.append(key)
            return info
        if mode == "atomicop":
            # the n-th single atomic read-modify-write (fetch_add/sub/and/or/xor) on one field in a function, as the
            # trivial transition function of the value it found: Commit (old <op> operand) 0
            decl = astdump.get_function(cfile, fname)
            if decl is None:
                raise Unsupported("no definition of %s visible in %s" % (fname, cfile))
            ft = FnTrans(self, cfile, decl, "rmw")
            ft.info.coqname = sanitize(key)
            try:
                info = ft.translate_atomicop(loop, field or "dq_state")
            except Unsupported as e:
                raise Unsupported("%s op#%d: %s" % (fname, loop, e))
            info.coqname = sanitize(key)
            info.cparams_all = ft.cparams
            info.outs_ids = []
            self.fns[key] = info
            self.order.append(key)
            return info
        if mode == "sites":
            decl = astdump.get_function(cfile, fname)
            if decl is None:
                raise Unsupported("no definition of %s visible in %s" % (fname, cfile))
            ft = FnTrans(self, cfile, decl, mode)
            info = ft.translate()
            info.coqname = sanitize(key)
            self.fns["sites:" + key] = info
            self.order.append("sites:" + key)
            return info
        if fname in self.fns:
            return self.fns[fname]
        if fname in self.failed:
            raise Unsupported(self.failed[fname])
        decl = astdump.get_function(cfile, fname)
        if decl is None:
            self.failed[fname] = "no definition of %s visible in %s" % (fname, cfile)
            raise Unsupported(self.failed[fname])
        ft = FnTrans(self, cfile, decl, mode)
        try:
            info = ft.translate()
        except Unsupported as e:
            self.failed[fname] = "%s: %s" % (fname, e)
            raise Unsupported(self.failed[fname])
        self.fns[fname] = info
        self.order.append(fname)
        return info


class Env:
    def __init__(self, vars=None, outs=None):
        self.vars = dict(vars or {})

    def copy(self):
        return Env(self.vars)


class FnTrans:
    def __init__(self, tr, cfile, decl, mode):
        self.tr, self.cfile, self.decl, self.mode = tr, cfile, decl, mode
        self.info = FnInfo()
        self.info.name = decl["name"]
        self.info.coqname = sanitize(decl["name"])
        self.info.mode = mode
        self.counter = {}
        self.extra_params = []   # discovered params
        self.extra_index = {}
        self.vtypes = {}         # decl id -> T
        self.names = {}          # decl id -> C name
        self.outs = []           # decl ids of out-params in order
        self.line = decl.get("line", 0)
        self.has_trap = False
        self.sites = []
        self.in_loop = None      # rmw context
        self.cparams = []
        self.structs = {}        # decl id of local struct var -> {field: coqvar}
        self.in_loop_state = {}
        self.break_k = []
        self.alias = {}

    # ------------------------------------------------------------------ util
    def fresh(self, base):
        base = re.sub(r"[^A-Za-z0-9_]", "_", base)
        if base.startswith("_"):
            base = "v" + base
        n = self.counter.get(base, 0)
        self.counter[base] = n + 1
        return base if n == 0 else "%s_%d" % (base, n)

    def err(self, node, msg):
        raise Unsupported("%s:%s (%s): %s [%s]" % (self.cfile, node.get("line", self.line), self.info.name, msg,
                                                   node.get("kind")))

    def T(self, node):
        return ctype(node["type"], self.tr)

    def extra(self, key, base, kind, **kw):
        if key in self.extra_index:
            return self.extra_index[key]["coq"]
        name = self.fresh(base)
        p = dict(coq=name, kind=kind, key=key, **kw)
        self.extra_params.append(p)
        self.extra_index[key] = p
        return name

    # --------------------------------------------------------------- entry
    def translate(self):
        d = self.decl
        body = None
        env = Env()
        for c in d.get("inner", []):
            if c["kind"] == "ParmVarDecl":
                t = ctype(c["type"], self.tr)
                nm = c.get("name") or ("arg%d" % len(self.cparams))
                coq = self.fresh(nm)
                self.vtypes[c["id"]] = t
                self.names[c["id"]] = nm
                self.cparams.append(dict(coq=coq, kind="c", id=c["id"], type=t, cname=nm))
                env.vars[c["id"]] = coq
            elif c["kind"] == "CompoundStmt":
                body = c
        rq = d["type"]["qualType"]
        rett = clean_type(rq.split("(")[0])
        self.ret = ctype({"qualType": rett}, self.tr) if rett != "void" else T("void")
        if self.ret.kind == "struct":
            raise Unsupported("struct return")
        # out-params: pointer params that are stored through
        self.find_outs(body)
        if self.mode == "sites":
            self.collect_sites(body)
            self.info.sites = self.sites
            self.info.text = ""
            return self.info
        if self.mode == "rmwloop":
            # only the n-th os_atomic_rmw_loop of a (possibly large) function: its body as a function of the value
            # read and of the free variables it mentions (they become parameters)
            loops = []

            def findall(n):
                if self.is_rmw_node(n):
                    loops.append(n)
                    return
                for c in n.get("inner", []):
                    findall(c)
            findall(body)
            idx = self.loop_index
            if idx >= len(loops):
                raise Unsupported("%s has %d rmw loops, wanted #%d" % (self.info.name, len(loops), idx))
            self.loop_only = True
            self.mode = "rmw"
            self.info.mode = "rmw"
            self.line = loops[idx].get("line", self.line) or self.line
            term = self.rmw_loop(loops[idx], env, lambda e, res: self.leaf_return("0" if res == "1" else "0", e))
            body = loops[idx]
        else:
            term = self.block([body], env, self.k_end)
        # header
        ps = []
        plist = []
        for p in self.cparams:
            if p["id"] in self.outs:
                continue
            ps.append("(%s : Z)" % p["coq"])
            plist.append(p)
        for p in self.extra_params:
            ps.append("(%s : Z)" % p["coq"])
            plist.append(p)
        self.info.params = plist
        self.info.nouts = len(self.outs)
        self.info.ret = self.ret
        self.info.has_trap = self.has_trap
        rt = "rmw_outcome" if self.mode == "rmw" else self.ret_type_str()
        hdr = "Definition %s %s : %s :=\n" % (self.info.coqname, " ".join(ps), rt)
        self.collect_sites(body)
        self.info.sites = self.sites
        self.info.text = "(* %s:%s %s *)\n" % (self.cfile, self.line, self.info.name) + hdr + "  " + term + ".\n"
        return self.info

    def translate_atomicop(self, index, field):
        d = self.decl
        env = Env()
        body = None
        for c in d.get("inner", []):
            if c["kind"] == "ParmVarDecl":
                t = ctype(c["type"], self.tr)
                nm = c.get("name") or ("arg%d" % len(self.cparams))
                self.vtypes[c["id"]] = t
                self.names[c["id"]] = nm
                self.cparams.append(dict(coq=nm, kind="c", id=c["id"], type=t, cname=nm))
            elif c["kind"] == "CompoundStmt":
                body = c
        self.ret = T("void")
        self.loop_only = True        # free variables of the operand become parameters, constant locals are inlined
        ops, macro_v = [], {}

        def walk(n):
            if n.get("kind") == "VarDecl" and n.get("name") == "_v":
                init = [c for c in n.get("inner", []) if "Attr" not in c["kind"]]
                if init:
                    macro_v[n["id"]] = init[0]
            if n.get("kind") == "VarDecl" and n.get("name") == "_p" and n.get("inner"):
                self.alias["_p"] = self.atomic_field(n["inner"][0])
            if n.get("kind") == "AtomicExpr" and ATOMIC_KIND.get(n.get("atomic")) in ("KAdd", "KSub", "KAnd", "KOr", "KXor") \
                    and self.atomic_field(n["inner"][0]) == field:
                ops.append(n)
            for c in n.get("inner", []):
                walk(c)
        walk(body)
        if index >= len(ops):
            raise Unsupported("%s has %d atomic read-modify-write operations on %s, wanted #%d" % (
                self.info.name, len(ops), field, index))
        at = ops[index]
        kind = ATOMIC_KIND[at["atomic"]]
        tv = self.T(at)
        if tv.kind != "int" or tv.sign != "u":
            raise Unsupported("atomic operation on a non-unsigned word (%s)" % tv)
        operand = at["inner"][2]
        o = skip_paren(operand)
        if o.get("kind") == "DeclRefExpr" and o["referencedDecl"]["id"] in macro_v:
            operand = macro_v[o["referencedDecl"]["id"]]     # the macro's `_v = (v)`
        lets = []
        v = self.E(operand, env, lets)
        to = self.T(operand)
        if to.kind == "int" and not subrange(to, tv):
            v = wrap(tv, v)                                    # conversion of the operand to the word's type
        oldname = self.fresh("old_state")
        op = {"KAdd": "+", "KSub": "-", "KAnd": "&", "KOr": "|", "KXor": "^"}[kind]
        term = self.with_lets(lets, "Commit %s 0" % self.arith(op, tv, oldname, v, at))
        self.extra_params.append(dict(coq=oldname, kind="old", key=("old",)))
        info = self.info
        info.mode = "rmw"
        info.params = list(self.extra_params)
        info.old_param = oldname
        info.nouts = 0
        info.ret = self.ret
        info.has_trap = False
        info.order = ORDER.get(skip_paren(at["inner"][1]).get("referencedDecl", {}).get("name"), "SeqCst")
        info.rmw_field = field
        info.rmw_pos = site_pos(at)
        info.rmw_kind = kind
        info.sites = [(at.get("line", 0), kind, field, info.order)]
        ps = " ".join("(%s : Z)" % p["coq"] for p in info.params)
        pos = info.rmw_pos or {"file": self.cfile, "lo": self.line, "hi": self.line}
        info.text = "(* %s:%s %s: os_atomic %s on %s *)\nDefinition %s %s : rmw_outcome :=\n  %s.\n" % (
            pos["file"], pos["hi"], info.name, kind[1:].lower(), field, info.coqname, ps, term)
        return info

    def ret_type_str(self):
        n = len(self.outs) + (0 if self.ret.kind == "void" else 1)
        if n <= 1:
            return "Z"
        return "(" + " * ".join(["Z"] * n) + ")%type"

    def find_outs(self, body):
        pids = {p["id"] for p in self.cparams if p["type"].kind == "ptr"}

        def walk(n):
            if n.get("kind") in ("BinaryOperator", "CompoundAssignOperator") and (
                    n.get("opcode") == "=" or n.get("kind") == "CompoundAssignOperator"):
                l = skip_paren(n["inner"][0])
                if l.get("kind") == "UnaryOperator" and l.get("opcode") == "*":
                    r = skip_paren(l["inner"][0])
                    if r.get("kind") == "DeclRefExpr" and r["referencedDecl"]["id"] in pids:
                        if r["referencedDecl"]["id"] not in self.outs:
                            self.outs.append(r["referencedDecl"]["id"])
            for c in n.get("inner", []):
                walk(c)
        walk(body)
        # keep declaration order
        order = [p["id"] for p in self.cparams]
        self.outs.sort(key=order.index)

    # --------------------------------------------------------------- sites
    def atomic_field(self, ptr):
        """name of the object field an atomic pointer expression designates"""
        n = skip_paren(ptr)
        while n.get("kind") in ("CStyleCastExpr", "ImplicitCastExpr", "ParenExpr"):
            n = skip_paren(n["inner"][0]) if n.get("kind") != "ParenExpr" else n["inner"][0]
        if n.get("kind") == "UnaryOperator" and n.get("opcode") == "&":
            m = skip_paren(n["inner"][0])
            if m.get("kind") == "MemberExpr":
                return m.get("name") or "anon"
            if m.get("kind") == "DeclRefExpr":
                return m["referencedDecl"].get("name")
            if m.get("kind") == "ArraySubscriptExpr":
                b = skip_paren(m["inner"][0])
                if b.get("kind") == "MemberExpr":
                    return b.get("name")
                if b.get("kind") == "DeclRefExpr":
                    return b["referencedDecl"].get("name")
            return "expr"
        if n.get("kind") == "DeclRefExpr":
            nm = n["referencedDecl"].get("name")
            # a local alias such as `_p` of the rmw loop macro: look at its initialiser
            if nm in self.alias:
                return self.alias[nm]
            return nm
        if n.get("kind") == "MemberExpr":
            return n.get("name")
        return "expr"

    def collect_sites(self, body):
        self.sites = []
        self.alias = {}

        def walk(n):
            k = n.get("kind")
            if k == "VarDecl" and n.get("name") in ("_p",) and n.get("inner"):
                self.alias[n["name"]] = self.atomic_field(n["inner"][0])
            if k == "AtomicExpr":
                a = n.get("atomic")
                kind = ATOMIC_KIND.get(a)
                if kind is None:
                    raise Unsupported("unknown atomic builtin %s" % a)
                inner = n["inner"]
                fld = self.atomic_field(inner[0])
                o = skip_paren(inner[1])
                order = ORDER.get(o.get("referencedDecl", {}).get("name"), "SeqCst")
                self.sites.append((n.get("line", 0), kind, fld, order))
            if k == "CallExpr" and callee_name(n) == "__c11_atomic_thread_fence":
                o = skip_paren(n["inner"][1])
                order = ORDER.get(o.get("referencedDecl", {}).get("name"), "SeqCst")
                if order != "Relaxed":
                    self.sites.append((n.get("line", 0), "KFence", "fence", order))
            if k == "CallExpr" and self.mode == "sites":
                cn = callee_name(n)
                if cn and not cn.startswith("__") and cn not in seen and len(seen) < 40 and \
                        cn not in self.tr.cfg.get("sites_stop", []):
                    # arguments first (evaluation order), then the callee's own sites when its body is visible (inline)
                    for c in n.get("inner", [])[1:]:
                        walk(c)
                    try:
                        d = astdump.get_function(self.cfile, cn)
                    except Exception:
                        d = None
                    if d is not None:
                        seen.add(cn)
                        for c in d.get("inner", []):
                            if c.get("kind") == "CompoundStmt":
                                walk(c)
                        seen.discard(cn)
                    return
            for c in n.get("inner", []):
                walk(c)
        seen = {self.info.name}
        walk(body)

    # ---------------------------------------------------------- statements
    # CPS: each function returns a Gallina term (string); k(env) gives the term
    # for "the rest".
    def k_end(self, env):
        # fell off the end of the function
        return self.leaf_return(None, env)

    def leaf_return(self, valexpr, env):
        outs = [env.vars.get(o, "0") for o in self.outs]
        if self.mode == "rmw":
            L = self.in_loop_state
            v = valexpr if valexpr is not None else "0"
            if L.get("committed") is not None:
                return "Commit %s %s" % (L["committed"], v)
            ex = "[" + "; ".join(L.get("extras", [])) + "]"
            return "NoCommit %s %s" % (v, ex)
        items = ([valexpr] if valexpr is not None else []) + outs
        if self.ret.kind != "void" and valexpr is None:
            items = ["0"] + outs
        if not items:
            return "0"
        if len(items) == 1:
            return items[0]
        return "(" + ", ".join(items) + ")"

    def block(self, stmts, env, k):
        if not stmts:
            return k(env)
        s, rest = stmts[0], stmts[1:]
        return self.stmt(s, env, lambda e: self.block(rest, e, k))

    def let(self, name, expr, body):
        return "let %s := %s in\n  %s" % (name, expr, body)

    def with_lets(self, lets, body):
        for n, e in reversed(lets):
            body = self.let(n, e, body)
        return body

    def stmt(self, s, env, k):
        kind = s.get("kind")
        if kind == "CompoundStmt":
            return self.block(s.get("inner", []), env, k)
        if kind in ("NullStmt",):
            return k(env)
        if kind == "GCCAsmStmt":
            # only the empty `__asm__("")` barrier of _dispatch_hardware_crash() is accepted
            if s.get("inner"):
                self.err(s, "inline asm with operands")
            return k(env)
        if kind == "AttributedStmt":
            return self.block([c for c in s["inner"] if "Attr" not in c["kind"]], env, k)
        if kind == "LabelStmt":
            return self.block(s.get("inner", []), env, k)
        if kind == "DeclStmt":
            return self.declstmt(s, env, k)
        if kind == "ReturnStmt":
            if s.get("inner"):
                e0 = s["inner"][0]
                loop = self.find_rmw(e0)
                if loop is not None:
                    return self.rmw_loop(loop, env, lambda e, res: self.leaf_return(res, e))
                lets = []
                v = self.E(e0, env, lets)
                return self.with_lets(lets, self.leaf_return(v, env))
            return self.leaf_return(None, env)
        if kind == "IfStmt":
            return self.ifstmt(s, env, k)
        if kind == "SwitchStmt":
            return self.switchstmt(s, env, k)
        if kind == "DoStmt":
            body, cond = s["inner"][0], s["inner"][1]
            c = skip_paren(cond)
            if c.get("kind") == "IntegerLiteral" and c.get("value") == "0":
                return self.stmt(body, env, k)
            self.err(s, "do-while loop")
        if kind == "GotoStmt":
            if self.mode == "rmw":
                L = self.in_loop_state
                ex = "[" + "; ".join(L.get("extras", [])) + "]"
                if self.goto_is_backward(s):
                    return "Restart %s" % ex
                return "NoCommit 2 %s" % ex
            self.err(s, "goto")
        if kind == "BreakStmt":
            if self.break_k:
                return self.break_k[-1](env)
            self.err(s, "break outside switch/rmw loop")
        if kind in ("WhileStmt", "ForStmt"):
            self.err(s, "loop")
        if kind == "StmtExpr":
            loop = self.find_rmw(s)
            if loop is not None:
                return self.rmw_loop(loop, env, lambda e, res: k(e))
            return self.stmtexpr_stmt(s, env, k)
        # expression statement
        loop = self.find_rmw(s)
        if loop is not None:
            # (void)rmw_loop / x = rmw_loop not supported except plain/void
            t = skip_paren(s)
            if t.get("kind") == "CStyleCastExpr" and t.get("castKind") == "ToVoid":
                return self.rmw_loop(loop, env, lambda e, res: k(e))
            self.err(s, "rmw loop in unsupported expression position")
        return self.exprstmt(s, env, k)

    def is_noreturn_call(self, s):
        if s.get("kind") == "CallExpr":
            n = callee_name(s)
            if n in ("__builtin_trap", "abort", "_dispatch_abort", "__builtin_unreachable", "_dispatch_hardware_crash"):
                return n
        return None

    def exprstmt(self, s, env, k):
        n = s
        if n.get("kind") == "CStyleCastExpr" and n.get("castKind") == "ToVoid":
            n = n["inner"][0]
        nr = self.is_noreturn_call(skip_paren(n))
        if nr:
            if nr == "__builtin_unreachable":
                return self.trap_leaf(0)
            return self.trap_leaf(s.get("line", 0))
        if n.get("kind") == "CallExpr":
            name = callee_name(n)
            if name in self.tr.ignore or name in ("__builtin_assume",):
                return k(env)
            if name == "__c11_atomic_thread_fence":
                o = skip_paren(n["inner"][1])
                order = ORDER.get(o.get("referencedDecl", {}).get("name"), "SeqCst")
                if order != "Relaxed":
                    self.record_extra("AFence %s" % order, n)
                return k(env)
        lets = []
        env2 = env.copy()
        self.E(n, env2, lets, want_value=False)
        return self.with_lets(lets, k(env2))

    def trap_leaf(self, tag):
        self.has_trap = True
        if self.mode == "rmw":
            return "Crash %d" % tag
        n = len(self.outs) + (0 if self.ret.kind == "void" else 1)
        if n <= 1:
            return "trap_val"
        return "(" + ", ".join(["trap_val"] * n) + ")"

    def record_extra(self, txt, node):
        if self.mode == "rmw" and self.in_loop_state.get("in_giveup"):
            self.in_loop_state.setdefault("extras", []).append(txt)
            return
        self.err(node, "atomic operation outside an rmw give-up block in translated code")

    def declstmt(self, s, env, k):
        decls = [c for c in s.get("inner", []) if c["kind"] == "VarDecl"]
        lets = []
        env2 = env.copy()
        for d in decls:
            t = ctype(d["type"], self.tr)
            self.vtypes[d["id"]] = t
            self.names[d["id"]] = d["name"]
            init = [c for c in d.get("inner", []) if "Attr" not in c["kind"]]
            if t.kind == "struct":
                if init:
                    self.init_struct(d, init[0], env2, lets)
                else:
                    self.structs[d["id"]] = {}
                continue
            if init:
                loop = self.find_rmw(init[0])
                if loop is not None:
                    self.err(d, "rmw loop as initialiser")
                v = self.E(init[0], env2, lets)
                nm = self.fresh(d["name"])
                lets.append((nm, v))
                env2.vars[d["id"]] = nm
            else:
                env2.vars[d["id"]] = None  # uninitialised
        return self.with_lets(lets, k(env2))

    def init_struct(self, d, init, env, lets):
        i = skip_paren(init)
        fields = {}
        if i.get("kind") == "InitListExpr":
            # positional/designated initialisers: need field names: use the array_filler-free form
            fl = i.get("inner", [])
            names = self.struct_fields(d["type"])
            for idx, f in enumerate(fl):
                if f.get("kind") == "ImplicitValueInitExpr":
                    v = "0"
                else:
                    v = self.E(f, env, lets)
                if idx < len(names):
                    nm = self.fresh(d["name"] + "_" + names[idx])
                    lets.append((nm, v))
                    fields[names[idx]] = nm
            self.structs[d["id"]] = fields
            env.vars[d["id"]] = ("struct", fields)
            return
        self.err(d, "struct initialiser")

    def struct_fields(self, tnode):
        key = clean_type(tnode.get("desugaredQualType") or tnode.get("qualType"))
        sf = self.tr.cfg.get("structs", {})
        if key in sf:
            return sf[key]
        raise Unsupported("fields of %s not declared in targets.json" % key)

    def assigned_vars(self, node, acc):
        """decl ids assigned anywhere under node (over-approximation); returns False when a return/goto/break/trap
        is found (so that join cannot be used)"""
        ok = True
        k = node.get("kind")
        if k in ("ReturnStmt", "GotoStmt", "BreakStmt", "ContinueStmt", "AtomicExpr", "DoStmt", "WhileStmt", "ForStmt",
                 "SwitchStmt", "DeclStmt"):
            return False
        if k == "CallExpr":
            nm = callee_name(node)
            if nm in ("__builtin_trap", "__builtin_unreachable", "abort", "_dispatch_abort"):
                return False
            for a in node["inner"][1:]:
                a0 = skip_paren(a)
                if a0.get("kind") == "UnaryOperator" and a0.get("opcode") == "&":
                    return False
        if k in ("BinaryOperator", "CompoundAssignOperator") and (n_is_assign(node)):
            l = skip_paren(node["inner"][0])
            if l.get("kind") == "DeclRefExpr":
                acc.append(l["referencedDecl"]["id"])
            else:
                return False
        if k == "UnaryOperator" and node.get("opcode") in ("++", "--"):
            l = skip_paren(node["inner"][0])
            if l.get("kind") == "DeclRefExpr":
                acc.append(l["referencedDecl"]["id"])
            else:
                return False
        for c in node.get("inner", []):
            if not self.assigned_vars(c, acc):
                ok = False
        return ok

    def ifstmt(self, s, env, k):
        inner = s["inner"]
        cond, thn = inner[0], inner[1]
        els = inner[2] if len(inner) > 2 else None
        if self.find_rmw(cond) is not None:
            # if (rmw_loop) / if (!rmw_loop)
            c = skip_paren(cond)
            neg = False
            while True:
                c = skip_paren(c)
                if c.get("kind") == "UnaryOperator" and c.get("opcode") == "!":
                    neg = not neg
                    c = c["inner"][0]
                    continue
                if c.get("kind") == "CallExpr" and callee_name(c) == "__builtin_expect":
                    c = c["inner"][1]
                    continue
                if c.get("kind") in ("ImplicitCastExpr", "CStyleCastExpr"):
                    c = c["inner"][0]
                    continue
                break
            if c.get("kind") != "StmtExpr":
                self.err(s, "rmw loop inside a complex condition")

            def after(e, res):
                # res is "1" or "0" (known statically on each path)
                truth = (res == "1") != neg
                if truth:
                    return self.stmt(thn, e, k)
                if els is not None:
                    return self.stmt(els, e, k)
                return k(e)
            return self.rmw_loop(c, env, after)
        lets = []
        env1 = env.copy()
        try:
            c = self.B(cond, env1, lets)
        except Unsupported as e:
            if "side effect under short-circuit" not in str(e):
                raise
            # `if (a || b) T else E` with effects in b  ==>  `if (a) T else if (b) T else E` (and dually for &&)
            c0 = cond
            while True:
                c0 = skip_paren(c0)
                if c0.get("kind") == "CallExpr" and callee_name(c0) == "__builtin_expect":
                    c0 = c0["inner"][1]
                    continue
                if c0.get("kind") in ("ImplicitCastExpr", "CStyleCastExpr") and c0.get("castKind") in (
                        "IntegralCast", "IntegralToBoolean", "NoOp"):
                    c0 = c0["inner"][0]
                    continue
                break
            if c0.get("kind") != "BinaryOperator" or c0.get("opcode") not in ("||", "&&"):
                raise
            a, b = c0["inner"]
            if c0["opcode"] == "||":
                inner2 = {"kind": "IfStmt", "line": s.get("line", 0), "inner": [b, thn] + ([els] if els is not None else [])}
                outer = {"kind": "IfStmt", "line": s.get("line", 0), "inner": [a, thn, inner2]}
            else:
                inner2 = {"kind": "IfStmt", "line": s.get("line", 0), "inner": [b, thn] + ([els] if els is not None else [])}
                outer = {"kind": "IfStmt", "line": s.get("line", 0), "inner": [a, inner2] + ([els] if els is not None else [])}
            return self.ifstmt(outer, env, k)
        # try join form when no branch leaves
        acc = []
        joinable = self.assigned_vars(thn, acc) and (els is None or self.assigned_vars(els, acc))
        acc = [a for a in dict.fromkeys(acc) if a in env1.vars and not isinstance(env1.vars.get(a), tuple)
               and a not in self.structs]
        if joinable and len(acc) <= 3 and self.join_ok:
            # evaluate both branches to tuples of the assigned variables
            def endk(e):
                vals = [e.vars.get(a) or "0" for a in acc]
                return vals[0] if len(vals) == 1 else "(" + ", ".join(vals) + ")"
            if not acc:
                # no effect on locals (could still have out-param effects)
                pass
            else:
                t1 = self.stmt(thn, env1.copy(), endk)
                t2 = self.stmt(els, env1.copy(), endk) if els is not None else endk(env1)
                env2 = env1.copy()
                names = []
                for a in acc:
                    nm = self.fresh(self.names.get(a, "v"))
                    names.append(nm)
                    env2.vars[a] = nm
                pat = names[0] if len(names) == 1 else "'(" + ", ".join(names) + ")"
                term = "let %s := (if %s then (%s) else (%s)) in\n  %s" % (pat, c, t1, t2, k(env2))
                return self.with_lets(lets, term)
        t1 = self.stmt(thn, env1.copy(), k)
        t2 = self.stmt(els, env1.copy(), k) if els is not None else k(env1.copy())
        return self.with_lets(lets, "if %s\n  then (%s)\n  else (%s)" % (c, t1, t2))

    join_ok = True

    def switchstmt(self, s, env, k):
        cond = s["inner"][0]
        body = s["inner"][1]
        lets = []
        env1 = env.copy()
        v = self.E(cond, env1, lets)
        sv = self.fresh("sw")
        lets.append((sv, v))
        # flatten body into a statement list with case markers
        items = []

        def flat(n):
            if n["kind"] in ("CaseStmt", "DefaultStmt"):
                if n["kind"] == "CaseStmt":
                    ce = n["inner"][0]
                    val = const_value(ce)
                    if val is None:
                        val = cval(self.E(ce, Env(), []))
                    if val is None:
                        raise Unsupported("non-constant case label")
                    items.append(("case", val))
                    sub = n["inner"][1:]
                else:
                    items.append(("default", None))
                    sub = n["inner"]
                for c in sub:
                    flat(c)
            elif n["kind"] == "CompoundStmt" and n is body:
                for c in n.get("inner", []):
                    flat(c)
            else:
                items.append(("stmt", n))
        flat(body)
        labels = [(i, it) for i, it in enumerate(items) if it[0] != "stmt"]

        def run_from(i, e):
            stmts = [it[1] for it in items[i:] if it[0] == "stmt"]
            self.break_k.append(k)
            try:
                return self.block(stmts, e, lambda e2: self.pop_and(k, e2))
            finally:
                pass

        # build nested ifs
        default_i = None
        for i, it in labels:
            if it[0] == "default":
                default_i = i
        term_default = None
        self.break_k.append(k)
        try:
            if default_i is not None:
                term_default = self.block([it[1] for it in items[default_i:] if it[0] == "stmt"], env1.copy(), k)
            else:
                term_default = k(env1.copy())
            term = term_default
            for i, it in reversed(labels):
                if it[0] == "case":
                    body_t = self.block([x[1] for x in items[i:] if x[0] == "stmt"], env1.copy(), k)
                    term = "if Z.eqb %s (%s)\n  then (%s)\n  else (%s)" % (sv, it[1], body_t, term)
        finally:
            self.break_k.pop()
        return self.with_lets(lets, term)

    def pop_and(self, k, e):
        return k(e)

    # -------------------------------------------------------------- rmw loop
    loop_only = False
    loop_index = 0
    _const_cache = None

    def const_local(self, vid):
        if self._const_cache is None:
            self._const_cache = {}

            def walk(n):
                if n.get("kind") == "VarDecl" and "id" in n:
                    self._const_cache[n["id"]] = n
                for c in n.get("inner", []):
                    walk(c)
            walk(self.decl)
        d = self._const_cache.get(vid)
        if d is None:
            return None
        q = d.get("type", {}).get("qualType", "")
        if not q.startswith("const "):
            return None
        init = [c for c in d.get("inner", []) if "Attr" not in c.get("kind", "")]
        if not init:
            return None
        lets = []
        try:
            saved = self.loop_only
            self.loop_only = False      # the initialiser must be closed: no free variables
            try:
                v = self.E(init[0], Env(), lets)
            finally:
                self.loop_only = saved
        except Unsupported:
            return None
        if lets or cval(v) is None:
            return None
        return v

    def var_type(self, vid):
        """C type of a variable/parameter of the function by declaration id (informational: site tables), or None"""
        self.const_local(None)        # fills the declaration index
        d = self._const_cache.get(vid)
        if d is None:
            for c in self.decl.get("inner", []):
                if c.get("kind") == "ParmVarDecl" and c.get("id") == vid:
                    d = c
        try:
            return ctype(d["type"], self.tr) if d is not None else None
        except Unsupported:
            return None

    def goto_is_backward(self, g):
        """does this goto jump to a label that precedes it in the function text (a retry)?"""
        target = g.get("targetLabelDeclId")
        order = {}
        cnt = [0]
        gpos = [None]

        def walk(n):
            cnt[0] += 1
            if n.get("kind") == "LabelStmt":
                order[n.get("declId")] = cnt[0]
            if n is g or (n.get("kind") == "GotoStmt" and n.get("id") == g.get("id")):
                gpos[0] = cnt[0]
            for c in n.get("inner", []):
                walk(c)
        walk(self.decl)
        if gpos[0] is None:
            raise Unsupported("goto not found in its function")
        if target in order:
            return order[target] < gpos[0]
        # clang's JSON ids of label declarations are not always consistent: decide by position when unambiguous
        before = [v for v in order.values() if v < gpos[0]]
        after = [v for v in order.values() if v > gpos[0]]
        if before and not after:
            return True
        if after and not before:
            return False
        raise Unsupported("goto with ambiguous target label (labels both before and after it)")

    def is_rmw_node(self, n):
        if n.get("kind") == "StmtExpr":
            cs = n["inner"][0]
            inner = cs.get("inner", [])
            if len(inner) >= 4 and inner[0].get("kind") == "DeclStmt":
                vd = inner[0]["inner"][0]
                if vd.get("name") == "_result" and any(x.get("kind") == "DoStmt" for x in inner):
                    return True
        return False

    def find_rmw(self, node):
        """returns the StmtExpr node of an expanded os_atomic_rmw_loop inside node, if any"""
        n = node
        if n.get("kind") == "StmtExpr":
            cs = n["inner"][0]
            inner = cs.get("inner", [])
            if len(inner) >= 4 and inner[0].get("kind") == "DeclStmt":
                vd = inner[0]["inner"][0]
                if vd.get("name") == "_result" and any(x.get("kind") == "DoStmt" for x in inner):
                    return n
        for c in n.get("inner", []):
            r = self.find_rmw(c)
            if r is not None:
                return r
        return None

    def rmw_loop(self, se, env, kafter):
        """se: StmtExpr of the loop. kafter(env, result) with result "1" (committed) or "0" (gave up by break)."""
        if self.mode != "rmw":
            self.err(se, "rmw loop in a function translated in fn mode")
        if self.in_loop_state.get("seen"):
            self.err(se, "second rmw loop in one function")
        inner = se["inner"][0]["inner"]
        # inner[1]: _p decl ; inner[2]: ov = load ; inner[3]: DoStmt ; inner[4]: _result
        pdecl = inner[1]["inner"][0]
        field = self.atomic_field_of_init(pdecl)
        asg = skip_paren(inner[2])
        ov = skip_paren(asg["inner"][0])
        if ov.get("kind") != "DeclRefExpr":
            self.err(se, "rmw loop old-value is not a variable")
        ovid = ov["referencedDecl"]["id"]
        do = [x for x in inner if x.get("kind") == "DoStmt"][0]
        dobody = do["inner"][0]["inner"]
        # last statement: _result = cmpxchgvw(...)
        cas_stmt = dobody[-1]
        cas = None

        def findcas(n):
            nonlocal cas
            if n.get("kind") == "AtomicExpr" and (n.get("atomic") or "").startswith("__c11_atomic_compare_exchange"):
                cas = n
            for c in n.get("inner", []):
                findcas(c)
        findcas(cas_stmt)
        if cas is None:
            self.err(se, "rmw loop without compare-exchange")
        order = ORDER[skip_paren(cas["inner"][1])["referencedDecl"]["name"]]
        nv = skip_paren(cas["inner"][4])
        body_stmts = dobody[:-1]
        self.info.order = order
        self.info.rmw_field = field
        self.info.rmw_pos = site_pos(se)
        self.info.rmw_kind = ATOMIC_KIND.get(cas.get("atomic"), "KCasWeak")
        oldname = self.fresh(self.names.get(ovid, "old_state"))
        self.info.old_param = oldname
        self.extra_params.append(dict(coq=oldname, kind="old", key=("old",)))
        env1 = env.copy()
        env1.vars[ovid] = oldname
        L = {"seen": True, "extras": [], "committed": None}
        self.in_loop_state = L

        def after_body(e):
            lets = []
            newv = self.E(nv, e, lets)
            nm = self.fresh("commit")
            lets.append((nm, newv))
            saved = dict(L)
            L["committed"] = nm
            L["in_giveup"] = False
            try:
                t = kafter(e, "1")
            finally:
                L["committed"] = None
            return self.with_lets(lets, t)

        def on_break(e):
            # give-up by break: leave loop without commit
            L["in_giveup"] = False
            return kafter(e, "0")
        self.break_k.append(on_break)
        self.giveup_depth = 0
        try:
            return self.block(body_stmts, env1, after_body)
        finally:
            self.break_k.pop()

    def atomic_field_of_init(self, vd):
        init = [c for c in vd.get("inner", []) if "Attr" not in c["kind"]]
        self.alias = getattr(self, "alias", {})
        return self.atomic_field(init[0]) if init else "expr"

    def stmtexpr_stmt(self, s, env, k):
        """statement-position ({ ... }) that is not an rmw loop: give-up blocks and atomic op macros"""
        cs = s["inner"][0]
        inner = cs.get("inner", [])
        # give-up: ({ fence(m); expr; __builtin_unreachable(); })
        if inner and inner[0].get("kind") == "CallExpr" and callee_name(inner[0]) == "__c11_atomic_thread_fence" \
                and self.mode == "rmw" and self.loop_only:
            # loop-only translation: the give-up block leaves the loop; record its atomic operations and how it leaves
            extras = []
            o = skip_paren(inner[0]["inner"][1])
            order = ORDER.get(o.get("referencedDecl", {}).get("name"), "SeqCst")
            if order != "Relaxed":
                extras.append("AFence %s" % order)
            term = [None]
            tnode = [None]

            def scan(n):
                k_ = n.get("kind")
                if k_ == "AtomicExpr":
                    kind = ATOMIC_KIND.get(n.get("atomic"))
                    fld = self.atomic_field(n["inner"][0])
                    od = ORDER.get(skip_paren(n["inner"][1]).get("referencedDecl", {}).get("name"), "SeqCst")
                    fid = self.tr.field_id(fld)
                    if kind in AOP_OF_KIND:
                        extras.append("%s %d 0 %s" % (AOP_OF_KIND[kind], fid, od))
                    else:
                        extras.append("AOther %d %s" % (fid, od))
                if term[0] is None and k_ in ("ReturnStmt", "GotoStmt", "BreakStmt"):
                    term[0] = k_
                    tnode[0] = n
                for c in n.get("inner", []):
                    scan(c)
            for st in inner[1:]:
                scan(st)
            ex = "[" + "; ".join(extras) + "]"
            if term[0] == "GotoStmt":
                if self.goto_is_backward(tnode[0]):
                    return "Restart %s" % ex
                return "NoCommit 2 %s" % ex
            return "NoCommit %s %s" % ("1" if term[0] == "ReturnStmt" else "0", ex)
        if inner and inner[0].get("kind") == "CallExpr" and callee_name(inner[0]) == "__c11_atomic_thread_fence" \
                and self.mode == "rmw":
            L = self.in_loop_state
            L["in_giveup"] = True
            saved = list(L.get("extras", []))
            try:
                o = skip_paren(inner[0]["inner"][1])
                order = ORDER.get(o.get("referencedDecl", {}).get("name"), "SeqCst")
                if order != "Relaxed":
                    L.setdefault("extras", []).append("AFence %s" % order)
                return self.block(inner[1:], env, k)
            finally:
                L["extras"] = saved
                L["in_giveup"] = False
        # atomic op macro used as a statement inside a give-up: record as extra
        at = self.single_atomic(s)
        if at is not None:
            # bind the macro's own locals (`_v = (v)`) so that the operand can be evaluated
            env2 = env.copy()

            def bind(n):
                if n.get("kind") == "VarDecl" and n.get("name") in ("_v",):
                    init = [c for c in n.get("inner", []) if "Attr" not in c["kind"]]
                    if init:
                        l2 = []
                        try:
                            v = self.E(init[0], env2, l2)
                            if not l2:
                                env2.vars[n["id"]] = v
                        except Unsupported:
                            pass
                for c in n.get("inner", []):
                    bind(c)
            bind(s)
            self.record_atomic_extra(at, env2)
            return k(env)
        return self.block(inner, env, k)

    def single_atomic(self, n):
        found = []

        def walk(x):
            if x.get("kind") == "AtomicExpr":
                found.append(x)
            for c in x.get("inner", []):
                walk(c)
        walk(n)
        return found[0] if len(found) == 1 else None

    def record_atomic_extra(self, at, env):
        kind = ATOMIC_KIND.get(at.get("atomic"))
        inner = at["inner"]
        fld = self.atomic_field(inner[0])
        order = ORDER.get(skip_paren(inner[1]).get("referencedDecl", {}).get("name"), "SeqCst")
        fid = self.tr.field_id(fld)
        if kind in AOP_OF_KIND and len(inner) >= 3:
            lets = []
            # operand may be a macro-local `_v`: evaluate its initialiser if it is a DeclRef to a local with init
            try:
                v = self.E(inner[2], env, lets)
                if lets:
                    v = None
            except Unsupported:
                v = None
            if v is None:
                v = self.atomic_operand_const(at)
            self.record_extra("%s %d %s %s" % (AOP_OF_KIND[kind], fid, v, order), at)
        else:
            self.record_extra("AOther %d %s" % (fid, order), at)

    def atomic_operand_const(self, at):
        return "0"

    # ---------------------------------------------------------- expressions
    def B(self, n, env, lets):
        """boolean-valued Gallina term for condition n"""
        k = n.get("kind")
        if k in ("ParenExpr", "ConstantExpr"):
            return self.B(n["inner"][0], env, lets)
        if k in ("ImplicitCastExpr", "CStyleCastExpr"):
            ck = n.get("castKind")
            if ck in ("IntegralToBoolean", "PointerToBoolean"):
                return self.B(n["inner"][0], env, lets)
            if ck in ("IntegralCast", "NoOp", "LValueToRValue"):
                src = n["inner"][0]
                # widening casts keep truth; narrowing might not
                if ck == "IntegralCast":
                    ts, td = self.T(src), self.T(n)
                    if ts.kind == "int" and td.kind == "int" and (subrange(ts, td) or ts.bits <= td.bits):
                        if ck != "LValueToRValue":
                            return self.B(src, env, lets)
                elif ck == "NoOp":
                    return self.B(src, env, lets)
        if k == "UnaryOperator" and n.get("opcode") == "!":
            return "(negb %s)" % self.B(n["inner"][0], env, lets)
        if k == "BinaryOperator":
            op = n["opcode"]
            if op in ("&&", "||"):
                a = self.B(n["inner"][0], env, lets)
                l2 = []
                b = self.B(n["inner"][1], env, l2)
                if l2:
                    self.err(n, "side effect under short-circuit operator")
                return "(%s %s %s)" % (a, "&&" if op == "&&" else "||", b)
            if op in ("<", "<=", ">", ">=", "==", "!="):
                a = self.E(n["inner"][0], env, lets)
                b = self.E(n["inner"][1], env, lets)
                f = {"<": "Z.ltb", "<=": "Z.leb", ">": "Z.gtb", ">=": "Z.geb", "==": "Z.eqb"}.get(op)
                if op == "!=":
                    return "(negb (Z.eqb %s %s))" % (a, b)
                return "(%s %s %s)" % (f, a, b)
        if k == "CallExpr" and callee_name(n) == "__builtin_expect":
            return self.B(n["inner"][1], env, lets)
        v = self.E(n, env, lets)
        return "(nz %s)" % v

    def lvalue_var(self, n):
        l = skip_paren(n)
        if l.get("kind") == "DeclRefExpr" and l["referencedDecl"]["kind"] in ("VarDecl", "ParmVarDecl"):
            return ("var", l["referencedDecl"]["id"], l)
        if l.get("kind") == "UnaryOperator" and l.get("opcode") == "*":
            r = skip_paren(l["inner"][0])
            if r.get("kind") == "DeclRefExpr" and r["referencedDecl"]["id"] in self.outs:
                return ("var", r["referencedDecl"]["id"], r)
            # *(&x)
            if r.get("kind") == "UnaryOperator" and r.get("opcode") == "&":
                return self.lvalue_var(r["inner"][0])
        if l.get("kind") == "MemberExpr":
            b = skip_paren(l["inner"][0])
            if b.get("kind") == "DeclRefExpr" and b["referencedDecl"]["id"] in self.structs and not l.get("isArrow"):
                return ("field", b["referencedDecl"]["id"], l)
        return None

    def assign(self, lv, value, env, lets, node):
        kind, vid, ln = lv
        if kind == "var":
            nm = self.fresh(self.names.get(vid) or ln["referencedDecl"].get("name", "v"))
            self.names.setdefault(vid, ln["referencedDecl"].get("name", "v"))
            lets.append((nm, value))
            env.vars[vid] = nm
            return nm
        if kind == "field":
            fld = ln["name"]
            # bit-field truncation
            t = self.T(ln)
            bw = self.bitfield_width(vid, fld)
            if bw is not None:
                tt = T("int", t.sign, bw)
                value = wrap(tt, value)
            nm = self.fresh(self.names.get(vid, "s") + "_" + fld)
            lets.append((nm, value))
            fields = dict(self.structs[vid])
            fields[fld] = nm
            self.structs[vid] = fields
            cur = env.vars.get(vid)
            env.vars[vid] = ("struct", fields)
            return nm
        self.err(node, "assignment target")

    def bitfield_width(self, vid, fld):
        bf = self.tr.cfg.get("bitfields", {})
        return bf.get(fld)

    def readvar(self, n, env):
        vid = n["referencedDecl"]["id"]
        if vid in self.outs and vid not in env.vars:
            self.err(n, "read of out-parameter before write")
        v = env.vars.get(vid, KeyError)
        if v is KeyError:
            # global variable or something not local
            nm = n["referencedDecl"].get("name")
            og = self.tr.cfg.get("globals", {})
            if nm in og:
                return self.extra(("global", nm), og[nm], "oracle", cname=nm)
            if self.loop_only and n["referencedDecl"].get("kind") in ("VarDecl", "ParmVarDecl"):
                self.names.setdefault(vid, nm)
                # a `const` local initialised before the loop by a constant expression is inlined, not abstracted
                cv = self.const_local(vid)
                if cv is not None:
                    return cv
                return self.extra(("free", vid), nm, "free", type=self.var_type(vid))
            self.err(n, "reference to non-local variable %s" % nm)
        if v is None:
            if self.loop_only:
                nm = n["referencedDecl"].get("name")
                return self.extra(("free", vid), nm, "free", type=self.var_type(vid))
            self.err(n, "read of uninitialised variable %s" % n["referencedDecl"].get("name"))
        if isinstance(v, tuple):
            self.err(n, "struct value used as scalar")
        return v

    def member_root(self, n):
        """for a MemberExpr chain rooted (through ->, ., casts, derefs) at a parameter: (param id, [field names])"""
        path = []
        cur = n
        while True:
            cur = skip_paren(cur)
            k = cur.get("kind")
            if k == "MemberExpr":
                if cur.get("name"):
                    path.append(cur["name"])
                cur = cur["inner"][0]
                continue
            if k in ("ImplicitCastExpr", "CStyleCastExpr"):
                cur = cur["inner"][0]
                continue
            if k == "UnaryOperator" and cur.get("opcode") in ("*", "&"):
                cur = cur["inner"][0]
                continue
            if k == "DeclRefExpr":
                return cur["referencedDecl"], list(reversed(path))
            return None, None

    def E(self, n, env, lets, want_value=True):
        k = n.get("kind")
        if k in ("ParenExpr", "ConstantExpr"):
            if k == "ConstantExpr" and "value" in n:
                return "(%s)" % n["value"]
            return self.E(n["inner"][0], env, lets, want_value)
        if k == "IntegerLiteral":
            return "%s" % n["value"] if not str(n["value"]).startswith("-") else "(%s)" % n["value"]
        if k == "CharacterLiteral":
            return str(n["value"])
        if k == "CXXBoolLiteralExpr":
            return "1" if n.get("value") else "0"
        if k in ("ImplicitCastExpr", "CStyleCastExpr"):
            return self.cast(n, env, lets, want_value)
        if k == "DeclRefExpr":
            rk = n["referencedDecl"]["kind"]
            if rk == "EnumConstantDecl":
                nm = n["referencedDecl"]["name"]
                self.tr.enum_needed.add(nm)
                return lit(enum_value(nm))
            if rk in ("VarDecl", "ParmVarDecl"):
                return self.readvar(n, env)
            self.err(n, "reference to " + rk)
        if k == "UnaryOperator":
            return self.unary(n, env, lets, want_value)
        if k == "BinaryOperator":
            return self.binary(n, env, lets, want_value)
        if k == "CompoundAssignOperator":
            return self.compound(n, env, lets)
        if k == "ConditionalOperator":
            c = self.B(n["inner"][0], env, lets)
            l1, l2 = [], []
            a = self.E(n["inner"][1], env, l1)
            b = self.E(n["inner"][2], env, l2)
            if l1 or l2:
                self.err(n, "side effect under ?:")
            return "(if %s then %s else %s)" % (c, a, b)
        if k == "CallExpr":
            return self.call(n, env, lets, want_value)
        if k == "MemberExpr":
            return self.member(n, env, lets)
        if k == "UnaryExprOrTypeTraitExpr":
            self.err(n, "sizeof/alignof (use a constant)")
        if k == "StmtExpr":
            return self.stmtexpr_value(n, env, lets)
        if k == "ArraySubscriptExpr":
            return self.subscript(n, env, lets)
        self.err(n, "expression kind")

    def subscript(self, n, env, lets):
        base = skip_paren(n["inner"][0])
        tables = self.tr.cfg.get("tables", {})
        if base.get("kind") == "DeclRefExpr" and base["referencedDecl"].get("name") in tables:
            idx = self.E(n["inner"][1], env, lets)
            return "(%s %s)" % (tables[base["referencedDecl"]["name"]], idx)
        self.err(n, "array subscript")

    def stmtexpr_value(self, n, env, lets):
        # straight-line ({ decls; expr }) only
        cs = n["inner"][0]["inner"]
        for s in cs[:-1]:
            if s["kind"] == "DeclStmt":
                for d in s["inner"]:
                    if d["kind"] != "VarDecl":
                        continue
                    init = [c for c in d.get("inner", []) if "Attr" not in c["kind"]]
                    t = ctype(d["type"], self.tr)
                    self.vtypes[d["id"]] = t
                    self.names[d["id"]] = d["name"]
                    if init:
                        v = self.E(init[0], env, lets)
                        nm = self.fresh(d["name"])
                        lets.append((nm, v))
                        env.vars[d["id"]] = nm
                    else:
                        env.vars[d["id"]] = None
            elif s["kind"] in ("NullStmt",):
                pass
            else:
                self.E(s, env, lets, want_value=False)
        return self.E(cs[-1], env, lets)

    def member(self, n, env, lets):
        lv = self.lvalue_var(n)
        if lv and lv[0] == "field":
            f = self.structs[lv[1]].get(n["name"])
            cur = env.vars.get(lv[1])
            if isinstance(cur, tuple):
                f = cur[1].get(n["name"], f)
            if f is None:
                return "0"
            return f
        root, path = self.member_root(n)
        if root is not None and path and self.loop_only and root.get("kind") in ("VarDecl", "ParmVarDecl"):
            pname = self.names.get(root["id"], root.get("name"))
            return self.extra(("member", root["id"], path[-1]), "%s_%s" % (pname, path[-1]), "member", root=root["id"],
                              field=path[-1], rootname=pname, type=self.T(n))
        if root is None or root.get("kind") != "ParmVarDecl" or not path:
            # struct-typed local variable returned from a call
            if root is not None and isinstance(env.vars.get(root["id"]), tuple):
                fields = env.vars[root["id"]][1]
                if path and path[-1] in fields:
                    return fields[path[-1]]
            self.err(n, "member access not rooted at a parameter")
        pname = self.names.get(root["id"], root.get("name"))
        fld = path[-1]
        t = self.T(n)
        return self.extra(("member", root["id"], fld), "%s_%s" % (pname, fld), "member", root=root["id"], field=fld,
                          rootname=pname, type=t)

    def cast(self, n, env, lets, want_value=True):
        ck = n.get("castKind")
        src = n["inner"][0]
        if ck in ("LValueToRValue", "NoOp", "FunctionToPointerDecay", "BitCast", "ArrayToPointerDecay",
                  "BuiltinFnToFnPtr", "AtomicToNonAtomic", "NonAtomicToAtomic"):
            return self.E(src, env, lets, want_value)
        if ck == "ToVoid":
            self.E(src, env, lets, want_value=False)
            return "0"
        if ck == "NullToPointer":
            return "0"
        if ck in ("PointerToIntegral", "IntegralToPointer"):
            return self.E(src, env, lets)
        if ck in ("IntegralToBoolean", "PointerToBoolean"):
            return "(b2z %s)" % self.B(src, env, lets)
        if ck == "IntegralCast":
            ts, td = self.T(src), self.T(n)
            v = self.E(src, env, lets)
            if ts.kind != "int" or td.kind != "int":
                self.err(n, "cast between %s and %s" % (ts, td))
            if subrange(ts, td):
                return v
            return wrap(td, v)
        self.err(n, "cast kind %s" % ck)

    def unary(self, n, env, lets, want_value):
        op = n["opcode"]
        x = n["inner"][0]
        t = self.T(n)
        if op == "!":
            return "(b2z (negb %s))" % self.B(x, env, lets)
        if op == "~":
            return notop(t, self.E(x, env, lets))
        if op == "-":
            v = self.E(x, env, lets)
            c = cval(v)
            if c is not None:
                return lit(pywrap(t, -c))
            return wrap(t, "(- %s)" % v)
        if op == "+":
            return self.E(x, env, lets)
        if op in ("++", "--"):
            lv = self.lvalue_var(x)
            if lv is None:
                self.err(n, "++/-- target")
            old = self.E(x, env, lets)
            new = wrap(t, "(%s %s 1)" % (old, "+" if op == "++" else "-"))
            nm = self.assign(lv, new, env, lets, n)
            return old if n.get("isPostfix") else nm
        if op == "*":
            lv = self.lvalue_var(n)
            if lv and lv[0] == "var":
                v = env.vars.get(lv[1])
                if v is None:
                    self.err(n, "read of unset out-parameter")
                return v
            root, path = self.member_root(n)
            self.err(n, "pointer dereference")
        if op == "&":
            # &global_array[i]  ->  (addr_table i) for arrays declared in targets.json "addr_tables"
            m = skip_paren(x)
            if m.get("kind") == "ArraySubscriptExpr":
                base = skip_paren(m["inner"][0])
                at = self.tr.cfg.get("addr_tables", {})
                if base.get("kind") == "DeclRefExpr" and base["referencedDecl"].get("name") in at:
                    idx = self.E(m["inner"][1], env, lets)
                    return "(%s %s)" % (at[base["referencedDecl"]["name"]], idx)
            self.err(n, "address-of in value position")
        self.err(n, "unary " + op)

    def arith(self, op, t, a, b, node):
        ca, cb = cval(a), cval(b)
        if ca is not None and cb is not None:
            r = None
            if op == "+":
                r = ca + cb
            elif op == "-":
                r = ca - cb
            elif op == "*":
                r = ca * cb
            elif op == "&":
                r = ca & cb
            elif op == "|":
                r = ca | cb
            elif op == "^":
                r = ca ^ cb
            elif op == "<<" and 0 <= cb < 128:
                r = ca << cb
            elif op == ">>" and 0 <= cb < 128:
                r = ca >> cb
            elif op == "/" and cb != 0:
                r = abs(ca) // abs(cb) * (1 if (ca >= 0) == (cb >= 0) else -1)
            elif op == "%" and cb != 0:
                r = ca - cb * (abs(ca) // abs(cb) * (1 if (ca >= 0) == (cb >= 0) else -1))
            if r is not None:
                return lit(pywrap(t, r))
        if op in ("+", "-", "*"):
            return wrap(t, "(%s %s %s)" % (a, op, b))
        if op == "/":
            return "(Z.div %s %s)" % (a, b) if t.sign == "u" else wrap(t, "(Z.quot %s %s)" % (a, b))
        if op == "%":
            return "(Z.modulo %s %s)" % (a, b) if t.sign == "u" else "(Z.rem %s %s)" % (a, b)
        if op == "&":
            return "(Z.land %s %s)" % (a, b)
        if op == "|":
            return "(Z.lor %s %s)" % (a, b)
        if op == "^":
            return "(Z.lxor %s %s)" % (a, b)
        if op == "<<":
            return wrap(t, "(Z.shiftl %s %s)" % (a, b))
        if op == ">>":
            return "(Z.shiftr %s %s)" % (a, b)
        self.err(node, "binary " + op)

    def binary(self, n, env, lets, want_value):
        op = n["opcode"]
        a, b = n["inner"]
        if op == "=":
            lv = self.lvalue_var(a)
            if lv is None:
                self.err(n, "assignment to non-variable")
            if self.find_rmw(b) is not None:
                self.err(n, "assignment from rmw loop")
            v = self.E(b, env, lets)
            if lv[0] == "var" and self.vtypes.get(lv[1]) and self.vtypes[lv[1]].kind == "struct":
                self.err(n, "struct assignment")
            return self.assign(lv, v, env, lets, n)
        if op == ",":
            self.E(a, env, lets, want_value=False)
            return self.E(b, env, lets, want_value)
        if op in ("<", "<=", ">", ">=", "==", "!=", "&&", "||"):
            return "(b2z %s)" % self.B(n, env, lets)
        t = self.T(n)
        if t.kind == "ptr":
            self.err(n, "pointer arithmetic")
        x = self.E(a, env, lets)
        y = self.E(b, env, lets)
        return self.arith(op, t, x, y, n)

    def compound(self, n, env, lets):
        op = n["opcode"][:-1]
        a, b = n["inner"]
        lv = self.lvalue_var(a)
        if lv is None:
            self.err(n, "compound assignment to non-variable")
        tl = self.T(a)
        tc = ctype(n["computeResultType"], self.tr) if "computeResultType" in n else tl
        tcl = ctype(n["computeLHSType"], self.tr) if "computeLHSType" in n else tl
        x = self.E(a, env, lets)
        if not subrange(tl, tcl):
            x = wrap(tcl, x)
        y = self.E(b, env, lets)
        v = self.arith(op, tc, x, y, n)
        if not subrange(tc, tl):
            v = wrap(tl, v)
        return self.assign(lv, v, env, lets, n)

    def call(self, n, env, lets, want_value):
        name = callee_name(n)
        args = n["inner"][1:]
        if name is None:
            self.err(n, "indirect call")
        if name == "__builtin_expect":
            return self.E(args[0], env, lets)
        if name in ("__builtin_clz", "__builtin_clzl", "__builtin_clzll"):
            bits = {"__builtin_clz": 32}.get(name, 64)
            return "(clz %d %s)" % (bits, self.E(args[0], env, lets))
        if name in ("__builtin_ctz", "__builtin_ctzl", "__builtin_ctzll"):
            bits = {"__builtin_ctz": 32}.get(name, 64)
            return "(ctz %d %s)" % (bits, self.E(args[0], env, lets))
        if name in ("__builtin_ffs", "__builtin_ffsl", "__builtin_ffsll"):
            v = self.E(args[0], env, lets)
            return "(if Z.eqb %s 0 then 0 else 1 + ctz 64 %s)" % (v, v)
        if name in ("__builtin_add_overflow", "__builtin_sub_overflow", "__builtin_mul_overflow"):
            op = {"add": "+", "sub": "-", "mul": "*"}[name.split("_")[3]]
            x = self.E(args[0], env, lets)
            y = self.E(args[1], env, lets)
            r = skip_paren(args[2])
            if not (r.get("kind") == "UnaryOperator" and r.get("opcode") == "&"):
                self.err(n, "overflow builtin result pointer")
            lv = self.lvalue_var(r["inner"][0])
            tr_ = self.T(r["inner"][0])
            exact = self.fresh("exact")
            lets.append((exact, "(%s %s %s)" % (x, op, y)))
            nm = self.assign(lv, wrap(tr_, exact), env, lets, n)
            return "(b2z (negb (Z.eqb %s %s)))" % (nm, exact)
        if name in self.tr.oracles:
            o = self.tr.oracles[name]
            if isinstance(o, dict):
                # oracle keyed by the first argument's root parameter: "<root>_<suffix>"
                root = None
                if args:
                    r0 = skip_paren(args[0])
                    rd, _ = self.member_root(r0)
                    if rd is not None:
                        root = self.names.get(rd["id"], rd.get("name"))
                base = "%s_%s" % (root, o["suffix"]) if root else o["suffix"]
                return self.extra(("oracle", name, root), base, "oracle", cname=name, rootname=root)
            return self.extra(("oracle", name), o, "oracle", cname=name)
        if name in self.tr.ignore:
            return "0"
        # another translated function (auto-translated on demand)
        try:
            callee = self.tr.get(self.cfile, name)
        except Unsupported as e:
            self.err(n, "call to untranslatable %s (%s)" % (name, e))
        if callee.mode != "fn":
            self.err(n, "call to rmw-mode function")
        cargs = []
        outs_targets = []
        cps = [p for p in callee.params]
        ai = 0
        # map callee C params to args; out-params are `&x`
        cdecl_params = callee.cparams_all
        argmap = {}
        for p, a in zip(cdecl_params, args):
            argmap[p["id"]] = a
        for p in cdecl_params:
            a = argmap.get(p["id"])
            if p["id"] in callee.outs_ids:
                r = skip_paren(a)
                if not (r.get("kind") == "UnaryOperator" and r.get("opcode") == "&"):
                    # passing our own out-param pointer through
                    lv = self.lvalue_var({"kind": "UnaryOperator", "opcode": "*", "inner": [a]})
                    if lv is None:
                        self.err(n, "out-argument is not &var")
                    outs_targets.append(lv)
                else:
                    lv = self.lvalue_var(r["inner"][0])
                    if lv is None:
                        self.err(n, "out-argument is not &var")
                    outs_targets.append(lv)
        for p in callee.params:
            if p["kind"] == "c":
                a = argmap[p["id"]]
                ta = self.T(a)
                if ta.kind == "struct":
                    self.err(n, "struct argument")
                cargs.append(self.E(a, env, lets))
            elif p["kind"] == "member":
                a = argmap[p["root"]]
                rd, path = self.member_root(a)
                if rd is None or (rd.get("kind") != "ParmVarDecl" and not (self.loop_only and rd.get("kind") == "VarDecl")):
                    self.err(n, "argument for %s is not rooted at a parameter" % p["coq"])
                pname = self.names.get(rd["id"], rd.get("name"))
                cargs.append(self.extra(("member", rd["id"], p["field"]), "%s_%s" % (pname, p["field"]), "member",
                                        root=rd["id"], field=p["field"], rootname=pname, type=p.get("type")))
            elif p["kind"] == "oracle":
                if p.get("rootname"):
                    # root-keyed oracle: re-root at our argument
                    croot = [q for q in cdecl_params if q["cname"] == p["rootname"]]
                    rootname = p["rootname"]
                    if croot:
                        rd, _ = self.member_root(argmap[croot[0]["id"]])
                        if rd is not None:
                            rootname = self.names.get(rd["id"], rd.get("name"))
                    sfx = p["coq"][len(p["rootname"]) + 1:] if p["coq"].startswith(p["rootname"] + "_") else p["coq"]
                    cargs.append(self.extra(("oracle", p["cname"], rootname), "%s_%s" % (rootname, sfx), "oracle",
                                            cname=p["cname"], rootname=rootname))
                else:
                    cargs.append(self.extra(p["key"], p["coq"], "oracle", cname=p.get("cname")))
            elif p["kind"] == "havoc":
                cargs.append(self.extra(("havoc", callee.name, p["coq"]), p["coq"], "havoc"))
            else:
                self.err(n, "callee parameter kind " + p["kind"])
        if callee.name not in self.info.deps:
            self.info.deps.append(callee.name)
        app = "(%s %s)" % (callee.coqname, " ".join(cargs)) if cargs else callee.coqname
        nres = callee.nouts + (0 if callee.ret.kind == "void" else 1)
        if nres <= 1 and not outs_targets:
            return app
        names = []
        if callee.ret.kind != "void":
            rn = self.fresh("r")
            names.append(rn)
        tmp = []
        for lv in outs_targets:
            tn = self.fresh("o")
            names.append(tn)
            tmp.append((lv, tn))
        if len(names) == 1:
            lets.append((names[0], app))
        else:
            lets.append(("'(" + ", ".join(names) + ")", app))
        for lv, tn in tmp:
            self.assign(lv, tn, env, lets, n)
        return names[0] if callee.ret.kind != "void" else "0"


def n_is_assign(n):
    return n.get("kind") == "CompoundAssignOperator" or n.get("opcode") == "="


def const_value(n):
    n0 = n
    if n0.get("kind") == "ConstantExpr" and "value" in n0:
        return n0["value"]
    n0 = skip_paren(n0)
    if n0.get("kind") == "IntegerLiteral":
        return n0["value"]
    if n0.get("kind") in ("ImplicitCastExpr", "CStyleCastExpr"):
        return const_value(n0["inner"][0])
    if n0.get("kind") == "UnaryOperator" and n0.get("opcode") == "-":
        v = const_value(n0["inner"][0])
        return None if v is None else str(-int(v))
    return None


# patch: FnInfo needs cparams_all/outs_ids for callers
_orig_translate = FnTrans.translate


def _translate(self):
    info = _orig_translate(self)
    info.cparams_all = self.cparams
    info.outs_ids = list(self.outs)
    info.has_trap = self.has_trap
    return info


FnTrans.translate = _translate


# ----------------------------------------------------------------------------
# compiler queries

_enum_cache = {}


def enum_value(name):
    if name not in _enum_cache:
        p = os.path.join(astdump.CACHE, "enum-" + astdump.tree_hash() + ".json")
        if not _enum_cache and os.path.exists(p):
            with open(p) as fh:
                _enum_cache.update(json.load(fh))
        if name not in _enum_cache:
            _enum_cache[name] = query_consts([name])[name]
            os.makedirs(astdump.CACHE, exist_ok=True)
            with open(p + ".tmp%d" % os.getpid(), "w") as fh:
                json.dump(_enum_cache, fh)
            os.replace(p + ".tmp%d" % os.getpid(), p)
    return _enum_cache[name]


def query_consts(names, header_extra=""):
    """values of macros / enum constants as the compiler evaluates them (through LLVM IR globals)"""
    if not names:
        return {}
    src = '#include "internal.h"\n' + header_extra
    for i, nm in enumerate(names):
        src += "const unsigned long long verif_c_%d = (unsigned long long)(%s);\n" % (i, nm)
        src += "const int verif_s_%d = ((__typeof__(%s))-1 < 0) && ((%s) < 0);\n" % (i, nm, nm)
    return _run_ir(src, names)


def _cached_clang_ir(src):
    """clang -S -emit-llvm on a small probe source, cached by (tree hash, probe text)"""
    import hashlib
    key = hashlib.sha256((astdump.tree_hash() + src).encode()).hexdigest()[:24]
    cp = os.path.join(astdump.CACHE, "ir-" + key + ".ll")
    if os.path.exists(cp):
        with open(cp) as fh:
            return 0, fh.read(), ""
    if os.path.exists(cp + ".err"):
        with open(cp + ".err") as fh:
            return 1, "", fh.read()
    r = subprocess.run([astdump.CLANG] + astdump.cflags() + ["-O0", "-S", "-emit-llvm", "-x", "c", "-", "-o", "-"],
                       input=src, stdout=subprocess.PIPE, stderr=subprocess.PIPE, text=True)
    os.makedirs(astdump.CACHE, exist_ok=True)
    dst = cp if r.returncode == 0 else cp + ".err"
    with open(dst + ".tmp%d" % os.getpid(), "w") as fh:
        fh.write(r.stdout if r.returncode == 0 else (r.stderr or "error"))
    os.replace(dst + ".tmp%d" % os.getpid(), dst)
    return r.returncode, r.stdout, r.stderr


def _run_ir(src, names):
    rc, out, err = _cached_clang_ir(src)
    if rc != 0:
        raise RuntimeError("const query failed: " + err[-3000:])

    class R:
        pass
    r = R()
    r.returncode, r.stdout, r.stderr = rc, out, err
    return _parse_ir(r, names)


def _parse_ir(r, names):
    vals = {}
    cs = dict(re.findall(r"@verif_c_(\d+) = .*?constant i64 (-?\d+)", r.stdout))
    ss = dict(re.findall(r"@verif_s_(\d+) = .*?constant i32 (-?\d+)", r.stdout))
    for i, nm in enumerate(names):
        v = int(cs[str(i)])
        if v < 0:
            v += 1 << 64
        if int(ss.get(str(i), "0")):
            v -= 1 << 64
        vals[nm] = v
    return vals


def _run_ir_uncached(src, names):
    r = subprocess.run([astdump.CLANG] + astdump.cflags() + ["-O0", "-S", "-emit-llvm", "-x", "c", "-", "-o", "-"],
                       input=src, stdout=subprocess.PIPE, stderr=subprocess.PIPE, text=True)
    if r.returncode != 0:
        raise RuntimeError("const query failed: " + r.stderr[-3000:])
    vals = {}
    cs = dict(re.findall(r"@verif_c_(\d+) = .*?constant i64 (-?\d+)", r.stdout))
    ss = dict(re.findall(r"@verif_s_(\d+) = .*?constant i32 (-?\d+)", r.stdout))
    for i, nm in enumerate(names):
        v = int(cs[str(i)])
        if v < 0:
            v += 1 << 64
        if int(ss.get(str(i), "0")):
            v -= 1 << 64
        vals[nm] = v
    return vals


def query_arrays(cfile, names):
    """constant arrays of integers defined (possibly `static`) in one .c file, as the compiler lays them out:
    the translation unit is compiled to LLVM IR together with one signedness probe per array, and the initialiser
    of @name is read back (every element, including the terminating NUL of a string literal initialiser)."""
    if not names:
        return {}
    src = '#include "%s"\n' % os.path.join(astdump.REPO, cfile)
    for i, nm in enumerate(names):
        src += "const int verif_sg_%d = ((__typeof__(%s[0]))-1 < 0);\n" % (i, nm)
        src += "const unsigned long long verif_ew_%d = sizeof(%s[0]);\n" % (i, nm)
        src += "const unsigned long long verif_ne_%d = sizeof(%s) / sizeof(%s[0]);\n" % (i, nm, nm)
    rc, out, err = _cached_clang_ir(src)
    if rc != 0:
        raise Unsupported("array query failed for %s in %s: %s" % (names, cfile, err[-800:]))
    sg = dict(re.findall(r"@verif_sg_(\d+) = .*?constant i32 (-?\d+)", out))
    ew = dict(re.findall(r"@verif_ew_(\d+) = .*?constant i64 (-?\d+)", out))
    ne = dict(re.findall(r"@verif_ne_(\d+) = .*?constant i64 (-?\d+)", out))
    res = {}
    for i, nm in enumerate(names):
        m = re.search(r"^@%s = [^\n]*?constant \[(\d+) x i(\d+)\] (c\"((?:[^\"\\]|\\[0-9A-Fa-f]{2})*)\"|\[([^\]]*)\]|zeroinitializer)"
                      % re.escape(nm), out, flags=re.M)
        if not m:
            raise Unsupported("array %s of %s: no constant integer array initialiser in the IR" % (nm, cfile))
        n, bits = int(m.group(1)), int(m.group(2))
        if m.group(3).startswith('c"'):
            body = m.group(4)
            vals = []
            k = 0
            while k < len(body):
                if body[k] == "\\":
                    vals.append(int(body[k + 1:k + 3], 16))
                    k += 3
                else:
                    vals.append(ord(body[k]))
                    k += 1
        elif m.group(3) == "zeroinitializer":
            vals = [0] * n
        else:
            vals = [int(x) % (1 << bits) for x in re.findall(r"i\d+ (-?\d+)", m.group(5))]
        if len(vals) != n or n != int(ne[str(i)]) or bits != 8 * int(ew[str(i)]):
            raise Unsupported("array %s of %s: initialiser has %d elements of %d bits, sizeof says %s of %s bytes"
                              % (nm, cfile, len(vals), bits, ne.get(str(i)), ew.get(str(i))))
        if int(sg[str(i)]):
            vals = [v - (1 << bits) if v >= (1 << (bits - 1)) else v for v in vals]
        res[nm] = vals
    return res


def query_types(names):
    src = '#include "internal.h"\n'
    for i, nm in enumerate(names):
        src += "const unsigned long long verif_c_%d = sizeof(%s);\n" % (i, nm)
        src += "const int verif_s_%d = ((%s)-1 < 0);\n" % (i, nm)
    rc, out, err = _cached_clang_ir(src)

    class R:
        pass
    r = R()
    r.returncode, r.stdout, r.stderr = rc, out, err
    if r.returncode != 0:
        raise Unsupported("type query failed for %s: %s" % (names, r.stderr[-500:]))
    cs = dict(re.findall(r"@verif_c_(\d+) = .*?constant i64 (-?\d+)", r.stdout))
    ss = dict(re.findall(r"@verif_s_(\d+) = .*?constant i32 (-?\d+)", r.stdout))
    out = {}
    for i, nm in enumerate(names):
        out[nm] = ("s" if int(ss[str(i)]) else "u", int(cs[str(i)]) * 8)
    return out


# ----------------------------------------------------------------------------
# driver

def generate(cfgpath, outdir):
    with open(cfgpath) as fh:
        cfg = json.load(fh)
    os.makedirs(outdir, exist_ok=True)
    errors = []
    all_fields = {}
    results = {}
    # prefetch ASTs in parallel
    jobs = []
    for mod in cfg["modules"]:
        for t in mod["targets"]:
            jobs.append((t.get("file", mod.get("file")), t["name"]))
    jobs = list(dict.fromkeys(jobs))
    with ThreadPoolExecutor(max_workers=16) as ex:
        list(ex.map(lambda j: _safe_get(j), jobs))
    tr_all = []
    for mod in cfg["modules"]:
        mcfg = dict(cfg.get("common", {}))
        for k, v in mod.items():
            if k in ("oracles", "globals", "structs", "bitfields", "tables", "addr_tables") and k in mcfg:
                d = dict(mcfg[k])
                d.update(v)
                mcfg[k] = d
            elif k == "ignore_calls" and k in mcfg:
                mcfg[k] = list(mcfg[k]) + list(v)
            else:
                mcfg[k] = v
        tr = Translator(mcfg)
        tr.field_ids = all_fields
        for t in mod["targets"]:
            try:
                tr.get(t.get("file", mod.get("file")), t["name"], t.get("mode", "fn"), loop=t.get("loop", t.get("op", 0)),
                       alias=t.get("as"), field=t.get("field"))
            except Unsupported as e:
                errors.append("%s: %s" % (mod["name"], e))
        tr_all.append((mod, tr))
    # constants
    const_names = list(cfg.get("constants", []))
    enum_names = sorted(set().union(*[tr.enum_needed for _, tr in tr_all])) if tr_all else []
    vals = query_consts(const_names + enum_names, cfg.get("constants_header", ""))
    lines = ["(* generated by src2v from %s — do not edit *)" % astdump.REPO,
             "From Coq Require Import ZArith.", "Local Open Scope Z_scope.", "",
             "Definition trap_val : Z := -1180591620717411303424. (* -(2^70): outside every C integer type *)", ""]
    for nm in const_names:
        lines.append("Definition %s : Z := %d." % (sanitize(nm), vals[nm]))
    lines.append("")
    for nm in enum_names:
        lines.append("Definition c_%s : Z := %d." % (nm, vals[nm]))
    write_if_changed(os.path.join(outdir, "Gen_consts.v"), "\n".join(lines) + "\n")
    # modules
    for mod, tr in tr_all:
        out = ["(* generated by src2v from %s — do not edit *)" % astdump.REPO,
               "From Verif Require Import Word Gen_consts.", ]
        for imp in mod.get("imports", []):
            out.append("From Verif Require Import %s." % imp)
        out += ["Local Open Scope Z_scope.", "Local Open Scope bool_scope.", ""]
        # per-module constants (macros / enum constants evaluated by the compiler)
        mconsts = list(mod.get("constants", []))
        if mconsts:
            hdr = cfg.get("constants_header", "")
            if mod.get("constants_from_source"):
                # `static const` objects of the module's .c file: evaluate them inside that translation unit
                hdr += '#include "%s"\n' % os.path.join(astdump.REPO, mod["file"])
            mv = query_consts(mconsts, hdr)
            for nm in mconsts:
                out.append("Definition %s : Z := %d." % (sanitize(mod.get("const_rename", {}).get(nm, nm)), mv[nm]))
            out.append("")
        if mod.get("arrays"):
            try:
                av = query_arrays(mod["file"], list(mod["arrays"]))
                for nm in mod["arrays"]:
                    out.append("Definition %s : list Z :=\n  [%s]." % (sanitize(nm), "; ".join(
                        ("(%d)" % v if v < 0 else "%d" % v) for v in av[nm])))
                out.append("")
            except Unsupported as e:
                errors.append("%s: %s" % (mod["name"], e))
        for pre in mod.get("prelude", []):
            out.append(pre)
        for fname in tr.order:
            info = tr.fns[fname]
            if info.mode == "sites":
                ss = "; ".join("{| s_kind := %s; s_field := %d (* %s *); s_order := %s |}" %
                               (k, tr.field_id(f), f, o) for (_, k, f, o) in info.sites)
                out.append("Definition %s_sites : list site := [%s].\n" % (info.coqname, ss))
                continue
            else:
                out.append(info.text)
                if info.mode == "rmw":
                    out.append("Definition %s_order : morder := %s.\n" % (info.coqname, info.order))
            explicit = [t for t in mod["targets"] if t.get("as", t["name"]) == fname]
            if explicit and (explicit[0].get("sites") or info.mode in ("sites", "rmw")):
                ss = "; ".join("{| s_kind := %s; s_field := %d (* %s *); s_order := %s |}" %
                               (k, tr.field_id(f), f, o) for (_, k, f, o) in info.sites)
                out.append("Definition %s_sites : list site := [%s].\n" % (info.coqname, ss))
        if mod.get("site_table"):
            out += site_table(mod, tr, outdir, errors)
        write_if_changed(os.path.join(outdir, mod["name"] + ".v"), "\n".join(out) + "\n")
        results[mod["name"]] = {fn: [(p["coq"], p["kind"]) for p in tr.fns[fn].params] for fn in tr.order
                                if tr.fns[fn].mode != "sites" and not fn.startswith("sites:")}
    # field table
    fl = ["(* generated by src2v — do not edit *)", "From Coq Require Import List.", "Import ListNotations.", ""]
    for f, i in sorted(all_fields.items(), key=lambda x: x[1]):
        fl.append("Definition F_%s : nat := %d." % (sanitize(f).lstrip("f") if f.startswith("_") else sanitize(f), i))
    write_if_changed(os.path.join(outdir, "Gen_fields.v"), "\n".join(fl) + "\n")
    with open(os.path.join(outdir, "signatures.json"), "w") as fh:
        json.dump(results, fh, indent=1)
    return errors


def site_table(mod, tr, outdir, errors):
    """module option "site_table": "<prefix>" — for every rmw / rmwloop / atomicop function of the module, where its
    committing atomic statement is in the source as the DISPATCH_VERIF hook reports it (file, line range; __LINE__ is
    the last line), and a dispatcher from function ids to the generated functions. Emitted as Coq definitions
    (<prefix>_site_table, <prefix>_apply) and as <outdir>/<prefix>_sites.json (parameter names/kinds for the checker)."""
    prefix = mod["site_table"]
    files, rows, arms, js = [], [], [], []
    for fname in tr.order:
        info = tr.fns[fname]
        if info.mode != "rmw":
            continue
        pos = getattr(info, "rmw_pos", None)
        if getattr(info, "rmw_field", None) != mod.get("site_field", "dq_state"):
            errors.append("%s: %s operates on %s, not on %s: it cannot be in the site table" % (
                mod["name"], fname, getattr(info, "rmw_field", None), mod.get("site_field", "dq_state")))
            continue
        if pos is None:
            errors.append("%s: %s: no source position for its atomic statement" % (mod["name"], fname))
            continue
        if pos["file"] not in files:
            files.append(pos["file"])
        fid = len(js)
        kind = DV_KIND[info.rmw_kind]
        ps = [p for p in info.params if p["kind"] != "old"]
        rows.append("(%d, %d, %d, %d, %d) (* %s:%d-%d %s *)" % (files.index(pos["file"]), pos["lo"], pos["hi"], kind, fid,
                                                                pos["file"], pos["lo"], pos["hi"], info.coqname))
        pat = "[" + "; ".join(p["coq"] for p in ps) + "]"
        arms.append("  | %d, %s => Some (%s %s)" % (fid, pat, info.coqname, " ".join(
            "site_old" if p["kind"] == "old" else p["coq"] for p in info.params)))
        js.append({"fn_id": fid, "coq": info.coqname, "c_function": info.name, "file": pos["file"],
                   "file_id": files.index(pos["file"]), "line_lo": pos["lo"], "line_hi": pos["hi"], "kind": kind,
                   "order": info.order, "field": getattr(info, "rmw_field", None), "old": info.old_param,
                   "params": [{"name": p["coq"], "kind": p["kind"], "type": repr(p["type"]) if p.get("type") is not None else None,
                               "c": p.get("cname") or (("%s->%s" % (p.get("rootname"), p.get("field"))) if p["kind"] == "member" else p["coq"])}
                              for p in ps]})
    out = ["(* where each transition function's atomic statement is in the source, as the DISPATCH_VERIF hook reports it:",
           "   (file id, first line, last line = the hook's __LINE__, hook kind of the committing operation, function id);",
           "   file ids: %s *)" % ", ".join("%d = %s" % (i, f) for i, f in enumerate(files)),
           "Definition %s_site_table : list (Z * Z * Z * Z * Z) :=\n  [%s].\n" % (prefix, ";\n   ".join(rows)),
           "(* function id -> generated function applied to its parameters (all but the value read, in declaration order) *)",
           "Definition %s_apply (site_fn : Z) (site_ps : list Z) (site_old : Z) : option rmw_outcome :=\n  match site_fn, site_ps with\n%s\n  | _, _ => None\n  end.\n"
           % (prefix, "\n".join(arms))]
    text = json.dumps({"module": mod["name"], "files": files, "sites": js}, indent=1) + "\n"
    write_if_changed(os.path.join(outdir, "%s_sites.json" % prefix), text)
    return out


def _safe_get(j):
    try:
        astdump.get_function(j[0], j[1])
    except Exception:
        pass


def write_if_changed(path, text):
    if os.path.exists(path):
        with open(path) as fh:
            if fh.read() == text:
                return False
    with open(path, "w") as fh:
        fh.write(text)
    return True


if __name__ == "__main__":
    cfgp = sys.argv[1] if len(sys.argv) > 1 else os.path.join(os.path.dirname(__file__), "targets.json")
    outd = sys.argv[2] if len(sys.argv) > 2 else os.path.join(astdump.VERIF, "coq", "Gen")
    errs = generate(cfgp, outd)
    for e in errs:
        print("SRC2V-ERROR:", e)
    sys.exit(1 if errs else 0)
