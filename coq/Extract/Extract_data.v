(* Extraction of Model/Data.v for the C13 correspondence (ExtrOcamlBasic only; Z, positive, nat stay inductive). *)
From Coq Require Extraction.
From Coq Require Import ExtrOcamlBasic.
From Verif Require Import Word Data.
Extraction "Extract/data_model.ml"
  step get st0 heap dlog flog size obj_id records_of denote regions apply stop_at map_bytes copy_region
  flatten_priv empty.
