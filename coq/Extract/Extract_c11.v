(* Extraction of Model/Heap.v and Model/TimerRun.v for the C11 correspondence (ExtrOcamlBasic only; Z stays inductive).
   The source side (invoke_step, wake_needed, xstep) is extracted too: the trace replay evaluates it at every recorded
   source-side call of the library. *)
From Coq Require Extraction.
From Coq Require Import ExtrOcamlBasic.
From Verif Require Import Word Heap TimerRun.
Extraction "Extract/c11_model.ml"
  timeout_program loop_timer_arm loop_timer_delete merge_timer_k ktimer0 kernel_expired set_heap set_np set_dirty interval_config_create config_create dispatch_after_model after_obs hstep dump compact compact_keys empty_heap compute_missed tstep init_state slot_addr capacity
  invoke_step wake_needed x_wakeup xstep obs_state.
