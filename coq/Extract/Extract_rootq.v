(* Extraction of Model/RootQ.v for the C01 (root queue) trace conformance at volume (ExtrOcamlBasic only; Z, positive stay
   inductive). *)
From Coq Require Extraction.
From Coq Require Import ExtrOcamlBasic.
From Verif Require Import Word Conc RootQ.
Extraction "Extract/rootq_model.ml" conform.
