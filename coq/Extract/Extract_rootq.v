(* Extraction of Model/RootQ.v and Model/RootQR.v for the C01 (root queue) trace conformance and whole-run replay at volume
   (ExtrOcamlBasic only; Z, positive stay inductive). *)
From Coq Require Extraction.
From Coq Require Import ExtrOcamlBasic.
From Verif Require Import Word Conc Replay RootQ RootQR.
Extraction "Extract/rootq_model.ml" conform abstract start_pc replay rq_try init_state.
