(* CLane_order.v — second invariant of the concurrent-lane model: the history of items.  Items taken off the list in
   FIFO order; a barrier is taken off (or acquired on the fast path) only when every earlier item has finished, and
   nothing is taken off while an acquired barrier is unfinished. *)
From Coq Require Import ZArith Bool List Lia Sorted.
From Verif Require Import Word Bits Fields DqFields Conc Gen_consts Gen_dqstate Lane_fields CLane_fields CLane CLane_inv CLane_proofs
  CLane_steps1 CLane_main.
Import ListNotations.
Local Open Scope Z_scope.

(* the item a thread is about to run or is running in a callout *)
Definition runs (p : pc) : option Z :=
  match p with
  | R_call i | R_incall i | B_call i | B_incall i | W_call _ i | W_incall _ i => Some i
  | _ => None
  end.
Definition runs_barrier (p : pc) : bool :=
  match p with B_call _ | B_incall _ | W_call _ _ | W_incall _ _ => true | _ => false end.
Definition in_call (p : pc) : bool := match p with R_incall _ | B_incall _ | W_incall _ _ => true | _ => false end.
(* the waiter item a thread in the slow path of a sync call has pushed *)
Definition ret_item (k : ret) : option (Z * bool) := match k with RIdle => None | RWait i b => Some (i, b) end.
Definition wait_item (p : pc) : option (Z * bool) :=
  match p with
  | SW_rmw i b | SW_wait i b => Some (i, b)
  | X_rootpush k | BC_tail k | BC_class k _ | BC_xor k | DBW_pop k _ | DBW_xfer k _ _ _ | DBW_wake k _
  | DN_and k | DN_loop k _ | DN_add k | DN_acq k | DN_pop k _ | DN_wake k _ _ _ | DN_fin k _ _ | DN_xor k _ => ret_item k
  | _ => None
  end.
(* the barrier waiter item a lock owner has taken off the list and not yet handed the lock to *)
Definition hand (p : pc) : option Z := match p with DBW_xfer _ _ _ i => Some i | _ => None end.

Definition acquired (s : gst) (i : Z) : Prop := 0 <= i < nextid s /\ (In i (popped s) \/ ~ In i (pushed s)).

Definition inflight_reader (s : gst) (j : Z) : Prop :=
  In j (rq s) \/ exists t, runs (pcs s t) = Some j \/ (wait_item (pcs s t) = Some (j, false) /\ grant s t = GReader).

Definition holds_barrier (s : gst) (t b : Z) : Prop :=
  runs (pcs s t) = Some b \/ hand (pcs s t) = Some b \/ (wait_item (pcs s t) = Some (b, true) /\ grant s t = GOwner).

Record oinv (s : gst) : Prop := {
  q_ids : 0 <= nextid s /\ (forall i, In i (pushed s) -> 0 <= i < nextid s) /\
          (forall i, In i (popped s) -> In i (pushed s));
  q_rq : forall i, In i (rq s) -> acquired s i /\ kinds s i = false;
  q_seq : rev (pushed s) = rev (popped s) ++ map i_id (lst s);
  q_sorted : StronglySorted Z.lt (rev (pushed s));
  q_kind : forall x, In x (lst s) -> kinds s (i_id x) = i_bar x /\
                                    (i_wt x <> 0 -> wait_item (pcs s (i_wt x)) = Some (i_id x, i_bar x));
  q_hist : forall i, In i (started s) -> acquired s i;
  q_fin : forall i, In i (finished s) -> In i (started s);
  q_readers : forall j, acquired s j -> kinds s j = false -> In j (finished s) \/ inflight_reader s j;
  q_barriers : forall b, acquired s b -> kinds s b = true -> In b (finished s) \/ exists t, lockh s = Some t /\ holds_barrier s t b;
  q_order : forall i j, In i (pushed s) -> In j (popped s) -> i < j -> kinds s i = true \/ kinds s j = true -> In i (finished s)
}.

Record othread (s : gst) (t : Z) : Prop := {
  r_runs : forall i, runs (pcs s t) = Some i -> acquired s i /\ kinds s i = runs_barrier (pcs s t) /\
                                                 (in_call (pcs s t) = true -> In i (started s));
  r_wait : forall i b, wait_item (pcs s t) = Some (i, b) ->
             In i (pushed s) /\ kinds s i = b /\
             (grant s t = GReader -> b = false /\ In i (popped s)) /\ (grant s t = GOwner -> b = true /\ In i (popped s));
  r_hand : forall k e u i, pcs s t = DBW_xfer k e u i -> wait_item (pcs s u) = Some (i, true) /\ In i (popped s) /\ kinds s i = true
}.

Definition Inv2 (s : gst) : Prop := oinv s /\ forall t, othread s t.

(* ---- frame ---- *)
Definition same2 (s s' : gst) : Prop :=
  lst s' = lst s /\ rq s' = rq s /\ grant s' = grant s /\ nextid s' = nextid s /\ kinds s' = kinds s /\
  pushed s' = pushed s /\ popped s' = popped s /\ started s' = started s /\ finished s' = finished s.

Lemma barriers_done s t : oinv s ->
  (lockh s = None \/ (lockh s = Some t /\ runs (pcs s t) = None /\ hand (pcs s t) = None /\ grant s t <> GOwner)) ->
  forall b, acquired s b -> kinds s b = true -> In b (finished s).
Proof.
  intros O H b Ab Kb. destruct (q_barriers s O b Ab Kb) as [F|(u & Lu & Hb)]; [exact F|]. exfalso.
  destruct H as [LN|(Lt & R & Hd & G)]; [congruence|].
  assert (u = t) by congruence. subst u. destruct Hb as [X|[X|[_ X]]]; congruence.
Qed.

Lemma frame2 s s' t p' :
  Inv2 s -> same2 s s' -> pcs s' = upd (pcs s) t p' ->
  runs p' = runs (pcs s t) -> runs_barrier p' = runs_barrier (pcs s t) -> in_call p' = in_call (pcs s t) ->
  wait_item p' = wait_item (pcs s t) -> hand p' = None -> hand (pcs s t) = None ->
  (lockh s' = lockh s \/ (forall b, acquired s b -> kinds s b = true -> In b (finished s))) ->
  Inv2 s'.
Proof.
  intros [O T] (E1 & E2 & E3 & E4 & E5 & E6 & E7 & E8 & E9) Ep Er Eb Ec Ew Eh Eh0 Hl.
  assert (Pw : forall u, wait_item (pcs s' u) = wait_item (pcs s u)).
  { intros u. rewrite Ep. unfold upd. destruct (Z.eqb_spec u t) as [->|]; auto. }
  assert (Pr : forall u, runs (pcs s' u) = runs (pcs s u)).
  { intros u. rewrite Ep. unfold upd. destruct (Z.eqb_spec u t) as [->|]; auto. }
  assert (Ph : forall u, hand (pcs s' u) = hand (pcs s u)).
  { intros u. rewrite Ep. unfold upd. destruct (Z.eqb_spec u t) as [->|]; congruence. }
  assert (Ac : forall i, acquired s' i <-> acquired s i) by (intros i; unfold acquired; rewrite E4, E6, E7; tauto).
  split.
  - destruct O. constructor; unfold inflight_reader in *; rewrite ?E1, ?E2, ?E4, ?E5, ?E6, ?E7, ?E8, ?E9; try assumption.
    + intros i Hi. rewrite Ac. auto.
    + intros x Hx. destruct (q_kind0 x Hx) as [K1 K2]. split; [exact K1|]. intros N. rewrite Pw. auto.
    + intros i Hi. rewrite Ac. auto.
    + intros j Aj Kj. rewrite Ac in Aj. destruct (q_readers0 j Aj Kj) as [F|[R|(u & R)]]; [left; exact F|right; left; exact R|].
      right. right. exists u. rewrite Pr, Pw, E3. exact R.
    + intros b Ab Kb. rewrite Ac in Ab. destruct Hl as [Hl|Hl]; [|left; auto].
      destruct (q_barriers0 b Ab Kb) as [F|(u & Lu & Hb)]; [left; exact F|]. right. exists u. rewrite Hl. split; [exact Lu|].
      unfold holds_barrier in *. rewrite Pr, Ph, Pw, E3. exact Hb.
  - intros u. destruct (T u) as [R1 R2 R3]. constructor.
    + intros i Hi. rewrite Pr in Hi. destruct (R1 i Hi) as (A & K & S). rewrite Ac, E5, E8. split; [exact A|].
      rewrite Ep. unfold upd. destruct (Z.eqb_spec u t) as [->|]; [rewrite Eb, Ec; auto | auto].
    + intros i b Hi. rewrite Pw in Hi. rewrite E3, E5, E6, E7. exact (R2 i b Hi).
    + intros k e v i Hp. rewrite Ep in Hp. unfold upd in Hp. destruct (Z.eqb_spec u t) as [->|].
      * rewrite Hp in Eh. discriminate.
      * rewrite Pw, E5, E7. exact (R3 k e v i Hp).
Qed.

Lemma runs_none_flags p : runs p = None -> runs_barrier p = false /\ in_call p = false.
Proof. destruct p; cbn; intros; try discriminate; auto. Qed.

Lemma lock_frame W s s' t : Inv W s -> Inv W s' ->
  (forall u, u <> t -> pcs s' u = pcs s u) -> grant s' = grant s ->
  lockh s' = lockh s \/ lockh s = None \/ (lockh s = Some t /\ owns (pcs s t) = true /\ grant s t <> GOwner).
Proof.
  intros (_ & _ & T) (_ & _ & T') Hp Hg. destruct (lockh s) as [v|] eqn:E; [|auto].
  destruct (Z.eq_dec v t) as [->|Ne].
  - destruct (T t) as [_ T2 _ _ T5 _]. assert (X : owns (pcs s t) = true \/ grant s t = GOwner) by (apply T2; exact E).
    destruct X as [X|X].
    + right. right. split; [reflexivity|]. split; [exact X|]. intros Y. destruct (T5 Y). congruence.
    + left. destruct (T' t) as [_ T2' _ _ _ _]. apply T2'. right. rewrite Hg. exact X.
  - left. destruct (T v) as [_ T2 _ _ _ _]. destruct (T' v) as [_ T2' _ _ _ _]. apply T2'. rewrite (Hp v Ne), Hg. apply T2. exact E.
Qed.

Lemma frame_step W s s' t p' : Inv W s -> Inv W s' -> Inv2 s -> same2 s s' -> pcs s' = upd (pcs s) t p' ->
  runs (pcs s t) = None -> runs p' = None -> wait_item p' = wait_item (pcs s t) -> hand p' = None -> hand (pcs s t) = None ->
  Inv2 s'.
Proof.
  intros HI HI' H2 S Ep R0 R1 Ew Eh Eh0. pose proof S as (E1 & E2 & E3 & _).
  destruct (runs_none_flags _ R0) as [B0 C0]. destruct (runs_none_flags _ R1) as [B1 C1].
  apply (frame2 s s' t p' H2 S Ep); try congruence.
  destruct (lock_frame W s s' t HI HI') as [L|[L|(L & Ow & G)]]; auto.
  - intros u Ne. rewrite Ep. apply upd_other. exact Ne.
  - right. apply (barriers_done s t (proj1 H2)). auto.
  - right. apply (barriers_done s t (proj1 H2)). right. auto.
Qed.

(* the outcome of a step, whatever the generated bodies return *)
Ltac gstep_cases Hs :=
  cbv zeta in Hs;
  repeat (match type of Hs with
          | (if ?c then _ else _) = Some _ => destruct c
          | (match ?x with _ => _ end) = Some _ => destruct x; try discriminate Hs
          end; cbv zeta in Hs);
  apply Some_inj in Hs.

Ltac frame_tac HI HI' H2 :=
  eapply (frame_step _ _ _ _ _ HI HI' H2);
  [ unfold same2; gcbn; repeat split; reflexivity
  | gcbn; reflexivity
  | try reflexivity | try reflexivity | try reflexivity | try reflexivity | try reflexivity ].

(* ---- small facts ---- *)
Lemma acquired_lt s i : acquired s i -> 0 <= i < nextid s.
Proof. intros [H _]. exact H. Qed.

Lemma pushed_lt s i : oinv s -> In i (pushed s) -> 0 <= i < nextid s.
Proof. intros O H. exact (proj1 (proj2 (q_ids s O)) i H). Qed.

Lemma popped_acquired s i : oinv s -> In i (popped s) -> acquired s i.
Proof. intros O H. split; [|left; exact H]. apply (pushed_lt s i O). exact (proj2 (proj2 (q_ids s O)) i H). Qed.

Lemma sorted_mid l1 : forall a l2, StronglySorted Z.lt (l1 ++ a :: l2) -> forall y, In y l2 -> a < y.
Proof.
  induction l1 as [|z l1 IH]; cbn; intros a l2 S y Hy.
  - inversion S as [|? ? _ F]; subst. rewrite Forall_forall in F. auto.
  - inversion S; subst. eauto.
Qed.

Lemma sorted_snoc l : forall n, StronglySorted Z.lt l -> (forall y, In y l -> y < n) -> StronglySorted Z.lt (l ++ [n]).
Proof.
  induction l as [|z l IH]; cbn; intros n S H.
  - constructor; constructor.
  - inversion S as [|? ? S' F]; subst. constructor.
    + apply IH; auto.
    + rewrite Forall_forall in *. intros y Hy. apply in_app_or in Hy. destruct Hy as [Hy|[<-|[]]]; auto.
Qed.

(* FIFO: everything pushed before the head of the list has been taken off *)
Lemma pop_prefix s x l' i : oinv s -> lst s = x :: l' -> In i (pushed s) -> i < i_id x -> In i (popped s).
Proof.
  intros O El Hi Lt. pose proof (q_seq s O) as Q. pose proof (q_sorted s O) as S. rewrite El in Q. cbn in Q.
  rewrite Q in S. rewrite in_rev, Q in Hi. apply in_app_or in Hi. destruct Hi as [Hi|[Hi|Hi]].
  - rewrite <- in_rev in Hi. exact Hi.
  - lia.
  - pose proof (sorted_mid _ _ _ S i Hi). lia.
Qed.

Lemma head_pushed s x l' : oinv s -> lst s = x :: l' -> In (i_id x) (pushed s) /\ ~ In (i_id x) (popped s).
Proof.
  intros O El. pose proof (q_seq s O) as Q. pose proof (q_sorted s O) as S. rewrite El in Q. cbn in Q. split.
  - rewrite in_rev, Q. apply in_or_app. right. left. reflexivity.
  - intros H. rewrite in_rev in H. rewrite Q in S. clear Q. revert S H. generalize (rev (popped s)). intros l.
    induction l as [|z l IH]; cbn; intros S H; [exact H|]. inversion S as [|? ? S' F]; subst. destruct H as [->|H]; auto.
    rewrite Forall_forall in F. assert (i_id x < i_id x) by (apply F; apply in_or_app; right; left; reflexivity). lia.
Qed.

Lemma in_remove_z i : forall l j, In j l -> j = i \/ In j (remove_z i l).
Proof.
  induction l as [|z l IH]; cbn; intros j H; [tauto|]. destruct (Z.eqb_spec z i) as [->|Ne].
  - destruct H; auto.
  - destruct H as [->|H]; [right; left; reflexivity|]. destruct (IH j H); auto. right. right. assumption.
Qed.
Lemma remove_z_in i : forall l j, In j (remove_z i l) -> In j l.
Proof.
  induction l as [|z l IH]; cbn; intros j H; [tauto|]. destruct (Z.eqb_spec z i) as [->|Ne]; [right; exact H|].
  destruct H as [->|H]; [left; reflexivity|right; auto].
Qed.
Lemma mem_z_in i : forall l, mem_z i l = true -> In i l.
Proof.
  induction l as [|z l IH]; cbn; intros H; [discriminate|]. destruct (Z.eqb_spec z i) as [->|Ne]; [left; reflexivity|right; auto].
Qed.

(* ---- what the first invariant says about the holder of a barrier ---- *)
Lemma holder_bmode W s t b : Inv W s -> Inv2 s -> lockh s = Some t -> holds_barrier s t b -> kinds s b = true -> bmode s = true.
Proof.
  intros (_ & _ & T) [O OT] L H K. destruct (T t) as [_ T2 _ T4 T5 T6]. destruct H as [H|[H|[_ H]]].
  - destruct (r_runs s t (OT t) b H) as (_ & Kb & _). rewrite K in Kb.
    destruct (pcs s t) eqn:E; cbn in H, Kb; try discriminate; pose proof (T6 eq_refl) as P; cbn in P; tauto.
  - destruct (pcs s t) eqn:E; cbn in H; try discriminate. pose proof (T6 eq_refl) as P. cbn in P; tauto.
  - exact (proj2 (T5 H)).
Qed.

Lemma bmode_no_readers W s : Inv W s -> Inv2 s -> bmode s = true ->
  forall j, acquired s j -> kinds s j = false -> In j (finished s).
Proof.
  intros (_ & (r & G) & T) [O OT] B j A K. destruct (g_bm W s r G B) as (_ & _ & HU & _). unfold U in HU.
  assert (Hh : holders s = []) by (destruct (holders s); [reflexivity|cbn [length] in HU; lia]).
  assert (Hr : rq s = []) by (destruct (rq s); [reflexivity|cbn [length] in HU; lia]).
  destruct (q_readers s O j A K) as [F|[R|(u & [R|[R Gr]])]]; [exact F| | |]; exfalso.
  - rewrite Hr in R. exact R.
  - destruct (r_runs s u (OT u) j R) as (_ & Kb & _). rewrite K in Kb. destruct (T u) as [T1 _ _ _ _ _].
    assert (In u (holders s)) by (apply T1; left; destruct (pcs s u); cbn in R, Kb; try discriminate; reflexivity).
    rewrite Hh in H. exact H.
  - destruct (T u) as [T1 _ _ _ _ _]. assert (In u (holders s)) by (apply T1; right; exact Gr). rewrite Hh in H. exact H.
Qed.

Lemma holds_unique W s t b b' : Inv W s -> Inv2 s -> holds_barrier s t b -> holds_barrier s t b' -> b = b'.
Proof.
  intros (_ & _ & T) [O OT] H H'. destruct (T t) as [_ _ _ T4 T5 _].
  destruct H as [H|[H|[H G]]], H' as [H'|[H'|[H' G']]]; try congruence;
    try (destruct (pcs s t); cbn in H, H'; congruence);
    try (destruct (T5 G) as [X _]); try (destruct (T5 G') as [X _]);
    destruct (pcs s t); cbn in H, H', X; try discriminate; try congruence.
Qed.

(* an acquired, unfinished barrier excludes every other acquired, unfinished item *)
Lemma acquired_exclusion W s b j : Inv W s -> Inv2 s ->
  acquired s b -> kinds s b = true -> ~ In b (finished s) -> acquired s j -> j <> b -> In j (finished s).
Proof.
  intros HI H2 Ab Kb Nb Aj Ne. pose proof H2 as [O OT].
  destruct (q_barriers s O b Ab Kb) as [F|(t & L & Hb)]; [contradiction|].
  pose proof (holder_bmode W s t b HI H2 L Hb Kb) as B.
  destruct (kinds s j) eqn:Kj.
  - destruct (q_barriers s O j Aj Kj) as [F|(t' & L' & Hj)]; [exact F|]. exfalso. assert (t' = t) by congruence. subst t'.
    apply Ne. exact (holds_unique W s t j b HI H2 Hj Hb).
  - exact (bmode_no_readers W s HI H2 B j Aj Kj).
Qed.

Definition same_lists (s s' : gst) : Prop :=
  lst s' = lst s /\ nextid s' = nextid s /\ kinds s' = kinds s /\ pushed s' = pushed s /\ popped s' = popped s.

Lemma same_lists_acq s s' : same_lists s s' -> forall i, acquired s' i <-> acquired s i.
Proof. intros (E1 & E2 & E3 & E4 & E5) i. unfold acquired. rewrite E2, E4, E5. tauto. Qed.

Ltac upd_facts Ep t :=
  match type of Ep with pcs ?s' = upd (pcs ?s) _ ?p' =>
    assert (Po : forall u, u <> t -> pcs s' u = pcs s u) by (let x := fresh "x" in let Hne := fresh "Hne" in intros x Hne; rewrite Ep; apply upd_other; exact Hne);
    assert (Pt : pcs s' t = p') by (rewrite Ep; apply upd_same)
  end.

(* ---- a callout begins ---- *)
Lemma callout_begin s s' t p' i : Inv2 s -> same_lists s s' -> rq s' = rq s -> grant s' = grant s -> lockh s' = lockh s ->
  finished s' = finished s -> started s' = i :: started s -> pcs s' = upd (pcs s) t p' ->
  runs (pcs s t) = Some i -> runs p' = Some i -> runs_barrier p' = runs_barrier (pcs s t) ->
  wait_item p' = wait_item (pcs s t) -> hand p' = None -> hand (pcs s t) = None -> Inv2 s'.
Proof.
  intros [O OT] SL Er Eg El Ef Es Ep R0 R1 Rb Ew Eh Eh0. pose proof (same_lists_acq s s' SL) as Ac.
  destruct SL as (E1 & E2 & E3 & E4 & E5).
  assert (Pw : forall u, wait_item (pcs s' u) = wait_item (pcs s u)).
  { intros u. rewrite Ep. unfold upd. destruct (Z.eqb_spec u t) as [->|]; auto. }
  assert (Pr : forall u, runs (pcs s' u) = runs (pcs s u)).
  { intros u. rewrite Ep. unfold upd. destruct (Z.eqb_spec u t) as [->|]; congruence. }
  assert (Ph : forall u, hand (pcs s' u) = hand (pcs s u)).
  { intros u. rewrite Ep. unfold upd. destruct (Z.eqb_spec u t) as [->|]; congruence. }
  split.
  - destruct O. constructor; unfold inflight_reader in *; rewrite ?E1, ?Er, ?E2, ?E3, ?E4, ?E5, ?Ef, ?Es; try assumption.
    + intros j Hj. rewrite Ac. auto.
    + intros x Hx. destruct (q_kind0 x Hx) as [K1 K2]. split; [exact K1|]. intros N. rewrite Pw. auto.
    + intros j [<-|Hj]; rewrite Ac; [exact (proj1 (r_runs s t (OT t) i R0))|auto].
    + intros j Hj. right. auto.
    + intros j Aj Kj. rewrite Ac in Aj. destruct (q_readers0 j Aj Kj) as [F|[R|(u & R)]]; [left; exact F|right; left; exact R|].
      right. right. exists u. rewrite Pr, Pw, Eg. exact R.
    + intros b Ab Kb. rewrite Ac in Ab. destruct (q_barriers0 b Ab Kb) as [F|(u & Lu & Hb)]; [left; exact F|]. right. exists u.
      rewrite El. split; [exact Lu|]. unfold holds_barrier in *. rewrite Pr, Ph, Pw, Eg. exact Hb.
  - intros u. destruct (OT u) as [R1' R2 R3]. constructor.
    + intros j Hj. rewrite Pr in Hj. destruct (R1' j Hj) as (A & K & S). rewrite Ac, E3, Es. split; [exact A|].
      rewrite Ep. unfold upd. destruct (Z.eqb_spec u t) as [->|].
      * rewrite Rb. split; [exact K|]. intros _. left. congruence.
      * split; [exact K|]. intros X. right. auto.
    + intros j b Hj. rewrite Pw in Hj. rewrite Eg, E3, E4, E5. exact (R2 j b Hj).
    + intros k e v j Hp. rewrite Ep in Hp. unfold upd in Hp. destruct (Z.eqb_spec u t) as [->|].
      * rewrite Hp in Eh. discriminate.
      * rewrite Pw, E3, E5. exact (R3 k e v j Hp).
Qed.

(* ---- a callout ends ---- *)
Lemma callout_end s s' t p' i : Inv2 s -> same_lists s s' -> rq s' = rq s -> grant s' = grant s -> lockh s' = lockh s ->
  started s' = started s -> finished s' = i :: finished s -> pcs s' = upd (pcs s) t p' ->
  runs (pcs s t) = Some i -> in_call (pcs s t) = true -> wait_item (pcs s t) = None -> hand (pcs s t) = None ->
  runs p' = None -> wait_item p' = None -> hand p' = None -> Inv2 s'.
Proof.
  intros [O OT] SL Er Eg El Es Ef Ep R0 C0 W0 H0 R1 W1 H1. pose proof (same_lists_acq s s' SL) as Ac.
  destruct SL as (E1 & E2 & E3 & E4 & E5).
  assert (Pw : forall u, wait_item (pcs s' u) = wait_item (pcs s u)).
  { intros u. rewrite Ep. unfold upd. destruct (Z.eqb_spec u t) as [->|]; congruence. }
  assert (Pr : forall u, u <> t -> runs (pcs s' u) = runs (pcs s u)).
  { intros u Ne. rewrite Ep. rewrite upd_other; auto. }
  assert (Ph : forall u, hand (pcs s' u) = hand (pcs s u)).
  { intros u. rewrite Ep. unfold upd. destruct (Z.eqb_spec u t) as [->|]; congruence. }
  assert (Pt : pcs s' t = p') by (rewrite Ep; apply upd_same).
  split.
  - destruct O. constructor; unfold inflight_reader in *; rewrite ?E1, ?Er, ?E2, ?E3, ?E4, ?E5, ?Ef, ?Es; try assumption.
    + intros j Hj. rewrite Ac. auto.
    + intros x Hx. destruct (q_kind0 x Hx) as [K1 K2]. split; [exact K1|]. intros N. rewrite Pw. auto.
    + intros j Hj. rewrite Ac. auto.
    + intros j [<-|Hj]; [|auto]. exact (proj2 (proj2 (r_runs s t (OT t) i R0)) C0).
    + intros j Aj Kj. rewrite Ac in Aj. destruct (q_readers0 j Aj Kj) as [F|[R|(u & R)]];
        [left; right; exact F|right; left; exact R|].
      destruct (Z.eq_dec u t) as [->|Ne].
      * left. left. destruct R as [R|[R _]]; congruence.
      * right. right. exists u. rewrite Pr, Pw, Eg; auto.
    + intros b Ab Kb. rewrite Ac in Ab. destruct (q_barriers0 b Ab Kb) as [F|(u & Lu & Hb)]; [left; right; exact F|].
      destruct (Z.eq_dec u t) as [->|Ne].
      * left. left. destruct Hb as [R|[R|[R _]]]; congruence.
      * right. exists u. rewrite El. split; [exact Lu|]. unfold holds_barrier in *. rewrite Pr, Ph, Pw, Eg; auto.
    + intros a b Ha Hb Lt K. right. eauto.
  - intros u. destruct (OT u) as [R1' R2 R3]. constructor.
    + intros j Hj. destruct (Z.eq_dec u t) as [->|Ne]; [rewrite Pt in Hj; congruence|]. rewrite Pr in Hj by exact Ne.
      destruct (R1' j Hj) as (A & K & S). rewrite Ac, E3, Es. rewrite Ep, upd_other by exact Ne. auto.
    + intros j b Hj. rewrite Pw in Hj. rewrite Eg, E3, E4, E5. exact (R2 j b Hj).
    + intros k e v j Hp. rewrite Ep in Hp. unfold upd in Hp. destruct (Z.eqb_spec u t) as [->|].
      * rewrite Hp in H1. discriminate.
      * rewrite Pw, E3, E5. exact (R3 k e v j Hp).
Qed.

(* ---- a woken waiter consumes its grant ---- *)
Lemma grant_consume W s s' t p' i b : Inv W s -> Inv2 s -> same_lists s s' -> rq s' = rq s -> lockh s' = lockh s ->
  started s' = started s -> finished s' = finished s -> pcs s t = SW_wait i b ->
  grant s' = upd (grant s) t GNone -> pcs s' = upd (pcs s) t p' ->
  ((grant s t = GReader /\ p' = R_call i) \/ (grant s t = GOwner /\ p' = B_call i)) -> Inv2 s'.
Proof.
  intros (_ & (r & G) & T) [O OT] SL Er El Es Ef E0 Eg Ep Hc. pose proof (same_lists_acq s s' SL) as Ac.
  destruct SL as (E1 & E2 & E3 & E4 & E5). upd_facts Ep t.
  assert (Go : forall u, u <> t -> grant s' u = grant s u) by (intros u Hne; rewrite Eg; apply upd_other; exact Hne).
  assert (Wi : wait_item (pcs s t) = Some (i, b)) by (rewrite E0; reflexivity).
  destruct (r_wait s t (OT t) i b Wi) as (Ip & Ki & GR & GO).
  assert (Gn : grant s t <> GNone) by (destruct Hc as [[X _]|[X _]]; congruence).
  assert (Ai : acquired s i /\ kinds s i = runs_barrier p').
  { destruct Hc as [[X ->]|[X ->]]; [destruct (GR X) as [-> Y]|destruct (GO X) as [-> Y]]; split; auto using popped_acquired. }
  split.
  - destruct O. constructor; unfold inflight_reader in *; rewrite ?E1, ?Er, ?E2, ?E3, ?E4, ?E5, ?Ef, ?Es; try assumption.
    + intros j Hj. rewrite Ac. auto.
    + intros x Hx. destruct (q_kind0 x Hx) as [K1 K2]. split; [exact K1|]. intros N. rewrite Po; [auto|]. intros X.
      destruct (g_wt W s r G x Hx N) as (_ & Y & _). rewrite X in Y. contradiction.
    + intros j Hj. rewrite Ac. auto.
    + intros j Aj Kj. rewrite Ac in Aj. destruct (q_readers0 j Aj Kj) as [F|[R|(u & R)]]; [left; exact F|right; left; exact R|].
      right. right. destruct (Z.eq_dec u t) as [->|Ne].
      * exists t. left. rewrite Pt. rewrite E0 in R. cbn in R. destruct R as [R|[R GR']]; [discriminate|].
        destruct Hc as [[_ ->]|[X _]]; [|congruence]. cbn. congruence.
      * exists u. rewrite Po, Go by exact Ne. exact R.
    + intros b0 Ab Kb. rewrite Ac in Ab. destruct (q_barriers0 b0 Ab Kb) as [F|(u & Lu & Hb)]; [left; exact F|]. right. exists u.
      rewrite El. split; [exact Lu|]. unfold holds_barrier in *. destruct (Z.eq_dec u t) as [->|Ne].
      * left. rewrite Pt. rewrite E0 in Hb. cbn in Hb. destruct Hb as [R|[R|[R GO']]]; try discriminate.
        destruct Hc as [[X _]|[_ ->]]; [congruence|]. cbn. congruence.
      * rewrite Po, Go by exact Ne. exact Hb.
  - intros u. destruct (Z.eq_dec u t) as [->|Ne].
    + constructor; rewrite Pt.
      * intros j Hj. assert (j = i) by (destruct Hc as [[_ ->]|[_ ->]]; cbn in Hj; congruence). subst j.
        rewrite Ac, E3. destruct Ai as [A K]. split; [exact A|]. split; [exact K|].
        destruct Hc as [[_ ->]|[_ ->]]; cbn; discriminate.
      * intros j b0 Hj. destruct Hc as [[_ ->]|[_ ->]]; discriminate.
      * intros k e v j Hp. destruct Hc as [[_ ->]|[_ ->]]; discriminate.
    + destruct (OT u) as [R1 R2 R3]. constructor; rewrite Po by exact Ne.
      * intros j Hj. rewrite Ac, E3, Es. exact (R1 j Hj).
      * intros j b0 Hj. rewrite Go, E3, E4, E5 by exact Ne. exact (R2 j b0 Hj).
      * intros k e v j Hp. rewrite E3, E5. destruct (R3 k e v j Hp) as (X & Y). split; [|exact Y]. rewrite Po; [exact X|].
        intros ->. destruct (T u) as [_ _ _ _ _ T6]. rewrite Hp in T6. pose proof (T6 eq_refl) as P. cbn in P. tauto.
Qed.

(* ---- a worker takes a redirected item off the root queue ---- *)
Lemma worker_item s s' t i : Inv2 s -> same_lists s s' -> grant s' = grant s -> lockh s' = lockh s ->
  started s' = started s -> finished s' = finished s -> pcs s t = Idle -> In i (rq s) -> rq s' = remove_z i (rq s) ->
  pcs s' = upd (pcs s) t (R_call i) -> Inv2 s'.
Proof.
  intros [O OT] SL Eg El Es Ef E0 Hi Er Ep. pose proof (same_lists_acq s s' SL) as Ac.
  destruct SL as (E1 & E2 & E3 & E4 & E5). upd_facts Ep t.
  split.
  - destruct O. constructor; unfold inflight_reader in *; rewrite ?E1, ?Er, ?E2, ?E3, ?E4, ?E5, ?Ef, ?Es; try assumption.
    + intros j Hj. rewrite Ac. apply q_rq0. exact (remove_z_in i _ j Hj).
    + intros x Hx. destruct (q_kind0 x Hx) as [K1 K2]. split; [exact K1|]. intros N. rewrite Po; [auto|]. intros X.
      specialize (K2 N). rewrite X, E0 in K2. discriminate.
    + intros j Hj. rewrite Ac. auto.
    + intros j Aj Kj. rewrite Ac in Aj. destruct (q_readers0 j Aj Kj) as [F|[R|(u & R)]]; [left; exact F| |].
      * right. destruct (in_remove_z i _ j R) as [->|R']; [|left; exact R']. right. exists t. left. rewrite Pt. reflexivity.
      * right. right. exists u. destruct (Z.eq_dec u t) as [->|Ne]; [rewrite E0 in R; cbn in R; destruct R as [R|[R _]]; discriminate|].
        rewrite Po, Eg by exact Ne. exact R.
    + intros b0 Ab Kb. rewrite Ac in Ab. destruct (q_barriers0 b0 Ab Kb) as [F|(u & Lu & Hb)]; [left; exact F|]. right. exists u.
      rewrite El. split; [exact Lu|]. unfold holds_barrier in *.
      destruct (Z.eq_dec u t) as [->|Ne]; [rewrite E0 in Hb; cbn in Hb; destruct Hb as [R|[R|[R _]]]; discriminate|].
      rewrite Po, Eg by exact Ne. exact Hb.
  - intros u. destruct (Z.eq_dec u t) as [->|Ne].
    + constructor; rewrite Pt; cbn; try discriminate.
      intros j Hj. assert (j = i) by congruence. subst j. rewrite Ac, E3. destruct (q_rq s O i Hi) as [A K]. auto.
      split; [exact A|]. split; [exact K|discriminate].
    + destruct (OT u) as [R1 R2 R3]. constructor; rewrite Po by exact Ne.
      * intros j Hj. rewrite Ac, E3, Es. exact (R1 j Hj).
      * intros j b0 Hj. rewrite Eg, E3, E4, E5. exact (R2 j b0 Hj).
      * intros k e v j Hp. rewrite E3, E5. destruct (R3 k e v j Hp) as (X & Y). split; [|exact Y]. rewrite Po; [exact X|].
        intros ->. rewrite E0 in X. discriminate.
Qed.

(* ---- the lock is handed to the barrier waiter taken off the list ---- *)
Lemma lock_handoff W s s' t k e u i : Inv W s -> Inv2 s -> same_lists s s' -> rq s' = rq s ->
  started s' = started s -> finished s' = finished s -> pcs s t = DBW_xfer k e u i ->
  grant s' = upd (grant s) u GOwner -> lockh s' = Some u -> pcs s' = upd (pcs s) t (DBW_wake k u) -> Inv2 s'.
Proof.
  intros (_ & (r & G) & T) [O OT] SL Er Es Ef E0 Eg El Ep. pose proof (same_lists_acq s s' SL) as Ac.
  destruct SL as (E1 & E2 & E3 & E4 & E5). upd_facts Ep t.
  destruct (T t) as [_ T2 _ _ T5 T6]. rewrite E0 in T2, T5, T6. pose proof (T6 eq_refl) as P. cbn in P.
  destruct P as (_ & _ & _ & Gu & _). assert (Lt : lockh s = Some t) by (apply T2; left; reflexivity).
  assert (Gt : grant s t <> GOwner) by (intros X; destruct (T5 X); discriminate).
  destruct (r_hand s t (OT t) k e u i E0) as (Wu & Pi & Ki).
  assert (Pw : forall v, wait_item (pcs s' v) = wait_item (pcs s v)).
  { intros v. rewrite Ep. unfold upd. destruct (Z.eqb_spec v t) as [->|]; [rewrite E0; reflexivity|reflexivity]. }
  assert (Pr : forall v, runs (pcs s' v) = runs (pcs s v)).
  { intros v. rewrite Ep. unfold upd. destruct (Z.eqb_spec v t) as [->|]; [rewrite E0; reflexivity|reflexivity]. }
  assert (Gm : forall v, grant s v = GReader -> grant s' v = GReader).
  { intros v X. rewrite Eg. rewrite upd_other; [exact X|]. intros ->. congruence. }
  split.
  - destruct O. constructor; unfold inflight_reader in *; rewrite ?E1, ?Er, ?E2, ?E3, ?E4, ?E5, ?Ef, ?Es; try assumption.
    + intros j Hj. rewrite Ac. auto.
    + intros x Hx. destruct (q_kind0 x Hx) as [K1 K2]. split; [exact K1|]. intros N. rewrite Pw. auto.
    + intros j Hj. rewrite Ac. auto.
    + intros j Aj Kj. rewrite Ac in Aj. destruct (q_readers0 j Aj Kj) as [F|[R|(v & R)]]; [left; exact F|right; left; exact R|].
      right. right. exists v. rewrite Pr, Pw. destruct R as [R|[R X]]; auto.
    + intros b0 Ab Kb. rewrite Ac in Ab. destruct (q_barriers0 b0 Ab Kb) as [F|(v & Lv & Hb)]; [left; exact F|]. right. exists u.
      split; [exact El|]. assert (v = t) by congruence. subst v. unfold holds_barrier in *. rewrite E0 in Hb. cbn in Hb.
      destruct Hb as [R|[R|[_ R]]]; [discriminate| |contradiction]. right. right. rewrite Pw, Eg, upd_same. split; congruence.
  - intros v. destruct (OT v) as [R1 R2 R3]. constructor.
    + intros j Hj. rewrite Pr in Hj. rewrite Ac, E3, Es. destruct (R1 j Hj) as (A & K & S). split; [exact A|].
      destruct (Z.eq_dec v t) as [->|Ne]; [rewrite E0 in Hj; discriminate|]. rewrite Po by exact Ne. auto.
    + intros j b0 Hj. rewrite Pw in Hj. rewrite E3, E4, E5. destruct (R2 j b0 Hj) as (X1 & X2 & X3 & X4).
      split; [exact X1|]. split; [exact X2|]. rewrite Eg. unfold upd. destruct (Z.eqb_spec v u) as [->|Ne]; [|auto].
      split; [discriminate|]. intros _. rewrite Wu in Hj. injection Hj as <- <-. auto.
    + intros k' e' v' j Hp. rewrite Pw, E3, E5. destruct (Z.eq_dec v t) as [->|Ne]; [rewrite Pt in Hp; discriminate|].
      rewrite Po in Hp by exact Ne. exact (R3 k' e' v' j Hp).
Qed.

Lemma lst_pushed s x : oinv s -> In x (lst s) -> In (i_id x) (pushed s).
Proof. intros O H. rewrite in_rev, (q_seq s O). apply in_or_app. right. apply in_map. exact H. Qed.

(* ---- an item is acquired on a fast path (no push): dispatch_sync, dispatch_barrier_sync, dispatch_async redirect ---- *)
Lemma fast_acquire s s' t p' b : Inv2 s ->
  lst s' = lst s -> pushed s' = pushed s -> popped s' = popped s -> started s' = started s -> finished s' = finished s ->
  grant s' = grant s -> nextid s' = nextid s + 1 -> kinds s' = upd (kinds s) (nextid s) b -> pcs s' = upd (pcs s) t p' ->
  runs (pcs s t) = None -> wait_item (pcs s t) = None -> hand (pcs s t) = None -> wait_item p' = None -> hand p' = None ->
  ((runs p' = Some (nextid s) /\ runs_barrier p' = b /\ in_call p' = false /\ rq s' = rq s) \/
   (runs p' = None /\ b = false /\ rq s' = nextid s :: rq s)) ->
  ((lockh s' = lockh s /\ b = false) \/ (lockh s = None /\ lockh s' = Some t /\ b = true)) ->
  Inv2 s'.
Proof.
  intros [O OT] E1 E4 E5 Es Ef Eg En Ek Ep R0 W0 H0 W1 H1 Hrun Hlock. upd_facts Ep t. set (n := nextid s) in *.
  assert (N0 : 0 <= n) by exact (proj1 (q_ids s O)).
  assert (Pn : forall i, In i (pushed s) -> i <> n) by (intros i Hi; pose proof (pushed_lt s i O Hi); unfold n; lia).
  assert (Ac : forall i, acquired s' i <-> acquired s i \/ i = n).
  { intros i. unfold acquired. rewrite En, E4, E5. fold n. split.
    - intros [L H]. destruct (Z.eq_dec i n); [auto|]. left. split; [lia|exact H].
    - intros [[L H]| ->]; [split; [lia|exact H]|]. split; [lia|]. right. intros X. exact (Pn n X eq_refl). }
  assert (Kk : forall i, i <> n -> kinds s' i = kinds s i) by (intros i Hi; rewrite Ek; apply upd_other; exact Hi).
  assert (Kn : kinds s' n = b) by (rewrite Ek; apply upd_same).
  assert (Al : forall i, acquired s i -> i <> n) by (intros i [L _]; unfold n; lia).
  assert (NT : forall u, (runs (pcs s u) <> None \/ wait_item (pcs s u) <> None \/ hand (pcs s u) <> None) -> u <> t).
  { intros u X ->. tauto. }
  split.
  - destruct O. constructor; unfold inflight_reader in *; rewrite ?E1, ?E4, ?E5, ?Ef, ?Es, ?En; fold n; try assumption.
    + split; [lia|]. split; [|tauto]. intros i Hi. pose proof (proj1 (proj2 q_ids0) i Hi). fold n in H. lia.
    + intros j Hj. assert (X : (In j (rq s)) \/ (j = n /\ b = false)).
      { destruct Hrun as [(_ & _ & _ & Er)|(_ & Eb & Er)]; rewrite Er in Hj; [auto|]. destruct Hj as [<-|Hj]; auto. }
      destruct X as [X|[-> ->]]; [|rewrite Ac, Kn; auto]. destruct (q_rq0 j X) as [A K]. rewrite Ac, Kk; auto.
    + intros x Hx. destruct (q_kind0 x Hx) as [K1 K2]. rewrite Kk by (apply Pn; apply lst_pushed; [constructor; assumption|exact Hx]).
      split; [exact K1|]. intros N. specialize (K2 N). rewrite Po; [exact K2|]. apply NT. right. left. congruence.
    + intros j Hj. rewrite Ac. auto.
    + intros j Aj Kj. rewrite Ac in Aj. destruct Aj as [Aj| ->].
      * rewrite Kk in Kj by auto. destruct (q_readers0 j Aj Kj) as [F|[R|(u & R)]]; [left; exact F| |].
        -- right. left. destruct Hrun as [(_ & _ & _ & Er)|(_ & _ & Er)]; rewrite Er; [exact R|right; exact R].
        -- right. right. exists u. rewrite Po, Eg; [exact R|]. apply NT. destruct R as [R|[R _]]; [left|right; left]; congruence.
      * right. destruct Hrun as [(Rn & _)|(_ & _ & Er)]; [right; exists t; left; rewrite Pt; exact Rn|left; rewrite Er; left; reflexivity].
    + intros b0 Ab Kb. rewrite Ac in Ab. destruct Ab as [Ab| ->].
      * rewrite Kk in Kb by auto. destruct (q_barriers0 b0 Ab Kb) as [F|(u & Lu & Hb)]; [left; exact F|]. right.
        destruct Hlock as [[El _]|(El & _)]; [|congruence]. exists u. rewrite El. split; [exact Lu|]. unfold holds_barrier in *.
        rewrite Po, Eg; [exact Hb|]. apply NT. destruct Hb as [R|[R|[R _]]]; [left|right; right|right; left]; congruence.
      * rewrite Kn in Kb. destruct Hlock as [[_ X]|(_ & El & _)]; [congruence|]. right. exists t. split; [exact El|].
        left. rewrite Pt. destruct Hrun as [(Rn & _)|(_ & X & _)]; [exact Rn|congruence].
    + intros i j Hi Hj Lt. rewrite (Kk i) by (apply Pn; exact Hi).
      rewrite (Kk j) by (apply Pn; apply (proj2 (proj2 q_ids0)); exact Hj). eauto.
  - intros u. destruct (Z.eq_dec u t) as [->|Ne].
    + constructor; rewrite Pt.
      * intros j Hj. destruct Hrun as [(Rn & Rb & Rc & _)|(Rn & _)]; [|congruence]. assert (j = n) by congruence. subst j.
        rewrite Ac, Kn, Rb, Rc. split; [auto|]. split; [reflexivity|discriminate].
      * intros j b0 Hj. congruence.
      * intros k e v j Hp. rewrite Hp in H1. discriminate.
    + destruct (OT u) as [R1 R2 R3]. constructor; rewrite Po by exact Ne.
      * intros j Hj. destruct (R1 j Hj) as (A & K & S). rewrite Ac, Kk, Es by auto. auto.
      * intros j b0 Hj. destruct (R2 j b0 Hj) as (X1 & X2). rewrite Eg, E4, E5, Kk by auto. auto.
      * intros k e v j Hp. destruct (R3 k e v j Hp) as (X & Y & Z). rewrite E5, Kk by (apply Pn; apply (proj2 (proj2 (q_ids s O))); exact Y).
        split; [|auto]. rewrite Po; [exact X|]. apply NT. right. left. congruence.
Qed.

(* ---- an item is pushed on the list ---- *)
Lemma push_step s s' t p' b wt : Inv2 s ->
  rq s' = rq s -> grant s' = grant s -> lockh s' = lockh s -> started s' = started s -> finished s' = finished s ->
  popped s' = popped s -> lst s' = lst s ++ [{| i_id := nextid s; i_bar := b; i_wt := wt |}] ->
  pushed s' = nextid s :: pushed s -> nextid s' = nextid s + 1 -> kinds s' = upd (kinds s) (nextid s) b ->
  pcs s' = upd (pcs s) t p' -> runs (pcs s t) = None -> wait_item (pcs s t) = None -> hand (pcs s t) = None ->
  runs p' = None -> hand p' = None -> grant s t = GNone ->
  ((wt = 0 /\ wait_item p' = None) \/ (wt = t /\ wait_item p' = Some (nextid s, b))) -> Inv2 s'.
Proof.
  intros [O OT] Er Eg El Es Ef E5 E1 E4 En Ek Ep R0 W0 H0 R1 H1 Gt Hw. upd_facts Ep t. set (n := nextid s) in *.
  assert (N0 : 0 <= n) by exact (proj1 (q_ids s O)).
  assert (Pn : forall i, In i (pushed s) -> i < n) by (intros i Hi; pose proof (pushed_lt s i O Hi); unfold n; lia).
  assert (Ac : forall i, acquired s' i <-> acquired s i).
  { intros i. unfold acquired. rewrite En, E4, E5. fold n. split.
    - intros [L H]. assert (i <> n).
      { intros ->. destruct H as [H|H]; [|apply H; left; reflexivity]. apply (proj2 (proj2 (q_ids s O))) in H. apply Pn in H. lia. }
      split; [lia|]. destruct H as [H|H]; [left; exact H|right]. intros X. apply H. right. exact X.
    - intros [L H]. split; [lia|]. destruct H as [H|H]; [left; exact H|right]. intros [X|X]; [lia|auto]. }
  assert (Kk : forall i, i <> n -> kinds s' i = kinds s i) by (intros i Hi; rewrite Ek; apply upd_other; exact Hi).
  assert (Kn : kinds s' n = b) by (rewrite Ek; apply upd_same).
  assert (Al : forall i, acquired s i -> i <> n) by (intros i [L _]; unfold n; lia).
  assert (NT : forall u, (runs (pcs s u) <> None \/ wait_item (pcs s u) <> None \/ hand (pcs s u) <> None) -> u <> t).
  { intros u X ->. tauto. }
  split.
  - destruct O. constructor; unfold inflight_reader in *; rewrite ?E1, ?E4, ?E5, ?Ef, ?Es, ?En, ?Er; fold n; try assumption.
    + split; [lia|]. split.
      * intros i [<-|Hi]; [lia|]. pose proof (proj1 (proj2 q_ids0) i Hi) as X. fold n in X. lia.
      * intros i Hi. right. apply (proj2 (proj2 q_ids0)). exact Hi.
    + intros j Hj. destruct (q_rq0 j Hj) as [A K]. rewrite Ac, Kk; auto.
    + cbn [rev]. rewrite map_app, app_assoc, <- q_seq0. reflexivity.
    + cbn [rev]. apply sorted_snoc; [exact q_sorted0|]. intros y Hy. apply Pn. rewrite in_rev. exact Hy.
    + intros x Hx. apply in_app_or in Hx. destruct Hx as [Hx|[<-|[]]].
      * destruct (q_kind0 x Hx) as [K1 K2]. assert (i_id x < n) by (apply Pn; apply lst_pushed; [constructor; assumption|exact Hx]).
        rewrite Kk by lia. split; [exact K1|]. intros N. specialize (K2 N). rewrite Po; [exact K2|]. apply NT. right. left. congruence.
      * cbn. split; [exact Kn|]. intros N. destruct Hw as [[X _]|[-> X]]; [contradiction|]. rewrite Pt. exact X.
    + intros j Hj. rewrite Ac. auto.
    + intros j Aj Kj. rewrite Ac in Aj. rewrite Kk in Kj by auto. destruct (q_readers0 j Aj Kj) as [F|[R|(u & R)]]; [left; exact F|auto|].
      right. right. exists u. rewrite Po, Eg; [exact R|]. apply NT. destruct R as [R|[R _]]; [left|right; left]; congruence.
    + intros b0 Ab Kb. rewrite Ac in Ab. rewrite Kk in Kb by auto. destruct (q_barriers0 b0 Ab Kb) as [F|(u & Lu & Hb)]; [left; exact F|].
      right. exists u. rewrite El. split; [exact Lu|]. unfold holds_barrier in *.
      rewrite Po, Eg; [exact Hb|]. apply NT. destruct Hb as [R|[R|[R _]]]; [left|right; right|right; left]; congruence.
    + intros i j Hi Hj Lt. assert (j < n) by (apply Pn; apply (proj2 (proj2 q_ids0)); exact Hj).
      destruct Hi as [<-|Hi]; [lia|]. apply Pn in Hi as Hi'. rewrite (Kk i), (Kk j) by lia. eauto.
  - intros u. destruct (Z.eq_dec u t) as [->|Ne].
    + constructor; rewrite Pt.
      * intros j Hj. congruence.
      * intros j b0 Hj. destruct Hw as [[_ X]|[_ X]]; [congruence|]. rewrite X in Hj. injection Hj as <- <-.
        rewrite E4, Eg, Gt, Kn. split; [left; reflexivity|]. split; [reflexivity|]. split; discriminate.
      * intros k e v j Hp. rewrite Hp in H1. discriminate.
    + destruct (OT u) as [R1' R2 R3]. constructor; rewrite Po by exact Ne.
      * intros j Hj. destruct (R1' j Hj) as (A & K & S). rewrite Ac, Kk, Es by auto. auto.
      * intros j b0 Hj. destruct (R2 j b0 Hj) as (X1 & X2 & X3). apply Pn in X1 as X1'. rewrite Eg, E4, E5, Kk by lia.
        split; [right; exact X1|]. auto.
      * intros k e v j Hp. destruct (R3 k e v j Hp) as (X & Y & Z).
        assert (j < n) by (apply Pn; apply (proj2 (proj2 (q_ids s O))); exact Y). rewrite E5, Kk by lia.
        split; [|auto]. rewrite Po; [exact X|]. apply NT. right. left. congruence.
Qed.

(* ---- the lock owner takes the head of the list ---- *)
Lemma pop_common s s' x l' : oinv s -> lst s = x :: l' -> lst s' = l' -> popped s' = i_id x :: popped s ->
  nextid s' = nextid s -> pushed s' = pushed s ->
  (forall i, acquired s' i <-> acquired s i \/ i = i_id x) /\
  (0 <= nextid s' /\ (forall i, In i (pushed s') -> 0 <= i < nextid s') /\ (forall i, In i (popped s') -> In i (pushed s'))) /\
  rev (pushed s') = rev (popped s') ++ map i_id (lst s') /\ StronglySorted Z.lt (rev (pushed s')).
Proof.
  intros O El E1 E5 En E4. destruct (head_pushed s x l' O El) as [Hp Hn]. pose proof (pushed_lt s _ O Hp) as Hl.
  split; [|split; [|split]].
  - intros i. unfold acquired. rewrite En, E4, E5. split.
    + intros [L [[<-|H]|H]]; auto.
    + intros [[L [H|H]]| ->]; [split; [exact L|left; right; exact H]|split; [exact L|right; exact H]|].
      split; [exact Hl|left; left; reflexivity].
  - rewrite En, E4, E5. destruct (q_ids s O) as (A & B & C). split; [exact A|]. split; [exact B|]. intros i [<-|H]; auto.
  - rewrite E4, E5, E1. cbn [rev]. rewrite <- app_assoc. cbn. rewrite (q_seq s O), El. reflexivity.
  - rewrite E4. exact (q_sorted s O).
Qed.

Lemma pop_barrier W s s' t p' x l' : Inv W s -> Inv2 s -> lst s = x :: l' -> i_bar x = true -> lockh s = Some t ->
  bmode s = true -> runs (pcs s t) = None -> hand (pcs s t) = None -> grant s t <> GOwner ->
  lst s' = l' -> popped s' = i_id x :: popped s -> rq s' = rq s -> grant s' = grant s -> lockh s' = lockh s ->
  nextid s' = nextid s -> kinds s' = kinds s -> pushed s' = pushed s -> started s' = started s -> finished s' = finished s ->
  pcs s' = upd (pcs s) t p' -> wait_item p' = wait_item (pcs s t) ->
  ((exists op, p' = W_call op (i_id x)) \/ (exists k e, p' = DBW_xfer k e (i_wt x) (i_id x) /\ i_wt x <> 0)) -> Inv2 s'.
Proof.
  intros HI H2 El Bx Lt Bm R0 H0 Gt E1 E5 Er Eg Elk En E3 E4 Es Ef Ep Ew Hp. pose proof H2 as [O OT]. upd_facts Ep t.
  destruct (pop_common s s' x l' O El E1 E5 En E4) as (Ac & Qi & Qs & Qo).
  assert (Kx : kinds s (i_id x) = true /\ (i_wt x <> 0 -> wait_item (pcs s (i_wt x)) = Some (i_id x, true))).
  { rewrite <- Bx. apply (q_kind s O). rewrite El. left. reflexivity. }
  assert (Pw : forall u, wait_item (pcs s' u) = wait_item (pcs s u)).
  { intros u. rewrite Ep. unfold upd. destruct (Z.eqb_spec u t) as [->|]; auto. }
  assert (BD := barriers_done s t O (or_intror (conj Lt (conj R0 (conj H0 Gt))))).
  assert (RD := bmode_no_readers W s HI H2 Bm).
  assert (Hh : runs p' = Some (i_id x) \/ hand p' = Some (i_id x)).
  { destruct Hp as [(op & ->)|(k & e & -> & _)]; [left|right]; reflexivity. }
  split.
  - constructor; unfold inflight_reader; try assumption; rewrite ?Er, ?E3, ?Es, ?Ef.
    + intros j Hj. destruct (q_rq s O j Hj) as [A K]. rewrite Ac. auto.
    + intros y Hy. rewrite E1 in Hy. assert (Hy' : In y (lst s)) by (rewrite El; right; exact Hy).
      destruct (q_kind s O y Hy') as [K1 K2]. split; [exact K1|]. intros N. rewrite Pw. auto.
    + intros j Hj. rewrite Ac. left. exact (q_hist s O j Hj).
    + exact (q_fin s O).
    + intros j Aj Kj. rewrite Ac in Aj. destruct Aj as [Aj| ->]; [|destruct Kx; congruence]. left. exact (RD j Aj Kj).
    + intros b0 Ab Kb. rewrite Ac in Ab. destruct Ab as [Ab| ->]; [left; exact (BD b0 Ab Kb)|]. right. exists t.
      rewrite Elk. split; [exact Lt|]. unfold holds_barrier. rewrite Pt. tauto.
    + rewrite E4, E5. intros i j Hi [<-|Hj] Lij K; [|exact (q_order s O i j Hi Hj Lij K)].
      pose proof (popped_acquired s i O (pop_prefix s x l' i O El Hi Lij)) as Ai.
      destruct (kinds s i) eqn:Ki; [exact (BD i Ai Ki)|exact (RD i Ai Ki)].
  - intros u. destruct (OT u) as [R1 R2 R3]. constructor.
    + intros j Hj. rewrite Ac, E3, Es. destruct (Z.eq_dec u t) as [->|Ne].
      * rewrite Pt in *. destruct Hp as [(op & ->)|(k & e & -> & _)]; [|discriminate]. cbn in Hj. injection Hj as <-.
        cbn. split; [auto|]. split; [exact (proj1 Kx)|discriminate].
      * rewrite Po in * by exact Ne. destruct (R1 j Hj) as (A & K & S). auto.
    + intros j b0 Hj. rewrite Pw in Hj. rewrite Eg, E3, E4, E5. destruct (R2 j b0 Hj) as (X1 & X2 & X3 & X4).
      split; [exact X1|]. split; [exact X2|]. split; intros Y; [destruct (X3 Y)|destruct (X4 Y)]; split; auto; right; assumption.
    + intros k e v j Hq. rewrite Pw, E3, E5. destruct (Z.eq_dec u t) as [->|Ne].
      * rewrite Pt in Hq. destruct Hp as [(op & ->)|(k0 & e0 & -> & N)]; [discriminate|]. injection Hq as -> -> <- <-.
        split; [exact (proj2 Kx N)|]. split; [left; reflexivity|exact (proj1 Kx)].
      * rewrite Po in Hq by exact Ne. destruct (R3 k e v j Hq) as (X & Y & Z). split; [exact X|]. split; [right; exact Y|exact Z].
Qed.

Lemma pop_reader s s' t p' x l' : Inv2 s -> lst s = x :: l' -> i_bar x = false -> lockh s = Some t ->
  runs (pcs s t) = None -> hand (pcs s t) = None -> grant s t <> GOwner -> (i_wt x <> 0 -> grant s (i_wt x) = GNone) ->
  lst s' = l' -> popped s' = i_id x :: popped s -> lockh s' = lockh s ->
  nextid s' = nextid s -> kinds s' = kinds s -> pushed s' = pushed s -> started s' = started s -> finished s' = finished s ->
  ((i_wt x = 0 /\ rq s' = i_id x :: rq s /\ grant s' = grant s) \/
   (i_wt x <> 0 /\ rq s' = rq s /\ grant s' = upd (grant s) (i_wt x) GReader)) ->
  pcs s' = upd (pcs s) t p' -> runs p' = None -> hand p' = None -> wait_item p' = wait_item (pcs s t) -> Inv2 s'.
Proof.
  intros H2 El Bx Lt R0 H0 Gt Gx E1 E5 Elk En E3 E4 Es Ef Hc Ep R1 H1 Ew. pose proof H2 as [O OT]. upd_facts Ep t.
  destruct (pop_common s s' x l' O El E1 E5 En E4) as (Ac & Qi & Qs & Qo).
  assert (Kx : kinds s (i_id x) = false /\ (i_wt x <> 0 -> wait_item (pcs s (i_wt x)) = Some (i_id x, false))).
  { rewrite <- Bx. apply (q_kind s O). rewrite El. left. reflexivity. }
  assert (Pw : forall u, wait_item (pcs s' u) = wait_item (pcs s u)).
  { intros u. rewrite Ep. unfold upd. destruct (Z.eqb_spec u t) as [->|]; auto. }
  assert (Pr : forall u, runs (pcs s' u) = runs (pcs s u)).
  { intros u. rewrite Ep. unfold upd. destruct (Z.eqb_spec u t) as [->|]; congruence. }
  assert (BD := barriers_done s t O (or_intror (conj Lt (conj R0 (conj H0 Gt))))).
  assert (Rq : forall j, In j (rq s) -> In j (rq s')).
  { intros j Hj. destruct Hc as [(_ & -> & _)|(_ & -> & _)]; [right|]; exact Hj. }
  assert (Gm : forall v, grant s v = GReader -> grant s' v = GReader).
  { intros v X. destruct Hc as [(_ & _ & ->)|(_ & _ & ->)]; [exact X|]. unfold upd. destruct (v =? i_wt x); auto. }
  assert (Gs : forall v, grant s' v = grant s v \/ (v = i_wt x /\ i_wt x <> 0 /\ grant s' v = GReader)).
  { intros v. destruct Hc as [(_ & _ & ->)|(N & _ & ->)]; [auto|]. unfold upd. destruct (Z.eqb_spec v (i_wt x)); auto. }
  split.
  - constructor; unfold inflight_reader; try assumption; rewrite ?E3, ?Es, ?Ef.
    + intros j Hj. rewrite Ac. destruct Hc as [(_ & Er & _)|(_ & Er & _)]; rewrite Er in Hj.
      * destruct Hj as [<-|Hj]; [split; [auto|exact (proj1 Kx)]|]. destruct (q_rq s O j Hj); auto.
      * destruct (q_rq s O j Hj); auto.
    + intros y Hy. rewrite E1 in Hy. assert (Hy' : In y (lst s)) by (rewrite El; right; exact Hy).
      destruct (q_kind s O y Hy') as [K1 K2]. split; [exact K1|]. intros N. rewrite Pw. auto.
    + intros j Hj. rewrite Ac. left. exact (q_hist s O j Hj).
    + exact (q_fin s O).
    + intros j Aj Kj. rewrite Ac in Aj. destruct Aj as [Aj| ->].
      * destruct (q_readers s O j Aj Kj) as [F|[R|(u & R)]]; [left; exact F|right; left; auto|]. right. right. exists u.
        rewrite Pr, Pw. destruct R as [R|[R X]]; auto.
      * right. destruct Hc as [(_ & Er & _)|(N & _ & Eg)]; [left; rewrite Er; left; reflexivity|]. right. exists (i_wt x). right.
        rewrite Pw, Eg, upd_same. split; [exact (proj2 Kx N)|reflexivity].
    + intros b0 Ab Kb. rewrite Ac in Ab. destruct Ab as [Ab| ->]; [left; exact (BD b0 Ab Kb)|destruct Kx; congruence].
    + rewrite E4, E5. intros i j Hi [<-|Hj] Lij K; [|exact (q_order s O i j Hi Hj Lij K)].
      pose proof (popped_acquired s i O (pop_prefix s x l' i O El Hi Lij)) as Ai.
      destruct K as [K|K]; [exact (BD i Ai K)|destruct Kx; congruence].
  - intros u. destruct (OT u) as [R1' R2 R3]. constructor.
    + intros j Hj. rewrite Pr in Hj. rewrite Ac, E3, Es. destruct (R1' j Hj) as (A & K & S).
      destruct (Z.eq_dec u t) as [->|Ne]; [congruence|]. rewrite Po by exact Ne. auto.
    + intros j b0 Hj. rewrite Pw in Hj. rewrite E3, E4, E5. destruct (R2 j b0 Hj) as (X1 & X2 & X3 & X4).
      split; [exact X1|]. split; [exact X2|]. destruct (Gs u) as [->|(-> & N & ->)].
      * split; intros Y; [destruct (X3 Y)|destruct (X4 Y)]; split; auto; right; assumption.
      * split; [|discriminate]. intros _. rewrite (proj2 Kx N) in Hj. injection Hj as <- <-. split; [reflexivity|left; reflexivity].
    + intros k e v j Hq. rewrite Pw, E3, E5. destruct (Z.eq_dec u t) as [->|Ne]; [rewrite Pt in Hq; rewrite Hq in H1; discriminate|].
      rewrite Po in Hq by exact Ne. destruct (R3 k e v j Hq) as (X & Y & Z). split; [exact X|]. split; [right; exact Y|exact Z].
Qed.

(* ---- every step ---- *)
Lemma owner_facts W s t : Inv W s -> owns (pcs s t) = true ->
  lockh s = Some t /\ grant s t <> GOwner /\ pcinv W s (pcs s t).
Proof.
  intros (_ & _ & T) Ow. destruct (T t) as [_ T2 _ _ T5 T6]. split; [apply T2; left; exact Ow|]. split; [|exact (T6 Ow)].
  intros X. destruct (T5 X). congruence.
Qed.

Lemma nowait_grant W s t : Inv W s -> waitpc (pcs s t) = false -> grant s t = GNone.
Proof.
  intros (_ & _ & T) Hw. destruct (T t) as [_ _ _ T4 _ _]. destruct (grant s t) eqn:E; [reflexivity| |]; exfalso;
    (assert (X : waitpc (pcs s t) = true) by (apply T4; discriminate)); congruence.
Qed.

Lemma lock_taken W s s' t : Inv W s -> Inv W s' -> (forall u, u <> t -> pcs s' u = pcs s u) -> grant s' = grant s ->
  owns (pcs s t) = false -> grant s t = GNone -> lockh s' = Some t -> lockh s = None.
Proof.
  intros HI HI' Po Eg Ow Gt L'. destruct (lock_frame W s s' t HI HI' Po Eg) as [L|[L|(_ & X & _)]]; [|exact L|congruence].
  exfalso. rewrite L' in L. destruct HI as (_ & _ & T). destruct (T t) as [_ T2 _ _ _ _]. symmetry in L. apply T2 in L.
  destruct L; congruence.
Qed.

Ltac gcases Hs :=
  repeat (lazy beta iota zeta in Hs; match type of Hs with
          | (if ?c then _ else _) = Some _ => destruct c eqn:?Hc
          | match ?x with Commit _ _ => _ | NoCommit _ _ => _ | Restart _ => _ | Crash _ => _ end = Some _ => destruct x; try discriminate Hs
          | match ?x with [] => _ | _ :: _ => _ end = Some _ => destruct x eqn:Hl; try discriminate Hs
          | match ?x with GNone => _ | GReader => _ | GOwner => _ end = Some _ => destruct x eqn:Hg; try discriminate Hs
          end); lazy beta iota zeta in Hs; try discriminate Hs; apply Some_inj in Hs.

Ltac pcif := repeat (match goal with
   | |- context [if ?c then _ else _] => destruct c
   | |- context [match ?l with [] => _ | _ :: _ => _ end] => destruct l
   | |- context [after ?k] => is_var k; destruct k
   | |- context [dn_cont _ _ _] => unfold dn_cont end); try reflexivity.

Ltac frame_case W t HI HI' H2 Hpc :=
  eapply (frame_step W _ _ t _ HI HI' H2);
    [ unfold same2; gcbn; repeat split; reflexivity | gcbn; reflexivity | rewrite Hpc; reflexivity | pcif
    | rewrite Hpc; pcif | pcif | rewrite Hpc; reflexivity ].

Ltac fld := gcbn; reflexivity.
Ltac same_lists_tac := unfold same_lists; gcbn; repeat split; reflexivity.

Lemma gstep_preserves2 W s t s' : Inv W s -> Inv2 s -> valid_tid t -> gstep W s t = Some s' -> Inv2 s'.
Proof.
  intros HI H2 Vt Hs. assert (HI' : Inv W s') by (eapply gstep_preserves; eassumption).
  destruct (pcs s t) eqn:Hpc; unfold gstep in Hs; rewrite Hpc in Hs.
  all: lazy beta iota zeta in Hs; try discriminate Hs.
  all: try (solve [gcases Hs; subst s'; frame_case W t HI HI' H2 Hpc]).
  - (* S_rsv *) gcases Hs; subst s'; [|frame_case W t HI HI' H2 Hpc].
    eapply (fast_acquire s _ t _ false H2); try fld; try (rewrite Hpc; reflexivity); try reflexivity.
    + left. repeat split; fld.
    + left. split; fld.
  - (* R_call *) gcases Hs; subst s'. eapply (callout_begin s _ t _ i H2); try same_lists_tac; try fld; rewrite ?Hpc; reflexivity.
  - (* R_incall *) gcases Hs; subst s'. eapply (callout_end s _ t _ i H2); try same_lists_tac; try fld; rewrite ?Hpc; reflexivity.
  - (* B_acq *) gcases Hs; subst s'; [|frame_case W t HI HI' H2 Hpc].
    eapply (fast_acquire s _ t _ true H2); try fld; try (rewrite Hpc; reflexivity); try reflexivity.
    + left. repeat split; fld.
    + right. split; [|split; fld]. eapply (lock_taken W s _ t HI HI').
      * intros u Ne. gcbn. apply upd_other. exact Ne.
      * fld.
      * rewrite Hpc. reflexivity.
      * apply (nowait_grant W s t HI). rewrite Hpc. reflexivity.
      * fld.
  - (* B_call *) gcases Hs; subst s'. eapply (callout_begin s _ t _ i H2); try same_lists_tac; try fld; rewrite ?Hpc; reflexivity.
  - (* B_incall *) gcases Hs; subst s'. eapply (callout_end s _ t _ i H2); try same_lists_tac; try fld; rewrite ?Hpc; reflexivity.
  - (* DBW_pop *) gcases Hs; subst s'. destruct (owner_facts W s t HI) as (L & G & P); [rewrite Hpc; reflexivity|].
    rewrite Hpc in P. cbn in P. destruct P as (Bm & _ & Hb & Hw). unfold head_bar, head_wt in Hb, Hw. rewrite Hl in Hb, Hw.
    eapply (pop_barrier W s _ t _ i l HI H2 Hl Hb L Bm); try fld; try (rewrite Hpc; reflexivity); try exact G.
    right. eauto.
  - (* DBW_xfer *) gcases Hs; subst s'.
    assert (X : forall s1, same_lists s s1 -> rq s1 = rq s -> started s1 = started s -> finished s1 = finished s ->
                 grant s1 = upd (grant s) u GOwner -> lockh s1 = Some u -> pcs s1 = pcs s -> Inv2 (set_pc s1 t (DBW_wake k u))).
    { intros s1 A1 A2 A3 A4 A5 A6 A7.
      apply (lock_handoff W s (set_pc s1 t (DBW_wake k u)) t k enqb u i HI H2 A1 A2 A3 A4 Hpc A5 A6). gcbn. rewrite A7. reflexivity. }
    destruct (enqb =? 0); apply X; try same_lists_tac; fld.
  - (* DN_pop *) destruct (owner_facts W s t HI) as (L & G & P); [rewrite Hpc; reflexivity|].
    rewrite Hpc in P. cbn in P. destruct P as (_ & _ & _ & _ & Hb). unfold head_nb in Hb.
    pose proof HI as (_ & (r & GI) & _).
    gcases Hs; subst s'; try rewrite Hl in Hb.
    + eapply (pop_reader s _ t _ i l H2 Hl Hb L); try fld; try (rewrite Hpc; reflexivity); try exact G.
      * intros N. apply (g_wt W s r GI i); [rewrite Hl; left; reflexivity|exact N].
      * left. apply Z.eqb_eq in Hc. repeat split; try fld. exact Hc.
      * pcif.
      * pcif.
      * rewrite Hpc. pcif.
    + eapply (pop_reader s _ t _ i l H2 Hl Hb L); try fld; try (rewrite Hpc; reflexivity); try exact G.
      * intros N. apply (g_wt W s r GI i); [rewrite Hl; left; reflexivity|exact N].
      * right. apply Z.eqb_neq in Hc. repeat split; try fld. exact Hc.
  - (* A_acq *) gcases Hs; subst s'; [|frame_case W t HI HI' H2 Hpc].
    eapply (fast_acquire s _ t _ false H2); try fld; try (rewrite Hpc; reflexivity); try reflexivity.
    + right. repeat split; fld.
    + left. split; fld.
  - (* A_xchg *) gcases Hs; subst s'.
    eapply (push_step s _ t _ b 0 H2); try fld; try (rewrite Hpc; reflexivity).
    + pcif.
    + pcif.
    + apply (nowait_grant W s t HI). rewrite Hpc. reflexivity.
    + left. split; [reflexivity|pcif].
  - (* SW_xchg *) gcases Hs; subst s'.
    eapply (push_step s _ t _ b t H2); try fld; try (rewrite Hpc; reflexivity).
    + pcif.
    + pcif.
    + apply (nowait_grant W s t HI). rewrite Hpc. reflexivity.
    + right. split; [reflexivity|pcif].
  - (* SW_wait *) gcases Hs; subst s'.
    + eapply (grant_consume W s _ t _ i b HI H2); try same_lists_tac; try fld; try exact Hpc. left. auto.
    + eapply (grant_consume W s _ t _ i b HI H2); try same_lists_tac; try fld; try exact Hpc. right. auto.
  - (* W_popn *) destruct (owner_facts W s t HI) as (L & G & P); [rewrite Hpc; reflexivity|].
    rewrite Hpc in P. cbn in P. destruct P as (_ & _ & _ & _ & _ & Hb). unfold head_nb in Hb.
    pose proof HI as (_ & (r & GI) & _).
    gcases Hs; subst s'; try rewrite Hl in Hb.
    + eapply (pop_reader s _ t _ i l H2 Hl Hb L); try fld; try (rewrite Hpc; reflexivity); try exact G.
      * intros N. apply (g_wt W s r GI i); [rewrite Hl; left; reflexivity|exact N].
      * left. apply Z.eqb_eq in Hc. repeat split; try fld. exact Hc.
    + eapply (pop_reader s _ t _ i l H2 Hl Hb L); try fld; try (rewrite Hpc; reflexivity); try exact G.
      * intros N. apply (g_wt W s r GI i); [rewrite Hl; left; reflexivity|exact N].
      * right. apply Z.eqb_neq in Hc. repeat split; try fld. exact Hc.
  - (* W_popb *) gcases Hs; subst s'. destruct (owner_facts W s t HI) as (L & G & P); [rewrite Hpc; reflexivity|].
    rewrite Hpc in P. cbn in P. destruct P as (_ & Bm & Hb). unfold head_bar in Hb. rewrite Hl in Hb.
    eapply (pop_barrier W s _ t _ i l HI H2 Hl Hb L Bm); try fld; try (rewrite Hpc; reflexivity); try exact G.
    left. eauto.
  - (* W_call *) gcases Hs; subst s'. eapply (callout_begin s _ t _ i H2); try same_lists_tac; try fld; rewrite ?Hpc; reflexivity.
  - (* W_incall *) gcases Hs; subst s'. eapply (callout_end s _ t _ i H2); try same_lists_tac; try fld; rewrite ?Hpc; reflexivity.
Qed.

Lemma begin_preserves2 W s t c s' : Inv W s -> Inv2 s -> valid_tid t -> begin s t c = Some s' -> Inv2 s'.
Proof.
  intros HI H2 Vt Hs. assert (HI' : Inv W s') by (eapply begin_preserves; eassumption).
  unfold begin in Hs. destruct (pcs s t) eqn:Hpc; try discriminate Hs. destruct c.
  - gcases Hs; subst s'. frame_case W t HI HI' H2 Hpc.
  - gcases Hs; subst s'. frame_case W t HI HI' H2 Hpc.
  - gcases Hs; subst s'. frame_case W t HI HI' H2 Hpc.
  - gcases Hs; subst s'. frame_case W t HI HI' H2 Hpc.
  - gcases Hs; subst s'. eapply (worker_item s _ t i H2); try same_lists_tac; try fld; try exact Hpc.
    apply mem_z_in. exact Hc.
Qed.

Lemma Inv2_init W : Inv2 (init_state W).
Proof.
  split.
  - constructor; cbn; try tauto; try lia.
    + split; [lia|]. tauto.
    + constructor.
    + intros j [L _]. cbn in L. lia.
  - intros t. constructor; cbn; intros; discriminate.
Qed.

Theorem step_preserves2 W s a s' : Inv W s -> Inv2 s -> step W s a s' -> Inv2 s'.
Proof.
  intros HI H2 Hs. destruct a as [t c|t]; destruct Hs as [Vt Hs].
  - eapply begin_preserves2; eassumption.
  - eapply gstep_preserves2; eassumption.
Qed.

Theorem inv2_reach W s : 2 <= W <= 4094 -> reach W s -> Inv W s /\ Inv2 s.
Proof.
  intros HW. apply (invariant_lift _ _ (fun s => Inv W s /\ Inv2 s)).
  - intros s0 ->. split; [apply Inv_init; exact HW|apply Inv2_init].
  - intros s0 a s1 [HI H2] Hs. split; [eapply step_preserves; eassumption|eapply step_preserves2; eassumption].
Qed.

(* ---- consequences: ordering ---- *)
(* items are taken off the list in the order of their pushes; the ids are the push order *)
Theorem fifo_pop_order W s : 2 <= W <= 4094 -> reach W s ->
  rev (pushed s) = rev (popped s) ++ map i_id (lst s) /\ StronglySorted Z.lt (rev (pushed s)).
Proof. intros HW R. destruct (inv2_reach W s HW R) as [_ [O _]]. split; [exact (q_seq s O)|exact (q_sorted s O)]. Qed.

(* writer-lock order for pushed items: if i was pushed before j and one of them is a barrier, j does not start (is not even
   taken off the list) before i has finished *)
Theorem barrier_orders_fifo W s i j : 2 <= W <= 4094 -> reach W s ->
  In i (pushed s) -> In j (pushed s) -> i < j -> kinds s i = true \/ kinds s j = true ->
  (In j (popped s) \/ In j (started s)) -> In i (finished s).
Proof.
  intros HW R Hi Hj Lt K Hs. destruct (inv2_reach W s HW R) as [_ [O _]].
  assert (Pj : In j (popped s)).
  { destruct Hs as [Hs|Hs]; [exact Hs|]. destruct (q_hist s O j Hs) as [_ [X|X]]; [exact X|contradiction]. }
  exact (q_order s O i j Hi Pj Lt K).
Qed.

(* exclusion for every way of acquiring (fast paths included): while a barrier is acquired and unfinished, every other
   acquired item has finished; nothing else starts *)
Theorem barrier_excludes_acquired W s b j : 2 <= W <= 4094 -> reach W s ->
  acquired s b -> kinds s b = true -> ~ In b (finished s) -> acquired s j -> j <> b -> In j (finished s).
Proof. intros HW R. destruct (inv2_reach W s HW R) as [HI H2]. exact (acquired_exclusion W s b j HI H2). Qed.

(* the log is tied to the program points: an item runs only after it was acquired; it finishes only after it started *)
Theorem history_wellformed W s : 2 <= W <= 4094 -> reach W s ->
  (forall i, In i (started s) -> acquired s i) /\ (forall i, In i (finished s) -> In i (started s)) /\
  (forall t i, runs (pcs s t) = Some i -> acquired s i /\ kinds s i = runs_barrier (pcs s t) /\
                                          (in_call (pcs s t) = true -> In i (started s))).
Proof.
  intros HW R. destruct (inv2_reach W s HW R) as [_ [O OT]]. split; [exact (q_hist s O)|]. split; [exact (q_fin s O)|].
  intros t i. exact (r_runs s t (OT t) i).
Qed.

(* "acquired" is stable: ids are never reused, nothing returns to the list *)
Lemma acquired_stable W s a s' : step W s a s' -> forall i, acquired s i -> acquired s' i.
Proof.
  assert (X : forall s s', nextid s <= nextid s' -> incl (popped s) (popped s') ->
              (forall j, In j (pushed s') -> In j (pushed s) \/ nextid s <= j) -> forall i, acquired s i -> acquired s' i).
  { intros s0 s1 A B C i [L H]. split; [lia|]. destruct H as [H|H]; [left; apply B; exact H|]. right. intros Y.
    destruct (C i Y); [contradiction|lia]. }
  intros Hs. destruct a as [t c|t]; destruct Hs as [_ Hs].
  - unfold begin in Hs. destruct (pcs s t); try discriminate Hs. destruct c; gcases Hs; subst s'; apply X; gcbn;
      try lia; try apply incl_refl; auto.
  - unfold gstep in Hs. destruct (pcs s t) eqn:Hpc; lazy beta iota zeta in Hs; try discriminate Hs.
    all: gcases Hs; subst s'.
    all: try (destruct (enqb =? 0)).
    all: apply X; gcbn; try lia; try apply incl_refl; try (apply incl_tl; apply incl_refl); auto.
    all: intros j [<-|Hj]; [right; lia|left; exact Hj].
Qed.

(* ---- non-vacuity of the ordering statements (width 4): ids 0, 1 are the two dispatch_sync readers of ex_acts1, 2 is the
   barrier pushed behind them, 3 an async item pushed behind the barrier ---- *)
Definition ex_acts3 : list action :=
  ex_acts1 ++ [ABegin 6 (CAsync false 0 false); AStep 6; AStep 6] ++
  [AStep 1; AStep 1; AStep 2; AStep 2] ++ repeat (AStep 2) 3 ++ [ABegin 5 (CWorkerLane 0)] ++ repeat (AStep 5) 5.
Definition ex_acts4 : list action := ex_acts3 ++ repeat (AStep 5) 6 ++ [ABegin 7 (CWorkerItem 3); AStep 7].

Lemma ordering_nonvacuous :
  (exists s, reach 4 s /\ pushed s = [3; 2] /\ popped s = [2] /\ kinds s 2 = true /\ kinds s 3 = false /\
             started s = [2; 1; 0] /\ finished s = [1; 0] /\ in_barrier_callout (pcs s 5) = true /\
             acquired s 2 /\ acquired s 0 /\ acquired s 1 /\ ~ acquired s 3) /\
  (exists s, reach 4 s /\ pushed s = [3; 2] /\ kinds s 2 = true /\ pcs s 7 = R_incall 3 /\
             started s = [3; 2; 1; 0] /\ finished s = [2; 1; 0]).
Proof.
  split.
  - destruct (run 4 (init_state 4) ex_acts3) as [s|] eqn:E; [|vm_compute in E; discriminate].
    exists s. split.
    + apply (run_reach 4 ex_acts3 (init_state 4) s); [apply reach_init; reflexivity | vm_compute; reflexivity | exact E].
    + vm_compute in E. injection E as <-. unfold acquired. cbn. repeat split; try reflexivity; try lia; auto.
  - destruct (run 4 (init_state 4) ex_acts4) as [s|] eqn:E; [|vm_compute in E; discriminate].
    exists s. split.
    + apply (run_reach 4 ex_acts4 (init_state 4) s); [apply reach_init; reflexivity | vm_compute; reflexivity | exact E].
    + vm_compute in E. injection E as <-. cbn. repeat split; reflexivity.
Qed.

(* ---- real-time form: the order of acquisitions ---- *)
Inductive later (W : Z) : gst -> gst -> Prop :=
| later_refl s : later W s s
| later_step s s1 a s2 : later W s s1 -> step W s1 a s2 -> later W s s2.

Lemma kinds_stable W s a s' : step W s a s' -> nextid s <= nextid s' /\ forall i, i < nextid s -> kinds s' i = kinds s i.
Proof.
  intros Hs. destruct a as [t c|t]; destruct Hs as [_ Hs].
  - unfold begin in Hs. destruct (pcs s t); try discriminate Hs. destruct c; gcases Hs; subst s'; gcbn; split; auto; lia.
  - unfold gstep in Hs. destruct (pcs s t) eqn:Hpc; lazy beta iota zeta in Hs; try discriminate Hs.
    all: gcases Hs; subst s'.
    all: try (destruct (enqb =? 0)).
    all: gcbn; split; [lia|]; auto.
    all: intros j Hj; apply upd_other; lia.
Qed.

Lemma later_facts W s s' : later W s s' ->
  (reach W s -> reach W s') /\ (forall i, acquired s i -> acquired s' i) /\ nextid s <= nextid s' /\
  (forall i, i < nextid s -> kinds s' i = kinds s i).
Proof.
  induction 1 as [s|s s1 a s2 L IH Hs]; [split; [auto|split; [auto|split; [lia|auto]]]|]. destruct IH as (A & B & C & D).
  destruct (kinds_stable W s1 a s2 Hs) as [E F]. split; [|split; [|split]].
  - intros R. exact (reach_step _ _ s1 a s2 (A R) Hs).
  - intros i Hi. exact (acquired_stable W s1 a s2 Hs i (B i Hi)).
  - lia.
  - intros i Hi. rewrite F by lia. auto.
Qed.

Lemma acquired_dec s j : acquired s j \/ ~ acquired s j.
Proof.
  unfold acquired. destruct (Z_le_dec 0 j), (Z_lt_dec j (nextid s)), (In_dec Z.eq_dec j (popped s)), (In_dec Z.eq_dec j (pushed s));
    try tauto; right; intros [X Y]; try lia; tauto.
Qed.

Lemma finished_step W s a s' : Inv2 s -> step W s a s' ->
  incl (finished s) (finished s') /\ forall j, In j (finished s') -> acquired s j.
Proof.
  intros [O OT] Hs.
  assert (X : finished s' = finished s -> incl (finished s) (finished s') /\ forall j, In j (finished s') -> acquired s j).
  { intros ->. split; [apply incl_refl|]. intros j Hj. apply (q_hist s O). apply (q_fin s O). exact Hj. }
  assert (Y : forall t i, runs (pcs s t) = Some i -> finished s' = i :: finished s ->
              incl (finished s) (finished s') /\ forall j, In j (finished s') -> acquired s j).
  { intros t i Hr ->. split; [apply incl_tl; apply incl_refl|]. intros j [<-|Hj].
    - exact (proj1 (r_runs s t (OT t) i Hr)).
    - apply (q_hist s O). apply (q_fin s O). exact Hj. }
  destruct a as [t c|t]; destruct Hs as [_ Hs].
  - unfold begin in Hs. destruct (pcs s t); try discriminate Hs. destruct c; gcases Hs; subst s'; apply X; fld.
  - unfold gstep in Hs. destruct (pcs s t) eqn:Hpc; lazy beta iota zeta in Hs; try discriminate Hs.
    all: gcases Hs; subst s'.
    all: try (destruct (enqb =? 0)).
    all: try (apply X; fld).
    all: apply (Y t i); [rewrite Hpc; reflexivity|fld].
Qed.

(* A barrier that was acquired first: whatever is acquired later is acquired only after the barrier has finished.
   "Acquired" is the successful compare-and-swap of a fast path (_dispatch_queue_try_acquire_barrier_sync,
   _dispatch_queue_try_reserve_sync_width, _dispatch_queue_try_acquire_async) or the removal from the list by the drainer. *)
Theorem later_items_wait_for_barrier W s1 s2 b j : 2 <= W <= 4094 -> reach W s1 -> later W s1 s2 ->
  acquired s1 b -> kinds s1 b = true -> acquired s2 j -> ~ acquired s1 j -> In b (finished s2).
Proof.
  intros HW R L Ab Kb. induction L as [s|s s1 a s2 L IH Hs]; intros Aj Nj; [contradiction|].
  destruct (later_facts W s s1 L) as (A & B & C & D). destruct (inv2_reach W s1 HW (A R)) as [HI1 H21].
  destruct (finished_step W s1 a s2 H21 Hs) as [Fi Fa].
  pose proof (acquired_dec s1 j) as Rj.
  destruct Rj as [Rj|Rj]; [apply Fi; exact (IH R Ab Kb Rj Nj)|].
  assert (R2 : reach W s2) by exact (reach_step _ _ s1 a s2 (A R) Hs).
  destruct (inv2_reach W s2 HW R2) as [HI2 H22].
  destruct (In_dec Z.eq_dec b (finished s2)) as [F|F]; [exact F|]. exfalso. apply Rj. apply Fa.
  assert (L2 : later W s s2) by exact (later_step W s s1 a s2 L Hs).
  destruct (later_facts W s s2 L2) as (_ & B2 & _ & D2).
  apply (acquired_exclusion W s2 b j HI2 H22 (B2 b Ab)); auto.
  - rewrite D2; [exact Kb|exact (proj2 (acquired_lt s b Ab))].
  - intros ->. apply Nj. exact Ab.
Qed.

(* A barrier that is acquired later: it is acquired only when everything acquired before it has finished. *)
Theorem barrier_waits_for_earlier_items W s1 s2 i b : 2 <= W <= 4094 -> reach W s1 -> later W s1 s2 ->
  acquired s1 i -> acquired s2 b -> kinds s2 b = true -> ~ acquired s1 b -> In i (finished s2).
Proof.
  intros HW R L Ai. induction L as [s|s s1 a s2 L IH Hs]; intros Ab Kb Nb; [contradiction|].
  destruct (later_facts W s s1 L) as (A & B & C & D). destruct (inv2_reach W s1 HW (A R)) as [HI1 H21].
  destruct (finished_step W s1 a s2 H21 Hs) as [Fi Fa]. destruct (kinds_stable W s1 a s2 Hs) as [_ Ks].
  pose proof (acquired_dec s1 b) as Rb.
  destruct Rb as [Rb|Rb].
  - apply Fi. apply (IH R Ai Rb); [|exact Nb]. rewrite <- Ks; [exact Kb|exact (proj2 (acquired_lt s1 b Rb))].
  - assert (R2 : reach W s2) by exact (reach_step _ _ s1 a s2 (A R) Hs).
    destruct (inv2_reach W s2 HW R2) as [HI2 H22].
    assert (L2 : later W s s2) by exact (later_step W s s1 a s2 L Hs).
    destruct (later_facts W s s2 L2) as (_ & B2 & _ & _).
    apply (acquired_exclusion W s2 b i HI2 H22 Ab Kb); auto.
    intros ->. apply Nb. exact Ai.
Qed.

(* what the fast paths know: all three (dispatch_sync, dispatch_barrier_sync, the dispatch_async redirect) are taken only
   after their tail test found the list empty, and then everything pushed so far has been acquired already -- so the two
   theorems above order the fast-path item after every barrier pushed before the tail test, and a fast-path barrier after
   everything pushed before its tail test *)
Theorem tail_test_sees_all_acquired W s t s' : 2 <= W <= 4094 -> reach W s -> gstep W s t = Some s' ->
  ((pcs s t = S_tail /\ pcs s' t = S_rsv 0) \/ (pcs s t = B_tail /\ pcs s' t = B_acq) \/
   (exists q ovr, pcs s t = A_tail false q ovr /\ pcs s' t = A_acq q ovr)) ->
  forall x, In x (pushed s) -> acquired s x.
Proof.
  intros HW R Hs Hc x Hx. destruct (inv2_reach W s HW R) as [_ [O _]]. apply (popped_acquired s x O).
  assert (El : lst s = []).
  { unfold gstep in Hs. destruct Hc as [[E E']|[[E E']|(q & ovr & E & E')]]; rewrite E in Hs; apply Some_inj in Hs; subst s';
      gcbn in E'; rewrite upd_same in E'; destruct (lst s); try reflexivity; cbn in E'; discriminate. }
  pose proof (q_seq s O) as Q. rewrite El in Q. cbn in Q. rewrite app_nil_r in Q. rewrite in_rev, <- Q, <- in_rev. exact Hx.
Qed.

Lemma later_trans W s1 s2 s3 : later W s1 s2 -> later W s2 s3 -> later W s1 s3.
Proof. intros A B. induction B as [|s s' a s'' L IH Hs]; [exact A|]. exact (later_step W s1 s' a s'' (IH A) Hs). Qed.

(* the real-time order across the fast paths, spelled out: x was pushed before thread t made the tail test of a fast path
   (so before the call of t began, if x's submission had returned by then).  Whatever is acquired after that test --
   in particular the item of t's own call -- is acquired only after x has finished when x is a barrier; and a barrier
   acquired after that test (dispatch_barrier_sync of t) is acquired only after x has finished, whatever x is. *)
Theorem fastpath_realtime_order W s t s' s2 x j : 2 <= W <= 4094 -> reach W s -> valid_tid t -> gstep W s t = Some s' ->
  ((pcs s t = S_tail /\ pcs s' t = S_rsv 0) \/ (pcs s t = B_tail /\ pcs s' t = B_acq) \/
   (exists q ovr, pcs s t = A_tail false q ovr /\ pcs s' t = A_acq q ovr)) ->
  later W s' s2 -> In x (pushed s) -> acquired s2 j -> ~ acquired s j ->
  (kinds s x = true \/ kinds s2 j = true) -> In x (finished s2).
Proof.
  intros HW R Vt Hs Hc L Hx Aj Nj K.
  pose proof (tail_test_sees_all_acquired W s t s' HW R Hs Hc x Hx) as Ax.
  assert (L0 : later W s s2) by (apply (later_trans W s s' s2); [|exact L]; apply (later_step W s s (AStep t) s' (later_refl W s)); split; assumption).
  destruct K as [K|K].
  - exact (later_items_wait_for_barrier W s s2 x j HW R L0 Ax K Aj Nj).
  - exact (barrier_waits_for_earlier_items W s s2 x j HW R L0 Ax Aj K Nj).
Qed.
