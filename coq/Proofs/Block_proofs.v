(* Block_proofs.v — invariants of the block-object model (Model/Block.v) for any number of threads, any number of
   invocations of the same object and any interleaving. *)
From Coq Require Import ZArith Bool List Lia.
From Verif Require Import Word Bits Conc Gen_consts Gen_fields Gen_group Gen_block Block.
Import ListNotations.
Local Open Scope Z_scope.

(* ---- the model's site lists are the ones the translator reads from the source ---- *)
Lemma sites_cancel : model_sites_cancel = dispatch_block_cancel_sites. Proof. reflexivity. Qed.
Lemma sites_testcancel : model_sites_testcancel = dispatch_block_testcancel_sites. Proof. reflexivity. Qed.
Lemma sites_wait : model_sites_wait = dispatch_block_wait_sites. Proof. reflexivity. Qed.
Lemma sites_notify : model_sites_notify = dispatch_block_notify_sites. Proof. reflexivity. Qed.
Lemma sites_invoke_direct : model_sites_invoke_direct = block_invoke_direct_sites. Proof. reflexivity. Qed.
Lemma sites_sync_invoke : model_sites_sync_invoke = block_sync_invoke_sites. Proof. reflexivity. Qed.
Lemma sites_async_invoke2 : model_sites_async_invoke2 = block_async_invoke2_sites. Proof. reflexivity. Qed.
Lemma sites_init_slow : model_sites_submit = block_init_slow_sites. Proof. reflexivity. Qed.
Lemma sites_sync_submit : model_sites_submit = firstn 3 block_sync_submit_sites. Proof. reflexivity. Qed.
Lemma sites_async_and_wait_submit : model_sites_submit = firstn 3 block_async_and_wait_submit_sites.
Proof. reflexivity. Qed.
Lemma consts_bits : CANCELED = 2 ^ 0 /\ WAITING = 2 ^ 1 /\ WAITED = 2 ^ 2 /\ PERFORM = 2 ^ 3 /\ NOT_WAITING = 4294967293.
Proof. repeat split. Qed.

(* ---- bits ---- *)
Lemma land_pow2 f k : 0 <= k -> Z.land f (2 ^ k) = if Z.testbit f k then 2 ^ k else 0.
Proof.
  intros Hk. apply Z.bits_inj'. intros n Hn. rewrite Z.land_spec, Z.pow2_bits_eqb by lia.
  destruct (Z.eqb_spec k n) as [->|Ne].
  - rewrite andb_true_r. destruct (Z.testbit f n) eqn:E.
    + rewrite Z.pow2_bits_eqb by lia. rewrite Z.eqb_refl. reflexivity.
    + rewrite Z.bits_0. reflexivity.
  - rewrite andb_false_r. destruct (Z.testbit f k).
    + rewrite Z.pow2_bits_eqb by lia. destruct (Z.eqb_spec k n); [contradiction|reflexivity].
    + rewrite Z.bits_0. reflexivity.
Qed.
Lemma hasb_bit f k : 0 <= k -> hasb f (2 ^ k) = Z.testbit f k.
Proof.
  intros Hk. unfold hasb. rewrite land_pow2 by exact Hk. destruct (Z.testbit f k); [|reflexivity].
  assert (0 < 2 ^ k) by (apply Z.pow_pos_nonneg; lia). destruct (Z.eqb_spec (2 ^ k) 0); [lia|reflexivity].
Qed.
Lemma hasb_C f : hasb f CANCELED = Z.testbit f 0. Proof. apply (hasb_bit f 0). lia. Qed.
Lemma hasb_W f : hasb f WAITING = Z.testbit f 1. Proof. apply (hasb_bit f 1). lia. Qed.
Lemma hasb_D f : hasb f WAITED = Z.testbit f 2. Proof. apply (hasb_bit f 2). lia. Qed.
Lemma hasb_P f : hasb f PERFORM = Z.testbit f 3. Proof. apply (hasb_bit f 3). lia. Qed.
Lemma hasb_lor f a b : hasb f (Z.lor a b) = hasb f a || hasb f b.
Proof.
  unfold hasb. rewrite Z.land_lor_distr_r.
  destruct (Z.eqb_spec (Z.land f a) 0) as [A|A], (Z.eqb_spec (Z.land f b) 0) as [B|B]; cbn;
    destruct (Z.eqb_spec (Z.lor (Z.land f a) (Z.land f b)) 0) as [E|E]; try reflexivity; exfalso.
  - apply E. rewrite A, B. reflexivity.
  - apply Z.lor_eq_0_iff in E. tauto.
  - apply Z.lor_eq_0_iff in E. tauto.
  - apply Z.lor_eq_0_iff in E. tauto.
Qed.
Lemma hasb_DW f : hasb f (Z.lor WAITED WAITING) = Z.testbit f 2 || Z.testbit f 1.
Proof. rewrite hasb_lor, hasb_D, hasb_W. reflexivity. Qed.

(* how the four modifications of the flags word act on each bit *)
Lemma bit_lor f m k : Z.testbit (Z.lor f m) k = Z.testbit f k || Z.testbit m k.
Proof. apply Z.lor_spec. Qed.
Lemma bit_land f m k : Z.testbit (Z.land f m) k = Z.testbit f k && Z.testbit m k.
Proof. apply Z.land_spec. Qed.
Ltac bits :=
  unfold CANCELED, WAITING, WAITED, PERFORM, NOT_WAITING, DBF_CANCELED, DBF_WAITING, DBF_WAITED, DBF_PERFORM, not32 in *;
  repeat rewrite bit_lor in *; repeat rewrite bit_land in *;
  repeat match goal with
  | |- context [Z.testbit ?c ?k] => lazymatch c with Zpos _ => let v := eval vm_compute in (Z.testbit c k) in change (Z.testbit c k) with v end
  | H : context [Z.testbit ?c ?k] |- _ => lazymatch c with Zpos _ => let v := eval vm_compute in (Z.testbit c k) in change (Z.testbit c k) with v in H end
  end;
  repeat rewrite orb_false_r in *; repeat rewrite orb_true_r in *; repeat rewrite andb_true_r in *; repeat rewrite andb_false_r in *.

(* ---- the global model moves threads by the conformance automaton ---- *)
Lemma gstep_tstep s t e s' : gstep s t e = Some s' -> tstep t (pcs s t) e = Some (pcs s' t).
Proof.
  unfold gstep. destruct (disposed s && negb (is_dtor_of s t && negb (pc_idle (pcs s t)))); [discriminate|].
  destruct (tstep t (pcs s t) e) as [p'|]; [|discriminate]. intros Hs. f_equal.
  destruct (pcs s t); cbv zeta in Hs;
    repeat match type of Hs with
    | (if ?c then _ else _) = Some _ => destruct c; try discriminate
    | (match ?x with _ => _ end) = Some _ => destruct x; try discriminate
    end; try discriminate; injection Hs as <-;
    unfold entry_fx, leave_fx, notify_fx, take_queue, sub_pend, set_pend;
    repeat match goal with |- context [if ?c then _ else _] => destruct c end; cbn; rewrite upd_same; reflexivity.
Qed.

(* ---- the steps of the global model as rules (gstep_gs below: every step of gstep is one of them) ---- *)
Definition sub_next (v : variant) : pc := match v with VSync => PInvRead VSync | _ => PRet 0 end.
Definition grp_noise (p : pc) : Prop :=
  (exists v, p = PPost v true) \/ (exists tmo, p = PWaitG tmo) \/ p = PNotifyG \/ p = PDtorPost.
Definition rm (t : Z) (l : list Z) : list Z := remove Z.eq_dec t l.

Inductive gs (s : gst) (t : Z) : gst -> Prop :=
| G_call op arg p : pcs s t = PIdle -> call_entry op arg = Some p -> op <> OP_RELEASE -> gs s t (set_pc s t p)
| G_entry v n : (pcs s t = PIdle /\ v = VAsync /\ 0 < pendsub s /\ n = pendsub s - 1) \/ (pcs s t = PInvRead v /\ n = pendsub s) ->
    gs s t (entry_fx (set_pend (set_pc s t (inv_entry v (flags s))) n) (flags s))
| G_ret r : pcs s t = PRet r -> gs s t (set_pc s t PIdle)
| G_retain v : pcs s t = PSubmit v -> gs s t (set_qref (set_pc s t (PSubmitCas v)) (qref s + 2) (t :: hands s))
| G_cas_ok v dq : pcs s t = PSubmitCas v -> queue s = 0 -> dq <> 0 ->
    gs s t (sub_pend v (set_qref (set_queue (set_pc s t (sub_next v)) dq) (qref s) (rm t (hands s))))
| G_cas_fail v : pcs s t = PSubmitCas v -> queue s <> 0 -> gs s t (set_pc s t (PSubmitRel v))
| G_subrel v : pcs s t = PSubmitRel v ->
    gs s t (sub_pend v (set_qref (set_pc s t (sub_next v)) (qref s - 2) (rm t (hands s))))
| G_setthread f x : pcs s t = PSetThread f -> gs s t (set_thread (set_pc s t (PBodyNext VDirect f)) x)
| G_begin v f : pcs s t = PBodyNext v f -> gs s t (set_run (set_pc s t (PInBody v f)) (bodies s + 1) (fin s))
| G_end v f : pcs s t = PInBody v f -> gs s t (set_run (set_pc s t (after_body v f)) (bodies s) (fin s + 1))
| G_inc v : pcs s t = PInc v ->
    gs s t (set_perf (set_pc s t (if wrapsz 4 (performed s + 1) =? 1 then PLeave v else PPost v false))
              (wrapsz 4 (performed s + 1)) (ninv s + 1))
| G_leave v : pcs s t = PLeave v -> hasgrp s = true -> gcount s <> 0 -> gs s t (leave_fx (set_pc s t (PPost v true)))
| G_leave_crash v : pcs s t = PLeave v -> hasgrp s = true -> gcount s = 0 -> gs s t (set_pc s t PCrash)
| G_noise : grp_noise (pcs s t) -> (pcs s t = PNotifyG \/ (exists tmo, pcs s t = PWaitG tmo) -> hasgrp s = true) ->
    gs s t (set_pc s t (pcs s t))
| G_post_ret g : pcs s t = PPost VDirect g -> gs s t (set_pc s t PIdle)
| G_post_xchg v g : pcs s t = PPost v g -> v <> VDirect ->
    gs s t (take_queue (set_pc s t (if queue s =? 0 then post_end v else PRel v)) t)
| G_rel v : pcs s t = PRel v -> gs s t (set_qref (set_pc s t (post_end v)) (qref s - 2) (rm t (hands s)))
| G_cancel : pcs s t = PCancel -> gs s t (set_flags (set_pc s t (PRet 0)) (Z.lor (flags s) CANCELED) true (waiter s))
| G_test : pcs s t = PTestRead -> gs s t (set_pc s t (PRet (b2z (hasb (flags s) CANCELED))))
| G_wait_or tmo : pcs s t = PWaitOr tmo ->
    gs s t (set_flags (set_pc s t (if hasb (flags s) (Z.lor WAITED WAITING) then PCrash else PWaitXchg tmo))
              (Z.lor (flags s) WAITING) (cancelled s)
              (if hasb (flags s) (Z.lor WAITED WAITING) then waiter s else Some t))
| G_wait_xchg tmo : pcs s t = PWaitXchg tmo ->
    gs s t (take_queue (set_pc s t (if queue s =? 0 then PWaitThread tmo 0 else PWaitWake tmo (queue s))) t)
| G_wait_wake tmo bq : pcs s t = PWaitWake tmo bq ->
    gs s t (set_qref (set_pc s t (PWaitThread tmo bq)) (qref s - 2) (rm t (hands s)))
| G_wait_thread tmo bq : pcs s t = PWaitThread tmo bq -> gs s t (set_pc s t (PWaitPerf tmo bq (thread s)))
| G_wait_perf tmo bq bt p : pcs s t = PWaitPerf tmo bq bt -> p = PCrash \/ p = PWaitG tmo -> gs s t (set_pc s t p)
| G_waitret0 tmo : pcs s t = PWaitG tmo -> hasgrp s = true -> gcount s = 0 -> gs s t (set_pc s t (PWaitOut 0))
| G_waitret1 tmo : pcs s t = PWaitG tmo -> hasgrp s = true -> tmo <> FOREVER -> gs s t (set_pc s t (PWaitOut 1))
| G_wait_out r : pcs s t = PWaitOut r ->
    gs s t (set_flags (set_pc s t (PRet (if r =? 0 then 0 else 1)))
              (if r =? 0 then Z.lor (flags s) WAITED else Z.land (flags s) NOT_WAITING) (cancelled s) None)
| G_notify_perf p : pcs s t = PNotifyPerf -> p = PCrash \/ p = PNotifyG -> gs s t (set_pc s t p)
| G_notify : pcs s t = PNotifyG -> hasgrp s = true -> gs s t (notify_fx (set_pc s t (PRet 0)))
(* the end of the object's life *)
| G_release : pcs s t = PIdle -> active s = [] -> hasgrp s = true -> pendsub s = 0 -> disposed s = false ->
    gs s t (set_life (set_pc s t PDtorPerf) (pendsub s) true (Some t) (dleave s))
| G_dtor_perf : pcs s t = PDtorPerf ->
    gs s t (set_pc s t (if performed s =? 0 then PDtorLeave else PDtorPost))
| G_dtor_leave : pcs s t = PDtorLeave -> hasgrp s = true -> gcount s <> 0 ->
    gs s t (let s2 := leave_fx (set_pc s t PDtorPost) in set_life s2 (pendsub s2) (disposed s2) (dtor s2) true)
| G_dtor_leave_crash : pcs s t = PDtorLeave -> hasgrp s = true -> gcount s = 0 -> gs s t (set_pc s t PCrash)
| G_dtor_queue : pcs s t = PDtorPost ->
    gs s t (take_queue (set_pc s t (if queue s =? 0 then PRet 0 else PDtorRel)) t)
| G_dtor_rel : pcs s t = PDtorRel -> gs s t (set_qref (set_pc s t (PRet 0)) (qref s - 2) (rm t (hands s))).

Lemma wrap_inc a : wrapsz 4 (a + 1) = wrapsz 4 (u32 a + 1).
Proof. unfold wrapsz, u32. change (2 ^ (8 * 4)) with 4294967296. rewrite Zplus_mod_idemp_l. reflexivity. Qed.

Ltac split_ands H :=
  repeat match type of H with
  | (_ && _) = true => let H1 := fresh H in apply andb_true_iff in H as [H H1]; try split_ands H1
  end.

Lemma gstep_gs s t e s' : gstep s t e = Some s' -> gs s t s'.
Proof.
  intros Hs. unfold gstep in Hs.
  destruct (disposed s && negb (is_dtor_of s t && negb (pc_idle (pcs s t)))) eqn:Hal; [discriminate|].
  destruct (tstep t (pcs s t) e) as [p'|] eqn:Hts; [|discriminate]. cbv zeta in Hs.
  unfold tstep in Hts. destruct (is_grp e) eqn:Hg.
  - (* events on the private group's word *)
    unfold tstep_grp in Hts. destruct (pcs s t) eqn:Hpc; try discriminate.
    + (* PLeave *)
      destruct (ev_is e DV_ADD MO_RELEASE 0 && (eb e =? G_INTERVAL) && (esz e =? 8)); [|discriminate].
      injection Hts as <-.
      destruct (hasgrp s) eqn:Hh; [|discriminate]. cbn [andb] in Hs.
      destruct (Z.land (ea e) G_VALUE_MASK =? 0) eqn:E1, (gcount s =? 0) eqn:E2; cbn in Hs; try discriminate;
        injection Hs as <-.
      * apply (G_leave_crash s t v); auto. apply Z.eqb_eq. exact E2.
      * apply (G_leave s t v); auto. apply Z.eqb_neq. exact E2.
    + (* PPost v true *)
      destruct g; [|discriminate]. destruct (raw e); [|discriminate]. injection Hts as <-. injection Hs as <-.
      rewrite <- Hpc. apply G_noise.
      * left. exists v. exact Hpc.
      * intros [X|[? X]]; rewrite Hpc in X; discriminate.
    + (* PWaitG *)
      destruct (hasgrp s) eqn:Hh; [|discriminate].
      destruct (ek e =? DVG_WAITRET) eqn:K.
      * destruct ((ea e =? 0) || ((ea e =? 1) && negb (tmo =? FOREVER))) eqn:C; [|discriminate]. injection Hts as <-.
        cbn [andb] in Hs. destruct (ea e =? 0) eqn:A.
        -- destruct (gcount s =? 0) eqn:E2; [|discriminate]. injection Hs as <-. apply Z.eqb_eq in A. rewrite A.
           apply (G_waitret0 s t tmo); auto. apply Z.eqb_eq. exact E2.
        -- injection Hs as <-. cbn [orb] in C. apply andb_true_iff in C as [C1 C2]. apply Z.eqb_eq in C1. rewrite C1.
           apply (G_waitret1 s t tmo); auto. apply negb_true_iff in C2. apply Z.eqb_neq. exact C2.
      * destruct (raw e); [|discriminate]. injection Hts as <-. cbn [andb] in Hs. injection Hs as <-.
        rewrite <- Hpc. apply G_noise; [right; left; exists tmo; exact Hpc | auto].
    + (* PNotifyG *)
      destruct (hasgrp s) eqn:Hh; [|discriminate].
      destruct (ek e =? DVG_NOTIFY) eqn:K.
      * injection Hts as <-. injection Hs as <-. apply G_notify; auto.
      * destruct (raw e); [|discriminate]. injection Hts as <-. injection Hs as <-.
        rewrite <- Hpc. apply G_noise; [right; right; left; exact Hpc | auto].
    + (* PDtorLeave *)
      destruct (ev_is e DV_ADD MO_RELEASE 0 && (eb e =? G_INTERVAL) && (esz e =? 8)); [|discriminate].
      injection Hts as <-.
      destruct (hasgrp s) eqn:Hh; [|discriminate]. cbn [andb] in Hs.
      destruct (Z.land (ea e) G_VALUE_MASK =? 0) eqn:E1, (gcount s =? 0) eqn:E2; cbn in Hs; try discriminate;
        injection Hs as <-.
      * apply (G_dtor_leave_crash s t); auto. apply Z.eqb_eq. exact E2.
      * apply (G_dtor_leave s t); auto. apply Z.eqb_neq. exact E2.
    + (* PDtorPost: noise *)
      destruct (raw e); [|discriminate]. injection Hts as <-. injection Hs as <-.
      rewrite <- Hpc. apply G_noise.
      * right; right; right. exact Hpc.
      * intros [X|[? X]]; rewrite Hpc in X; discriminate.
  - destruct (pcs s t) eqn:Hpc; try discriminate.
    + (* PIdle *)
      destruct (ev_kind e DVU_CALL) eqn:K.
      * destruct (Z.eqb_spec (ea e) OP_RELEASE) as [Er|Er].
        -- assert (Ep : p' = PDtorPerf) by (rewrite Er in Hts; cbn in Hts; congruence). subst p'.
           destruct (active s) eqn:Ea; [|discriminate]. destruct (hasgrp s) eqn:Hh; [|discriminate].
           destruct (Z.eqb_spec (pendsub s) 0) as [Ez|]; [|discriminate]. cbn [andb] in Hs. injection Hs as <-.
           apply G_release; auto. destruct (disposed s); [|reflexivity]. cbn in Hal. rewrite andb_false_r in Hal. discriminate Hal.
        -- injection Hs as <-. eapply G_call; eauto.
      * destruct (ev_is e DV_LOAD MO_PLAIN OFF_FLAGS); [|discriminate]. injection Hts as <-.
        destruct (Z.eqb_spec (ea e) (flags s)) as [Ea|]; [|discriminate]. cbn [andb] in Hs.
        destruct (Z.ltb_spec 0 (pendsub s)) as [Lp|]; [|discriminate]. injection Hs as <-. rewrite ?Ea.
        apply (G_entry s t VAsync (pendsub s - 1)). left. auto.
    + (* PRet *)
      destruct (ev_kind e DVU_RET && (b2z (nz (ea e)) =? r)); [|discriminate]. injection Hts as <-. injection Hs as <-.
      eapply G_ret; eauto.
    + (* PSubmit *)
      destruct (ev_kind e DVQ_RETAIN2); [|discriminate]. injection Hts as <-. injection Hs as <-. apply G_retain; auto.
    + (* PSubmitCas *)
      destruct (ev_is e DV_CAS MO_RELAXED OFF_QUEUE && (esz e =? 8) && negb (eb e =? 0)) eqn:C; [|discriminate].
      apply andb_true_iff in C as [_ C]. apply negb_true_iff in C. apply Z.eqb_neq in C. injection Hts as <-.
      destruct ((ea e =? queue s) && (eok e =? (if queue s =? 0 then 1 else 0))) eqn:C2; [|discriminate].
      apply andb_true_iff in C2 as [_ C2]. apply Z.eqb_eq in C2.
      destruct (Z.eqb_spec (queue s) 0) as [Q|Q]; injection Hs as <-; rewrite C2; cbn [Z.eqb Pos.eqb].
      * apply (G_cas_ok s t v (eb e)); auto.
      * apply G_cas_fail; auto.
    + (* PSubmitRel *)
      destruct (ev_kind e DVQ_RELEASE2); [|discriminate]. injection Hts as <-. injection Hs as <-. apply G_subrel; auto.
    + (* PInvRead *)
      destruct (ev_is e DV_LOAD MO_PLAIN OFF_FLAGS); [|discriminate]. injection Hts as <-.
      destruct (Z.eqb_spec (ea e) (flags s)) as [Ea|]; [|discriminate]. injection Hs as <-. rewrite ?Ea.
      apply (G_entry s t v (pendsub s)). right. auto.
    + (* PSetThread *)
      destruct (ev_is e DV_STORE MO_PLAIN OFF_THREAD && (eb e =? t)); [|discriminate]. injection Hts as <-.
      injection Hs as <-. apply G_setthread; auto.
    + destruct (ev_kind e DVU_CALLOUT_BEGIN); [|discriminate]. injection Hts as <-. injection Hs as <-. apply G_begin; auto.
    + destruct (ev_kind e DVU_CALLOUT_END); [|discriminate]. injection Hts as <-. injection Hs as <-. apply G_end; auto.
    + (* PInc *)
      destruct (ev_is e DV_ADD MO_RELAXED OFF_PERF && (eb e =? 1) && (esz e =? 4)); [|discriminate]. injection Hts as <-.
      destruct (Z.eqb_spec (u32 (ea e)) (performed s)) as [E|]; [|discriminate]. injection Hs as <-.
      rewrite (wrap_inc (ea e)). rewrite E. apply G_inc; auto.
    + (* PPost *)
      destruct v.
      * destruct (ev_kind e DVU_RET && (ea e =? 0)); [|discriminate]. injection Hts as <-. injection Hs as <-.
        eapply G_post_ret; eauto.
      * destruct (ev_is e DV_XCHG MO_RELAXED OFF_QUEUE && (eb e =? 0) && (esz e =? 8)); [|discriminate]. injection Hts as <-.
        destruct (Z.eqb_spec (ea e) (queue s)) as [Ea|]; [|discriminate]. injection Hs as <-. rewrite ?Ea.
        apply (G_post_xchg s t VSync g); auto. discriminate.
      * destruct (ev_is e DV_XCHG MO_RELAXED OFF_QUEUE && (eb e =? 0) && (esz e =? 8)); [|discriminate]. injection Hts as <-.
        destruct (Z.eqb_spec (ea e) (queue s)) as [Ea|]; [|discriminate]. injection Hs as <-. rewrite ?Ea.
        apply (G_post_xchg s t VAsync g); auto. discriminate.
    + (* PRel *)
      destruct (ev_kind e DVQ_RELEASE2); [|discriminate]. injection Hts as <-. injection Hs as <-. apply G_rel; auto.
    + (* PCancel *)
      destruct (ev_is e DV_OR MO_RELAXED OFF_FLAGS && (eb e =? CANCELED) && (esz e =? 4)); [|discriminate]. injection Hts as <-.
      destruct (Z.eqb_spec (ea e) (flags s)) as [Ea|]; [|discriminate]. injection Hs as <-. rewrite ?Ea. apply G_cancel; auto.
    + (* PTestRead *)
      destruct (ev_is e DV_LOAD MO_PLAIN OFF_FLAGS); [|discriminate]. injection Hts as <-.
      destruct (Z.eqb_spec (ea e) (flags s)) as [Ea|]; [|discriminate]. injection Hs as <-. rewrite ?Ea. apply G_test; auto.
    + (* PWaitOr *)
      destruct (ev_is e DV_OR MO_RELAXED OFF_FLAGS && (eb e =? WAITING) && (esz e =? 4)); [|discriminate]. injection Hts as <-.
      destruct (Z.eqb_spec (ea e) (flags s)) as [Ea|]; [|discriminate]. injection Hs as <-. rewrite ?Ea. apply G_wait_or; auto.
    + (* PWaitXchg *)
      destruct (ev_is e DV_XCHG MO_RELAXED OFF_QUEUE && (eb e =? 0) && (esz e =? 8)); [|discriminate]. injection Hts as <-.
      destruct (Z.eqb_spec (ea e) (queue s)) as [Ea|]; [|discriminate]. injection Hs as <-. rewrite ?Ea. apply G_wait_xchg; auto.
    + (* PWaitWake *)
      destruct (ev_kind e DVQ_RELEASE2); [|discriminate]. injection Hts as <-. injection Hs as <-. apply G_wait_wake; auto.
    + (* PWaitThread *)
      destruct (ev_is e DV_LOAD MO_PLAIN OFF_THREAD); [|discriminate]. injection Hts as <-.
      destruct (Z.eqb_spec (ea e) (thread s)) as [Ea|]; [|discriminate]. injection Hs as <-. rewrite ?Ea. apply G_wait_thread; auto.
    + (* PWaitPerf *)
      destruct (ev_is e DV_LOAD MO_RELAXED OFF_PERF && (esz e =? 4)); [|discriminate]. injection Hts as <-.
      destruct (u32 (ea e) =? performed s); [|discriminate]. injection Hs as <-.
      apply (G_wait_perf s t tmo bq bt); auto. destruct ((1 <? s32 (ea e)) || (nz bt && nz bq)); auto.
    + (* PWaitOut *)
      destruct (r =? 0) eqn:R.
      * destruct (ev_is e DV_OR MO_RELAXED OFF_FLAGS && (eb e =? WAITED) && (esz e =? 4)); [|discriminate]. injection Hts as <-.
        destruct (Z.eqb_spec (ea e) (flags s)) as [Ea|]; [|discriminate]. injection Hs as <-. rewrite ?Ea.
        pose proof (G_wait_out s t r Hpc) as G. rewrite R in G. exact G.
      * destruct (ev_is e DV_AND MO_RELAXED OFF_FLAGS && (eb e =? NOT_WAITING) && (esz e =? 4)); [|discriminate].
        injection Hts as <-. destruct (Z.eqb_spec (ea e) (flags s)) as [Ea|]; [|discriminate]. injection Hs as <-. rewrite ?Ea.
        pose proof (G_wait_out s t r Hpc) as G. rewrite R in G. exact G.
    + (* PNotifyPerf *)
      destruct (ev_is e DV_LOAD MO_RELAXED OFF_PERF && (esz e =? 4)); [|discriminate]. injection Hts as <-.
      destruct (u32 (ea e) =? performed s); [|discriminate]. injection Hs as <-.
      apply G_notify_perf; auto. destruct (1 <? s32 (ea e)); auto.
    + (* PDtorPerf *)
      destruct (ev_is e DV_LOAD MO_PLAIN OFF_PERF); [|discriminate]. injection Hts as <-.
      destruct (Z.eqb_spec (u32 (ea e)) (performed s)) as [E|]; [|discriminate]. injection Hs as <-. rewrite E.
      apply G_dtor_perf; auto.
    + (* PDtorPost: the plain read of dbpd_queue *)
      destruct (ev_is e DV_LOAD MO_PLAIN OFF_QUEUE); [|discriminate]. injection Hts as <-.
      destruct (Z.eqb_spec (ea e) (queue s)) as [Ea|]; [|discriminate]. injection Hs as <-. rewrite ?Ea.
      apply G_dtor_queue; auto.
    + (* PDtorRel *)
      destruct (ev_kind e DVQ_RELEASE2); [|discriminate]. injection Hts as <-. injection Hs as <-. apply G_dtor_rel; auto.
Qed.

(* after the last reference is gone only the destroying thread moves, and only while it is inside the release *)
Lemma gstep_alive s t e s' : gstep s t e = Some s' ->
  disposed s = false \/ (dtor s = Some t /\ pc_idle (pcs s t) = false).
Proof.
  unfold gstep. destruct (disposed s); [|auto]. cbn [andb]. unfold is_dtor_of.
  destruct (dtor s) as [d|]; [|discriminate]. destruct (Z.eqb_spec d t) as [->|]; [|discriminate]. cbn [andb].
  destruct (pc_idle (pcs s t)); [discriminate|]. auto.
Qed.

Ltac sf := cbn [flags performed queue thread hasgrp gcount pending pcs cancelled bodies fin ninv leaves nreg fcnt waiter
  qref hands active pendsub disposed dtor dleave set_pc set_flags set_perf set_queue set_thread set_run set_grp set_qref
  set_life set_pend sub_pend] in *.
Ltac unfx := unfold entry_fx, leave_fx, notify_fx, take_queue in *.

Lemma call_entry_cases op arg p : call_entry op arg = Some p -> op <> OP_RELEASE ->
  p = PInvRead VDirect \/ p = PSubmit VSync \/ p = PSubmit VAsync \/ p = PCancel \/ p = PTestRead \/
  p = PWaitOr arg \/ p = PNotifyPerf.
Proof.
  unfold call_entry. intros H Hr.
  repeat match type of H with (if ?c then _ else _) = _ => destruct c eqn:? end; inversion H; try tauto.
  exfalso. apply Hr. apply Z.eqb_eq. assumption.
Qed.

(* ================= invariant A: flag bits, counters, the group count ================= *)
Definition tinvA (s : gst) (t : Z) : Prop :=
  match pcs s t with
  | PSetThread f | PBodyNext _ f | PInBody _ f => Z.testbit f 3 = negb (hasgrp s) /\ Z.testbit f 0 = false
  | PInc _ => 1 <= fin s /\ hasgrp s = true
  | PLeave _ => 1 <= ninv s /\ hasgrp s = true
  | _ => True
  end.
Definition InvA (s : gst) : Prop :=
  (cancelled s = true -> Z.testbit (flags s) 0 = true) /\
  Z.testbit (flags s) 3 = negb (hasgrp s) /\
  0 <= bodies s /\ 0 <= fin s /\ 0 <= ninv s /\ (1 <= ninv s -> 1 <= fin s) /\
  performed s = ninv s mod 4294967296 /\
  (if hasgrp s then gcount s + leaves s = 1 /\ 0 <= leaves s <= 1 /\ (leaves s = 1 -> 1 <= ninv s \/ dleave s = true)
   else gcount s = 0 /\ leaves s = 0 /\ ninv s = 0) /\
  forall u, tinvA s u.

Lemma InvA_init pf : InvA (init_state pf).
Proof.
  unfold InvA, init_state, tinvA. cbn. repeat split; try lia; try discriminate.
  - destruct pf; reflexivity.
  - destruct pf; cbn; repeat split; lia.
Qed.

Lemma tinvA_other s s' t u : u <> t -> pcs s' u = pcs s u -> hasgrp s' = hasgrp s -> fin s <= fin s' ->
  ninv s <= ninv s' -> tinvA s u -> tinvA s' u.
Proof.
  unfold tinvA. intros _ -> -> Hf Hn. destruct (pcs s u); auto; intros [A B]; split; auto; lia.
Qed.

Lemma after_body_A (s : gst) v f (F : Z) : Z.testbit f 3 = negb (hasgrp s) -> 1 <= F ->
  match after_body v f with PInc _ => 1 <= F /\ hasgrp s = true | PSetThread _ | PBodyNext _ _ | PInBody _ _ => False
  | PLeave _ => False | _ => True end.
Proof.
  intros H HF. unfold after_body. rewrite hasb_P, H. destruct (hasgrp s); cbn; auto.
Qed.

Lemma InvA_step s t s' : gs s t s' -> InvA s -> InvA s'.
Proof.
  intros G (I1 & I2 & I3 & I4 & I5 & I6 & I7 & I8 & IT).
  pose proof (IT t) as It. unfold tinvA in It.
  (* the part of the proof common to every rule: threads other than t *)
  assert (OT : forall s2, hasgrp s2 = hasgrp s -> fin s <= fin s2 -> ninv s <= ninv s2 ->
               (forall u, u <> t -> pcs s2 u = pcs s u) -> forall u, u <> t -> tinvA s2 u).
  { intros s2 H1 H2 H3 H4 u Ne. apply (tinvA_other s s2 t u); auto. }
  destruct G.
  - (* call *) unfold InvA; sf. repeat split; auto.
    intros u. destruct (Z.eq_dec u t) as [->|Ne].
    + unfold tinvA; sf. rewrite upd_same.
      destruct (call_entry_cases _ _ _ H0 H1) as [->|[->|[->|[->|[->|[->| ->]]]]]]; exact I.
    + apply OT; sf; auto; try lia. intros; apply upd_other; auto.
  - (* entry: the single read of the flags *)
    unfold entry_fx. destruct (hasb (flags s) WAITED) eqn:HD.
    + unfold InvA; sf. repeat split; auto.
      intros u. destruct (Z.eq_dec u t) as [->|Ne].
      * unfold tinvA, inv_entry; sf. rewrite upd_same, HD. exact I.
      * apply OT; sf; auto; try lia. intros; apply upd_other; auto.
    + destruct (hasb (flags s) CANCELED) eqn:HC.
      * unfold InvA; sf. repeat split; auto; try lia.
        intros u. destruct (Z.eq_dec u t) as [->|Ne].
        -- unfold tinvA, inv_entry; sf. rewrite upd_same, HD, HC.
           assert (AB := after_body_A s v (flags s) (fin s + 1) I2 ltac:(lia)).
           destruct (after_body v (flags s)); try exact I; try contradiction; exact AB.
        -- apply OT; sf; auto; try lia. intros; apply upd_other; auto.
      * unfold InvA; sf. repeat split; auto.
        intros u. destruct (Z.eq_dec u t) as [->|Ne].
        -- unfold tinvA, inv_entry; sf. rewrite upd_same, HD, HC. rewrite hasb_C in HC.
           destruct v; split; auto.
        -- apply OT; sf; auto; try lia. intros; apply upd_other; auto.
  - (* ret *) unfold InvA; sf. repeat split; auto.
    intros u. destruct (Z.eq_dec u t) as [->|Ne]; [unfold tinvA; sf; rewrite upd_same; exact I|].
    apply OT; sf; auto; try lia. intros; apply upd_other; auto.
  - (* retain *) unfold InvA; sf. repeat split; auto.
    intros u. destruct (Z.eq_dec u t) as [->|Ne]; [unfold tinvA; sf; rewrite upd_same; exact I|].
    apply OT; sf; auto; try lia. intros; apply upd_other; auto.
  - (* cas ok *) unfold InvA; sf. repeat split; auto.
    intros u. destruct (Z.eq_dec u t) as [->|Ne]; [unfold tinvA; sf; rewrite upd_same; destruct v; exact I|].
    apply OT; sf; auto; try lia. intros; apply upd_other; auto.
  - (* cas fail *) unfold InvA; sf. repeat split; auto.
    intros u. destruct (Z.eq_dec u t) as [->|Ne]; [unfold tinvA; sf; rewrite upd_same; exact I|].
    apply OT; sf; auto; try lia. intros; apply upd_other; auto.
  - (* submit release *) unfold InvA; sf. repeat split; auto.
    intros u. destruct (Z.eq_dec u t) as [->|Ne]; [unfold tinvA; sf; rewrite upd_same; destruct v; exact I|].
    apply OT; sf; auto; try lia. intros; apply upd_other; auto.
  - (* set thread *) rewrite H in It. unfold InvA; sf. repeat split; auto.
    intros u. destruct (Z.eq_dec u t) as [->|Ne]; [unfold tinvA; sf; rewrite upd_same; exact It|].
    apply OT; sf; auto; try lia. intros; apply upd_other; auto.
  - (* body begins *) rewrite H in It. unfold InvA; sf. repeat split; auto; try lia.
    intros u. destruct (Z.eq_dec u t) as [->|Ne]; [unfold tinvA; sf; rewrite upd_same; exact It|].
    apply OT; sf; auto; try lia. intros; apply upd_other; auto.
  - (* body ends *) rewrite H in It. destruct It as [It1 It2]. unfold InvA; sf. repeat split; auto; try lia.
    intros u. destruct (Z.eq_dec u t) as [->|Ne].
    + unfold tinvA; sf. rewrite upd_same.
      assert (AB := after_body_A s v f (fin s + 1) It1 ltac:(lia)).
      destruct (after_body v f); try exact I; try contradiction; exact AB.
    + apply OT; sf; auto; try lia. intros; apply upd_other; auto.
  - (* inc *) rewrite H in It. destruct It as [It1 It2]. rewrite It2 in I8.
    unfold InvA; sf. rewrite It2. rewrite It2 in I2. repeat split; auto; try lia.
    + unfold wrapsz. change (2 ^ (8 * 4)) with 4294967296. rewrite I7. rewrite Zplus_mod_idemp_l. reflexivity.
    + intros u. destruct (Z.eq_dec u t) as [->|Ne].
      * unfold tinvA; sf. rewrite upd_same. destruct (wrapsz 4 (performed s + 1) =? 1); [split; auto; lia | exact I].
      * apply OT; sf; auto; try lia. intros; apply upd_other; auto.
  - (* leave *) rewrite H in It. destruct It as [It1 It2]. rewrite H0 in I8. destruct I8 as (G1 & G2 & G3).
    rewrite H0 in I2. unfold leave_fx; sf.
    destruct (gcount s - 1 =? 0); unfold InvA; sf; rewrite H0; (repeat split; auto; try lia);
      intros u; (destruct (Z.eq_dec u t) as [->|Ne]; [unfold tinvA; sf; rewrite upd_same; exact I|]);
      apply OT; sf; auto; try lia; intros; apply upd_other; auto.
  - (* leave on a zero count: crash *) unfold InvA; sf. repeat split; auto.
    intros u. destruct (Z.eq_dec u t) as [->|Ne]; [unfold tinvA; sf; rewrite upd_same; exact I|].
    apply OT; sf; auto; try lia. intros; apply upd_other; auto.
  - (* group noise *) unfold InvA; sf. repeat split; auto.
    intros u. destruct (Z.eq_dec u t) as [->|Ne].
    + unfold tinvA; sf. rewrite upd_same. exact It.
    + apply OT; sf; auto; try lia. intros; apply upd_other; auto.
  - (* direct: return *) unfold InvA; sf. repeat split; auto.
    intros u. destruct (Z.eq_dec u t) as [->|Ne]; [unfold tinvA; sf; rewrite upd_same; exact I|].
    apply OT; sf; auto; try lia. intros; apply upd_other; auto.
  - (* xchg of dbpd_queue after the completion *)
    unfold take_queue; sf.
    destruct (queue s =? 0); unfold InvA; sf; (repeat split; auto);
      intros u; (destruct (Z.eq_dec u t) as [->|Ne]; [unfold tinvA; sf; rewrite upd_same; destruct v; try exact I; contradiction|]);
      apply OT; sf; auto; try lia; intros; apply upd_other; auto.
  - (* release *) unfold InvA; sf. repeat split; auto.
    intros u. destruct (Z.eq_dec u t) as [->|Ne]; [unfold tinvA; sf; rewrite upd_same; destruct v; exact I|].
    apply OT; sf; auto; try lia. intros; apply upd_other; auto.
  - (* cancel *) unfold InvA; sf. repeat split; auto.
    + intros _. bits. reflexivity.
    + rewrite <- I2. bits. reflexivity.
    + intros u. destruct (Z.eq_dec u t) as [->|Ne]; [unfold tinvA; sf; rewrite upd_same; exact I|].
      apply OT; sf; auto; try lia. intros; apply upd_other; auto.
  - (* testcancel *) unfold InvA; sf. repeat split; auto.
    intros u. destruct (Z.eq_dec u t) as [->|Ne]; [unfold tinvA; sf; rewrite upd_same; exact I|].
    apply OT; sf; auto; try lia. intros; apply upd_other; auto.
  - (* wait: or-orig WAITING *) unfold InvA; sf. repeat split; auto.
    + intros C. specialize (I1 C). bits. exact I1.
    + rewrite <- I2. bits. reflexivity.
    + intros u. destruct (Z.eq_dec u t) as [->|Ne];
        [unfold tinvA; sf; rewrite upd_same; destruct (hasb (flags s) (Z.lor WAITED WAITING)); exact I|].
      apply OT; sf; auto; try lia. intros; apply upd_other; auto.
  - (* wait: xchg *) unfold take_queue; sf.
    destruct (queue s =? 0); unfold InvA; sf; (repeat split; auto);
      intros u; (destruct (Z.eq_dec u t) as [->|Ne]; [unfold tinvA; sf; rewrite upd_same; exact I|]);
      apply OT; sf; auto; try lia; intros; apply upd_other; auto.
  - (* wait: wake *) unfold InvA; sf. repeat split; auto.
    intros u. destruct (Z.eq_dec u t) as [->|Ne]; [unfold tinvA; sf; rewrite upd_same; exact I|].
    apply OT; sf; auto; try lia. intros; apply upd_other; auto.
  - (* wait: thread *) unfold InvA; sf. repeat split; auto.
    intros u. destruct (Z.eq_dec u t) as [->|Ne]; [unfold tinvA; sf; rewrite upd_same; exact I|].
    apply OT; sf; auto; try lia. intros; apply upd_other; auto.
  - (* wait: performed *) unfold InvA; sf. repeat split; auto.
    intros u. destruct (Z.eq_dec u t) as [->|Ne]; [unfold tinvA; sf; rewrite upd_same; destruct H0 as [-> | ->]; exact I|].
    apply OT; sf; auto; try lia. intros; apply upd_other; auto.
  - (* group wait returns 0 *) unfold InvA; sf. repeat split; auto.
    intros u. destruct (Z.eq_dec u t) as [->|Ne]; [unfold tinvA; sf; rewrite upd_same; exact I|].
    apply OT; sf; auto; try lia. intros; apply upd_other; auto.
  - (* group wait times out *) unfold InvA; sf. repeat split; auto.
    intros u. destruct (Z.eq_dec u t) as [->|Ne]; [unfold tinvA; sf; rewrite upd_same; exact I|].
    apply OT; sf; auto; try lia. intros; apply upd_other; auto.
  - (* wait: way out *) unfold InvA; sf. repeat split; auto.
    + intros C. specialize (I1 C). destruct (r =? 0); bits; exact I1.
    + rewrite <- I2. destruct (r =? 0); bits; reflexivity.
    + intros u. destruct (Z.eq_dec u t) as [->|Ne]; [unfold tinvA; sf; rewrite upd_same; exact I|].
      apply OT; sf; auto; try lia. intros; apply upd_other; auto.
  - (* notify: performed *) unfold InvA; sf. repeat split; auto.
    intros u. destruct (Z.eq_dec u t) as [->|Ne]; [unfold tinvA; sf; rewrite upd_same; destruct H0 as [-> | ->]; exact I|].
    apply OT; sf; auto; try lia. intros; apply upd_other; auto.
  - (* notify takes effect *) unfold notify_fx; sf.
    destruct (gcount s =? 0); unfold InvA; sf; (repeat split; auto);
      intros u; (destruct (Z.eq_dec u t) as [->|Ne]; [unfold tinvA; sf; rewrite upd_same; exact I|]);
      apply OT; sf; auto; try lia; intros; apply upd_other; auto.
  - (* release of the last reference *) unfold InvA; sf. repeat split; auto.
    intros u. destruct (Z.eq_dec u t) as [->|Ne]; [unfold tinvA; sf; rewrite upd_same; exact I|].
    apply OT; sf; auto; try lia. intros; apply upd_other; auto.
  - (* destructor: performed? *) unfold InvA; sf. repeat split; auto.
    intros u. destruct (Z.eq_dec u t) as [->|Ne]; [unfold tinvA; sf; rewrite upd_same; destruct (performed s =? 0); exact I|].
    apply OT; sf; auto; try lia. intros; apply upd_other; auto.
  - (* destructor: leave *) rewrite H0 in I8, I2. destruct I8 as (G1 & G2 & G3).
    unfold leave_fx; sf.
    destruct (gcount s - 1 =? 0); cbv zeta; unfold InvA; sf; rewrite H0; (repeat split; auto; try lia);
      intros u; (destruct (Z.eq_dec u t) as [->|Ne]; [unfold tinvA; sf; rewrite upd_same; exact I|]);
      apply OT; sf; auto; try lia; intros; apply upd_other; auto.
  - (* destructor: leave on a zero count *) unfold InvA; sf. repeat split; auto.
    intros u. destruct (Z.eq_dec u t) as [->|Ne]; [unfold tinvA; sf; rewrite upd_same; exact I|].
    apply OT; sf; auto; try lia. intros; apply upd_other; auto.
  - (* destructor: dbpd_queue *) unfold take_queue; sf.
    destruct (queue s =? 0); unfold InvA; sf; (repeat split; auto);
      intros u; (destruct (Z.eq_dec u t) as [->|Ne]; [unfold tinvA; sf; rewrite upd_same; exact I|]);
      apply OT; sf; auto; try lia; intros; apply upd_other; auto.
  - (* destructor: release of the queue *) unfold InvA; sf. repeat split; auto.
    intros u. destruct (Z.eq_dec u t) as [->|Ne]; [unfold tinvA; sf; rewrite upd_same; exact I|].
    apply OT; sf; auto; try lia. intros; apply upd_other; auto.
Qed.

(* ================= invariant N: the notifications of the (abstract) private group ================= *)
Definition InvN (s : gst) : Prop :=
  0 <= nreg s /\ (forall i, 0 <= fcnt s i <= 1) /\
  (forall i, fcnt s i = 1 -> 0 <= i < nreg s /\ gcount s = 0) /\
  (forall i, In i (pending s) -> 0 <= i < nreg s /\ fcnt s i = 0) /\
  (forall i, 0 <= i < nreg s -> In i (pending s) \/ fcnt s i = 1) /\
  (gcount s = 0 -> pending s = []) /\
  (hasgrp s = false -> nreg s = 0).

Lemma InvN_init pf : InvN (init_state pf).
Proof. unfold InvN, init_state; cbn. repeat split; intros; try lia; try contradiction; discriminate. Qed.

Lemma InvN_ext s s' : nreg s' = nreg s -> fcnt s' = fcnt s -> pending s' = pending s -> gcount s' = gcount s ->
  hasgrp s' = hasgrp s -> InvN s -> InvN s'.
Proof. unfold InvN. intros -> -> -> -> ->. auto. Qed.

Lemma existsb_In i l : existsb (Z.eqb i) l = true <-> In i l.
Proof.
  rewrite existsb_exists. split.
  - intros (x & Hx & E). apply Z.eqb_eq in E. subst. exact Hx.
  - intros H. exists i. split; [exact H|apply Z.eqb_refl].
Qed.

Lemma InvN_leave_fx s : InvN s -> gcount s <> 0 -> InvN (leave_fx s).
Proof.
  intros N H1. pose proof N as (N0 & N1 & N2 & N3 & N4 & N5 & N6).
  unfold leave_fx; sf. destruct (Z.eqb_spec (gcount s - 1) 0) as [C|C]; unfold InvN; sf.
  + assert (Hf : forall i, fire (pending s) (fcnt s) i = if existsb (Z.eqb i) (pending s) then fcnt s i + 1 else fcnt s i)
        by reflexivity.
      split; [exact N0|]. split; [|split; [|split; [|split; [|split; [|exact N6]]]]].
    * intros i. rewrite Hf. destruct (existsb (Z.eqb i) (pending s)) eqn:E; [|apply N1].
        apply existsb_In in E. destruct (N3 i E) as [_ Z0]. lia.
    * intros i. rewrite Hf. destruct (existsb (Z.eqb i) (pending s)) eqn:E; intros F1.
      -- apply existsb_In in E. destruct (N3 i E) as [R _]. split; [exact R|exact C].
      -- destruct (N2 i F1) as [R _]. split; [exact R|exact C].
    * intros i [].
    * intros i R. right. rewrite Hf. destruct (existsb (Z.eqb i) (pending s)) eqn:E.
      -- apply existsb_In in E. destruct (N3 i E) as [_ Z0]. lia.
      -- destruct (N4 i R) as [X|X]; [|exact X]. apply existsb_In in X. congruence.
    * reflexivity.
  + split; [exact N0|]. split; [exact N1|]. split; [|split; [exact N3|split; [exact N4|split; [|exact N6]]]].
    * intros i F1. destruct (N2 i F1) as [_ X]. contradiction.
    * intros X. contradiction.
Qed.

Lemma InvN_step s t s' : gs s t s' -> InvN s -> InvN s'.
Proof.
  intros G N. pose proof N as (N0 & N1 & N2 & N3 & N4 & N5 & N6).
  destruct G; try (apply (InvN_ext s); [reflexivity..|exact N]);
    try (unfx; repeat match goal with |- context [if ?c then _ else _] => destruct c end;
         (apply (InvN_ext s); [reflexivity..|exact N])).
  - (* leave *)
    apply InvN_leave_fx; [apply (InvN_ext s); [reflexivity..|exact N] | exact H1].
  - (* notify takes effect *)
    assert (F0 : fcnt s (nreg s) = 0).
    { pose proof (N1 (nreg s)) as B. destruct (Z.eq_dec (fcnt s (nreg s)) 1) as [E|E]; [|lia].
      destruct (N2 _ E) as [R _]. lia. }
    unfold notify_fx; sf. destruct (Z.eqb_spec (gcount s) 0) as [C|C]; unfold InvN; sf.
    + split; [lia|]. split; [|split; [|split; [|split; [|split; [|intros X; congruence]]]]].
      * intros i. destruct (Z.eq_dec i (nreg s)) as [->|Ne]; [rewrite upd_same; lia | rewrite upd_other by exact Ne; apply N1].
      * intros i. destruct (Z.eq_dec i (nreg s)) as [->|Ne].
        -- intros _. split; [lia|exact C].
        -- rewrite upd_other by exact Ne. intros F1. destruct (N2 i F1) as [R X]. split; [lia|exact X].
      * rewrite (N5 C). intros i [].
      * intros i R. right. destruct (Z.eq_dec i (nreg s)) as [->|Ne]; [rewrite upd_same; lia|].
        rewrite upd_other by exact Ne. destruct (N4 i ltac:(lia)) as [X|X]; [|exact X]. rewrite (N5 C) in X. destruct X.
      * exact N5.
    + split; [lia|]. split; [exact N1|]. split; [|split; [|split; [|split; [|intros X; congruence]]]].
      * intros i F1. destruct (N2 i F1) as [_ X]. contradiction.
      * intros i [<-|X]; [split; [lia|exact F0]|]. destruct (N3 i X) as [R Z0]. split; [lia|exact Z0].
      * intros i R. destruct (Z.eq_dec i (nreg s)) as [->|Ne]; [left; left; reflexivity|].
        destruct (N4 i ltac:(lia)) as [X|X]; [left; right; exact X | right; exact X].
      * intros X. contradiction.
  - (* destructor: leave *)
    cbv zeta. apply (InvN_ext (leave_fx (set_pc s t PDtorPost))); [reflexivity..|].
    apply InvN_leave_fx; [apply (InvN_ext s); [reflexivity..|exact N] | exact H1].
Qed.

(* ================= invariant W: DBF_WAITING / DBF_WAITED and the (single) waiter ================= *)
Definition in_wait (p : pc) : bool :=
  match p with
  | PWaitXchg _ | PWaitWake _ _ | PWaitThread _ _ | PWaitPerf _ _ _ | PWaitG _ | PWaitOut _ => true
  | _ => false
  end.
Definition tinvW (s : gst) (t : Z) : Prop :=
  (in_wait (pcs s t) = true -> waiter s = Some t) /\
  (pcs s t = PWaitOut 0 -> gcount s = 0 /\ hasgrp s = true) /\
  (forall r, pcs s t = PWaitOut r -> r = 0 \/ r = 1).
Definition InvW (s : gst) : Prop :=
  (Z.testbit (flags s) 1 = true <-> (waiter s <> None \/ Z.testbit (flags s) 2 = true)) /\
  (Z.testbit (flags s) 2 = true -> gcount s = 0 /\ hasgrp s = true /\ waiter s = None) /\
  (forall w, waiter s = Some w -> in_wait (pcs s w) = true \/ pcs s w = PCrash) /\
  forall u, tinvW s u.

Lemma InvW_init pf : InvW (init_state pf).
Proof.
  unfold InvW. split; [|split; [|split]].
  - unfold init_state; destruct pf; cbn; (split; [discriminate|intros [X|X]; [contradiction|discriminate]]).
  - unfold init_state; destruct pf; cbn; discriminate.
  - unfold init_state; cbn. discriminate.
  - intros u. unfold tinvW, init_state; cbn. repeat split; intros; discriminate.
Qed.

Lemma tinvW_notwait s t : in_wait (pcs s t) = false -> tinvW s t.
Proof.
  intros H. unfold tinvW. split; [rewrite H; discriminate|]. split.
  - intros X. rewrite X in H. discriminate.
  - intros r X. rewrite X in H. discriminate.
Qed.

Lemma tinvW_other s s' t u : u <> t -> pcs s' u = pcs s u -> hasgrp s' = hasgrp s -> (gcount s = 0 -> gcount s' = 0) ->
  (waiter s' = waiter s \/ waiter s = None \/ waiter s = Some t) -> tinvW s u -> tinvW s' u.
Proof.
  unfold tinvW. intros Ne -> -> Hg Hw (A & B & C). split; [|split; [|exact C]].
  - intros X. specialize (A X). destruct Hw as [E|[E|E]]; congruence.
  - intros X. destruct (B X). auto.
Qed.

Lemma in_wait_inv_entry v f : in_wait (inv_entry v f) = false.
Proof. unfold inv_entry, after_body. destruct (hasb f WAITED), (hasb f CANCELED), (hasb f PERFORM), v; reflexivity. Qed.
Lemma in_wait_after_body v f : in_wait (after_body v f) = false.
Proof. unfold after_body. destruct (hasb f PERFORM); reflexivity. Qed.

(* a thread outside dispatch_block_wait moves: waiter untouched, bits 1 and 2 of the flags untouched *)
Lemma InvW_local s t s' : InvW s -> in_wait (pcs s t) = false -> pcs s t <> PCrash ->
  (flags s' = flags s \/ flags s' = Z.lor (flags s) CANCELED) -> waiter s' = waiter s -> hasgrp s' = hasgrp s ->
  (gcount s = 0 -> gcount s' = 0) -> (forall u, u <> t -> pcs s' u = pcs s u) -> in_wait (pcs s' t) = false ->
  InvW s'.
Proof.
  intros (W1 & W2 & W3 & WT) Hnw Hnc Hf Hw Hh Hg Hp Hnw'.
  assert (B1 : Z.testbit (flags s') 1 = Z.testbit (flags s) 1) by (destruct Hf as [-> | ->]; bits; reflexivity).
  assert (B2 : Z.testbit (flags s') 2 = Z.testbit (flags s) 2) by (destruct Hf as [-> | ->]; bits; reflexivity).
  unfold InvW. rewrite B1, B2, Hw, Hh. split; [exact W1|]. split; [|split].
  - intros X. destruct (W2 X) as (? & ? & ?). auto.
  - intros w E. destruct (Z.eq_dec w t) as [->|Ne].
    + exfalso. destruct (W3 t E) as [X|X]; congruence.
    + rewrite (Hp w Ne). exact (W3 w E).
  - intros u. destruct (Z.eq_dec u t) as [->|Ne]; [apply tinvW_notwait; exact Hnw'|].
    apply (tinvW_other s s' t u); auto.
Qed.

(* a thread inside dispatch_block_wait moves to another point inside it (or crashes): nothing but its pc changes *)
Lemma InvW_inside s t p : InvW s -> in_wait (pcs s t) = true -> (in_wait p = true \/ p = PCrash) ->
  (p = PWaitOut 0 -> gcount s = 0 /\ hasgrp s = true) -> (forall r, p = PWaitOut r -> r = 0 \/ r = 1) ->
  InvW (set_pc s t p).
Proof.
  intros (W1 & W2 & W3 & WT) Hin Hp H0 Hr. pose proof (WT t) as (T1 & _ & _). specialize (T1 Hin).
  unfold InvW; sf. split; [exact W1|]. split; [exact W2|]. split.
  - intros w E. destruct (Z.eq_dec w t) as [->|Ne]; [rewrite upd_same; exact Hp|].
    rewrite upd_other by exact Ne. exact (W3 w E).
  - intros u. destruct (Z.eq_dec u t) as [->|Ne].
    + unfold tinvW; sf. rewrite upd_same. split; [intros _; exact T1|]. split; [exact H0|exact Hr].
    + apply (tinvW_other s _ t u); sf; auto. apply upd_other; exact Ne.
Qed.
(* ... the same when queue / qref / hands change too *)
Lemma InvW_fields s s' : flags s' = flags s -> waiter s' = waiter s -> gcount s' = gcount s -> hasgrp s' = hasgrp s ->
  pcs s' = pcs s -> InvW s -> InvW s'.
Proof. unfold InvW, tinvW. intros -> -> -> -> ->. auto. Qed.

Ltac wlocal s t W Hpc :=
  apply (InvW_local s t _ W); sf;
  [ rewrite Hpc; reflexivity | rewrite Hpc; discriminate | auto | reflexivity | reflexivity | auto
  | intros ? ?; apply upd_other; assumption | rewrite upd_same ].

Lemma InvW_step s t s' : gs s t s' -> InvW s -> InvW s'.
Proof.
  intros G W. pose proof W as (W1 & W2 & W3 & WT). pose proof (WT t) as (T1 & T2 & T3).
  destruct G.
  - (* call *) wlocal s t W H.
    destruct (call_entry_cases _ _ _ H0 H1) as [->|[->|[->|[->|[->|[->| ->]]]]]]; reflexivity.
  - (* entry *)
    assert (Hnw : in_wait (pcs s t) = false) by (destruct H as [[-> _]|[-> _]]; reflexivity).
    assert (Hnc : pcs s t <> PCrash) by (destruct H as [[-> _]|[-> _]]; discriminate).
    unfold entry_fx. destruct (hasb (flags s) WAITED); [|destruct (hasb (flags s) CANCELED)];
      apply (InvW_local s t _ W Hnw Hnc); sf; auto; try (intros ? ?; apply upd_other; assumption);
      rewrite upd_same; apply in_wait_inv_entry.
  - wlocal s t W H. reflexivity.
  - wlocal s t W H. reflexivity.
  - wlocal s t W H. destruct v; reflexivity.
  - wlocal s t W H. reflexivity.
  - wlocal s t W H. destruct v; reflexivity.
  - wlocal s t W H. reflexivity.
  - wlocal s t W H. reflexivity.
  - wlocal s t W H. apply in_wait_after_body.
  - wlocal s t W H. destruct (wrapsz 4 (performed s + 1) =? 1); reflexivity.
  - (* leave *)
    unfold leave_fx; sf. destruct (gcount s - 1 =? 0); apply (InvW_local s t _ W); sf; auto;
      try (rewrite H; reflexivity); try (rewrite H; discriminate); try (intros X; contradiction);
      try (intros ? ?; apply upd_other; assumption); rewrite upd_same; reflexivity.
  - wlocal s t W H. reflexivity.
  - (* group noise: the pc does not change *)
    destruct H as [[v Hv]|[[tmo Hv]|[Hv|Hv]]].
    + wlocal s t W Hv. rewrite Hv. reflexivity.
    + apply InvW_inside; auto; rewrite Hv; auto; try discriminate; try (intros r X; discriminate X).
    + wlocal s t W Hv. rewrite Hv. reflexivity.
    + wlocal s t W Hv. rewrite Hv. reflexivity.
  - wlocal s t W H. reflexivity.
  - (* xchg after the completion *)
    unfold take_queue; sf. destruct (queue s =? 0); apply (InvW_local s t _ W); sf; auto;
      try (rewrite H; reflexivity); try (rewrite H; discriminate);
      try (intros ? ?; apply upd_other; assumption); rewrite upd_same; destruct v; reflexivity.
  - wlocal s t W H. destruct v; reflexivity.
  - (* cancel *) wlocal s t W H. reflexivity.
  - wlocal s t W H. reflexivity.
  - (* wait: or-orig of DBF_WAITING *)
    rewrite hasb_DW. destruct (Z.testbit (flags s) 2 || Z.testbit (flags s) 1) eqn:B.
    + (* already waiting / waited: crash; the or changes nothing *)
      assert (B1 : Z.testbit (flags s) 1 = true).
      { destruct (Z.testbit (flags s) 1) eqn:X; [reflexivity|]. rewrite orb_false_r in B. apply W1. right. exact B. }
      unfold InvW; sf. split; [|split; [|split]].
      * bits. split; [intros _; apply W1; exact B1 | reflexivity].
      * bits. exact W2.
      * intros w E. destruct (Z.eq_dec w t) as [->|Ne]; [rewrite upd_same; right; reflexivity|].
        rewrite upd_other by exact Ne. exact (W3 w E).
      * intros u. destruct (Z.eq_dec u t) as [->|Ne]; [apply tinvW_notwait; sf; rewrite upd_same; reflexivity|].
        apply (tinvW_other s _ t u); sf; auto. apply upd_other; exact Ne.
    + apply orb_false_iff in B as [B2 B1].
      assert (WN : waiter s = None).
      { destruct (waiter s) eqn:E; [|reflexivity]. exfalso.
        assert (X : Z.testbit (flags s) 1 = true) by (apply W1; left; discriminate). congruence. }
      unfold InvW; sf. split; [|split; [|split]].
      * bits. split; [intros _; left; discriminate | reflexivity].
      * bits. rewrite B2. discriminate.
      * intros w E. injection E as <-. rewrite upd_same. left. reflexivity.
      * intros u. destruct (Z.eq_dec u t) as [->|Ne].
        -- unfold tinvW; sf. rewrite upd_same. split; [reflexivity|]. split; [discriminate|intros r X; discriminate X].
        -- apply (tinvW_other s _ t u); sf; auto. apply upd_other; exact Ne.
  - (* wait: xchg *)
    assert (Hin : in_wait (pcs s t) = true) by (rewrite H; reflexivity).
    unfold take_queue; sf.
    destruct (queue s =? 0).
    + apply (InvW_inside s t _ W Hin); [left; reflexivity | discriminate | intros r X; discriminate X].
    + apply (InvW_fields (set_pc s t (PWaitWake tmo (queue s)))); try reflexivity.
      apply (InvW_inside s t _ W Hin); [left; reflexivity | discriminate | intros r X; discriminate X].
  - (* wait: wake *)
    assert (Hin : in_wait (pcs s t) = true) by (rewrite H; reflexivity).
    apply (InvW_fields (set_pc s t (PWaitThread tmo bq))); try reflexivity.
    apply (InvW_inside s t _ W Hin); [left; reflexivity | discriminate | intros r X; discriminate X].
  - apply InvW_inside; auto; [rewrite H; reflexivity | discriminate | intros r X; discriminate X].
  - apply InvW_inside; auto; [rewrite H; reflexivity | destruct H0 as [-> | ->]; auto | destruct H0 as [-> | ->]; discriminate
                             | intros r X; destruct H0 as [-> | ->]; discriminate X].
  - (* group wait returns 0 *)
    apply InvW_inside; auto; [rewrite H; reflexivity | intros r X; injection X as <-; auto].
  - (* group wait times out *)
    apply InvW_inside; auto; [rewrite H; reflexivity | discriminate | intros r X; injection X as <-; auto].
  - (* wait: way out *)
    assert (Hin : in_wait (pcs s t) = true) by (rewrite H; reflexivity).
    specialize (T1 Hin).
    assert (B1 : Z.testbit (flags s) 1 = true) by (apply W1; left; congruence).
    assert (B2 : Z.testbit (flags s) 2 = false).
    { destruct (Z.testbit (flags s) 2) eqn:X; [|reflexivity]. destruct (W2 eq_refl) as (_ & _ & WN). congruence. }
    destruct (T3 r H) as [-> | ->]; cbn [Z.eqb].
    + (* success: or DBF_WAITED *)
      destruct (T2 H) as [G0 Hh].
      unfold InvW; sf. split; [|split; [|split]].
      * bits. rewrite B1. split; [intros _; right; reflexivity | reflexivity].
      * intros _. auto.
      * discriminate.
      * intros u. destruct (Z.eq_dec u t) as [->|Ne]; [apply tinvW_notwait; sf; rewrite upd_same; reflexivity|].
        apply (tinvW_other s _ t u); sf; auto. apply upd_other; exact Ne.
    + (* timeout: and ~DBF_WAITING *)
      unfold InvW; sf. split; [|split; [|split]].
      * bits. rewrite B2. split; [discriminate | intros [X|X]; [contradiction|discriminate]].
      * bits. rewrite B2. discriminate.
      * discriminate.
      * intros u. destruct (Z.eq_dec u t) as [->|Ne]; [apply tinvW_notwait; sf; rewrite upd_same; reflexivity|].
        apply (tinvW_other s _ t u); sf; auto. apply upd_other; exact Ne.
  - wlocal s t W H. destruct H0 as [-> | ->]; reflexivity.
  - (* notify takes effect *)
    unfold notify_fx; sf. destruct (gcount s =? 0); apply (InvW_local s t _ W); sf; auto;
      try (rewrite H; reflexivity); try (rewrite H; discriminate);
      try (intros ? ?; apply upd_other; assumption); rewrite upd_same; reflexivity.
  - wlocal s t W H. reflexivity.
  - wlocal s t W H. destruct (performed s =? 0); reflexivity.
  - (* destructor: leave *)
    cbv zeta. unfold leave_fx; sf. destruct (gcount s - 1 =? 0); apply (InvW_local s t _ W); sf; auto;
      try (rewrite H; reflexivity); try (rewrite H; discriminate); try (intros X; contradiction);
      try (intros ? ?; apply upd_other; assumption); rewrite upd_same; reflexivity.
  - wlocal s t W H. reflexivity.
  - (* destructor: dbpd_queue *)
    unfold take_queue; sf. destruct (queue s =? 0); apply (InvW_local s t _ W); sf; auto;
      try (rewrite H; reflexivity); try (rewrite H; discriminate);
      try (intros ? ?; apply upd_other; assumption); rewrite upd_same; reflexivity.
  - wlocal s t W H. reflexivity.
Qed.

(* ================= invariant Q: the references taken on the target queue for dbpd_queue ================= *)
Lemma rm_In x t l : In x (rm t l) <-> In x l /\ x <> t.
Proof.
  unfold rm. split.
  - intros H. apply in_remove in H. exact H.
  - intros [H Ne]. apply in_in_remove; assumption.
Qed.
Lemma rm_NoDup t l : NoDup l -> NoDup (rm t l).
Proof.
  unfold rm. induction 1 as [|x l Hx Hl IH]; cbn; [constructor|].
  destruct (Z.eq_dec t x); [exact IH|]. constructor; [|exact IH].
  intros X. apply in_remove in X. tauto.
Qed.
Lemma rm_notin t l : ~ In t l -> rm t l = l.
Proof. unfold rm. intros H. apply notin_remove. exact H. Qed.
Lemma rm_length t l : NoDup l -> In t l -> Z.of_nat (length (rm t l)) = Z.of_nat (length l) - 1.
Proof.
  unfold rm. induction 1 as [|x l Hx Hl IH]; cbn [remove In length]; [intros []|].
  intros [->|Ht].
  - destruct (Z.eq_dec t t); [|contradiction]. fold (rm t l). rewrite (rm_notin t l Hx). lia.
  - destruct (Z.eq_dec t x) as [->|Ne]; [contradiction|]. cbn [length]. specialize (IH Ht). lia.
Qed.

Definition holds (p : pc) : bool :=
  match p with PSubmitCas _ | PSubmitRel _ | PRel _ | PWaitWake _ _ | PDtorRel => true | _ => false end.
Definition InvQ (s : gst) : Prop :=
  qref s = 2 * ((if queue s =? 0 then 0 else 1) + Z.of_nat (length (hands s))) /\
  NoDup (hands s) /\ forall u, In u (hands s) <-> holds (pcs s u) = true.

Lemma InvQ_init pf : InvQ (init_state pf).
Proof. unfold InvQ, init_state; cbn. repeat split; try constructor; intros; try contradiction; discriminate. Qed.

(* a thread that holds no references moves to a point where it holds none *)
Lemma InvQ_local s t s' : InvQ s -> holds (pcs s t) = false -> holds (pcs s' t) = false ->
  qref s' = qref s -> queue s' = queue s -> hands s' = hands s -> (forall u, u <> t -> pcs s' u = pcs s u) -> InvQ s'.
Proof.
  intros (Q1 & Q2 & Q3) H1 H2 Hq Hu Hh Hp. unfold InvQ. rewrite Hq, Hu, Hh. split; [exact Q1|]. split; [exact Q2|].
  intros u. destruct (Z.eq_dec u t) as [->|Ne].
  - rewrite H2. rewrite (Q3 t), H1. tauto.
  - rewrite (Hp u Ne). apply Q3.
Qed.
(* a thread takes a pair of references in hand *)
Lemma InvQ_take s t s' : InvQ s -> holds (pcs s t) = false -> holds (pcs s' t) = true -> hands s' = t :: hands s ->
  qref s' = 2 * ((if queue s' =? 0 then 0 else 1) + Z.of_nat (length (hands s)) + 1) ->
  (forall u, u <> t -> pcs s' u = pcs s u) -> InvQ s'.
Proof.
  intros (Q1 & Q2 & Q3) H1 H2 Hh Hq Hp.
  assert (Nt : ~ In t (hands s)) by (rewrite (Q3 t), H1; discriminate).
  unfold InvQ. rewrite Hh. split; [|split].
  - rewrite Hq. cbn [length]. lia.
  - constructor; assumption.
  - intros u. destruct (Z.eq_dec u t) as [->|Ne].
    + rewrite H2. split; [reflexivity|intros _; left; reflexivity].
    + rewrite (Hp u Ne). rewrite <- (Q3 u). split; [intros [X|X]; [congruence|exact X] | intros X; right; exact X].
Qed.
(* a thread gives its pair of references away (to the slot, or back to the queue) *)
Lemma InvQ_give s t s' : InvQ s -> holds (pcs s t) = true -> holds (pcs s' t) = false -> hands s' = rm t (hands s) ->
  qref s' = 2 * ((if queue s' =? 0 then 0 else 1) + Z.of_nat (length (hands s)) - 1) ->
  (forall u, u <> t -> pcs s' u = pcs s u) -> InvQ s'.
Proof.
  intros (Q1 & Q2 & Q3) H1 H2 Hh Hq Hp.
  assert (It : In t (hands s)) by (rewrite (Q3 t); exact H1).
  unfold InvQ. rewrite Hh. split; [|split].
  - rewrite Hq. rewrite (rm_length t _ Q2 It). lia.
  - apply rm_NoDup. exact Q2.
  - intros u. rewrite rm_In. destruct (Z.eq_dec u t) as [->|Ne].
    + rewrite H2. split; [intros [_ X]; contradiction|discriminate].
    + rewrite (Hp u Ne). rewrite <- (Q3 u). tauto.
Qed.

Lemma holds_inv_entry v f : holds (inv_entry v f) = false.
Proof. unfold inv_entry, after_body. destruct (hasb f WAITED), (hasb f CANCELED), (hasb f PERFORM), v; reflexivity. Qed.
Lemma holds_after_body v f : holds (after_body v f) = false.
Proof. unfold after_body. destruct (hasb f PERFORM); reflexivity. Qed.

Ltac qlocal s t Q Hpc :=
  apply (InvQ_local s t _ Q); sf;
  [ rewrite Hpc; reflexivity | rewrite upd_same | reflexivity | reflexivity | reflexivity
  | intros ? ?; apply upd_other; assumption ].

Lemma InvQ_step s t s' : gs s t s' -> InvQ s -> InvQ s'.
Proof.
  intros G Q. pose proof Q as (Q1 & Q2 & Q3).
  destruct G.
  - qlocal s t Q H. destruct (call_entry_cases _ _ _ H0 H1) as [->|[->|[->|[->|[->|[->| ->]]]]]]; reflexivity.
  - assert (Hh : holds (pcs s t) = false) by (destruct H as [[-> _]|[-> _]]; reflexivity).
    unfold entry_fx. destruct (hasb (flags s) WAITED); [|destruct (hasb (flags s) CANCELED)];
      apply (InvQ_local s t _ Q Hh); sf; auto; try (intros ? ?; apply upd_other; assumption);
      rewrite upd_same; apply holds_inv_entry.
  - qlocal s t Q H. reflexivity.
  - (* retain *)
    apply (InvQ_take s t _ Q); sf; auto; [rewrite H; reflexivity | rewrite upd_same; reflexivity | rewrite Q1; lia
                                        | intros ? ?; apply upd_other; assumption].
  - (* cas ok: the references go to the slot *)
    apply (InvQ_give s t _ Q); sf; auto; [rewrite H; reflexivity | rewrite upd_same; destruct v; reflexivity | 
                                        | intros ? ?; apply upd_other; assumption].
    rewrite Q1, H0. destruct (Z.eqb_spec dq 0); [contradiction|]. cbn [Z.eqb]. lia.
  - (* cas failed: keeps them in hand *)
    destruct Q as (_ & _ & _). split; [exact Q1|]. split; [exact Q2|]. sf.
    intros u. destruct (Z.eq_dec u t) as [->|Ne].
    + rewrite upd_same. rewrite (Q3 t), H. reflexivity.
    + rewrite upd_other by exact Ne. apply Q3.
  - apply (InvQ_give s t _ Q); sf; auto; [rewrite H; reflexivity | rewrite upd_same; destruct v; reflexivity | rewrite Q1; lia
                                        | intros ? ?; apply upd_other; assumption].
  - qlocal s t Q H. reflexivity.
  - qlocal s t Q H. reflexivity.
  - qlocal s t Q H. apply holds_after_body.
  - qlocal s t Q H. destruct (wrapsz 4 (performed s + 1) =? 1); reflexivity.
  - unfold leave_fx; sf. destruct (gcount s - 1 =? 0); apply (InvQ_local s t _ Q); sf; auto;
      try (rewrite H; reflexivity); try (intros ? ?; apply upd_other; assumption); rewrite upd_same; reflexivity.
  - qlocal s t Q H. reflexivity.
  - (* group noise *)
    assert (Hh : holds (pcs s t) = false) by (destruct H as [[v Hv]|[[tmo Hv]|[Hv|Hv]]]; rewrite Hv; reflexivity).
    apply (InvQ_local s t _ Q Hh); sf; auto; [rewrite upd_same; exact Hh | intros ? ?; apply upd_other; assumption].
  - qlocal s t Q H. reflexivity.
  - (* xchg after the completion *)
    unfold take_queue; sf. destruct (Z.eqb_spec (queue s) 0) as [Q0|Q0].
    + apply (InvQ_local s t _ Q); sf; auto; [rewrite H; reflexivity | rewrite upd_same; destruct v; reflexivity
                                            | intros ? ?; apply upd_other; assumption].
    + apply (InvQ_take s t _ Q); sf; auto; [rewrite H; reflexivity | rewrite upd_same; reflexivity | 
                                          | intros ? ?; apply upd_other; assumption].
      rewrite Q1. destruct (Z.eqb_spec (queue s) 0); [contradiction|]. cbn [Z.eqb]. lia.
  - apply (InvQ_give s t _ Q); sf; auto; [rewrite H; reflexivity | rewrite upd_same; destruct v; reflexivity | rewrite Q1; lia
                                        | intros ? ?; apply upd_other; assumption].
  - qlocal s t Q H. reflexivity.
  - qlocal s t Q H. reflexivity.
  - qlocal s t Q H. destruct (hasb (flags s) (Z.lor WAITED WAITING)); reflexivity.
  - (* wait: xchg *)
    unfold take_queue; sf. destruct (Z.eqb_spec (queue s) 0) as [Q0|Q0].
    + apply (InvQ_local s t _ Q); sf; auto; [rewrite H; reflexivity | rewrite upd_same; reflexivity
                                            | intros ? ?; apply upd_other; assumption].
    + apply (InvQ_take s t _ Q); sf; auto; [rewrite H; reflexivity | rewrite upd_same; reflexivity | 
                                          | intros ? ?; apply upd_other; assumption].
      rewrite Q1. destruct (Z.eqb_spec (queue s) 0); [contradiction|]. cbn [Z.eqb]. lia.
  - apply (InvQ_give s t _ Q); sf; auto; [rewrite H; reflexivity | rewrite upd_same; reflexivity | rewrite Q1; lia
                                        | intros ? ?; apply upd_other; assumption].
  - qlocal s t Q H. reflexivity.
  - qlocal s t Q H. destruct H0 as [-> | ->]; reflexivity.
  - qlocal s t Q H. reflexivity.
  - qlocal s t Q H. reflexivity.
  - qlocal s t Q H. reflexivity.
  - qlocal s t Q H. destruct H0 as [-> | ->]; reflexivity.
  - unfold notify_fx; sf. destruct (gcount s =? 0); apply (InvQ_local s t _ Q); sf; auto;
      try (rewrite H; reflexivity); try (intros ? ?; apply upd_other; assumption); rewrite upd_same; reflexivity.
  - qlocal s t Q H. reflexivity.
  - qlocal s t Q H. destruct (performed s =? 0); reflexivity.
  - cbv zeta. unfold leave_fx; sf. destruct (gcount s - 1 =? 0); apply (InvQ_local s t _ Q); sf; auto;
      try (rewrite H; reflexivity); try (intros ? ?; apply upd_other; assumption); rewrite upd_same; reflexivity.
  - qlocal s t Q H. reflexivity.
  - (* destructor: dbpd_queue *)
    unfold take_queue; sf. destruct (Z.eqb_spec (queue s) 0) as [Q0|Q0].
    + apply (InvQ_local s t _ Q); sf; auto; [rewrite H; reflexivity | rewrite upd_same; reflexivity
                                            | intros ? ?; apply upd_other; assumption].
    + apply (InvQ_take s t _ Q); sf; auto; [rewrite H; reflexivity | rewrite upd_same; reflexivity | 
                                          | intros ? ?; apply upd_other; assumption].
      rewrite Q1. destruct (Z.eqb_spec (queue s) 0); [contradiction|]. cbn [Z.eqb]. lia.
  - apply (InvQ_give s t _ Q); sf; auto; [rewrite H; reflexivity | rewrite upd_same; reflexivity | rewrite Q1; lia
                                        | intros ? ?; apply upd_other; assumption].
Qed.

(* ================= invariant D: the life of the object (who is inside a call, the last release, the destructor) ========= *)
Definition dtor_pc (p : pc) : bool := match p with PDtorPerf | PDtorLeave | PDtorPost | PDtorRel => true | _ => false end.
Definition dtor_ok (p : pc) : bool := dtor_pc p || match p with PRet _ | PIdle | PCrash => true | _ => false end.
Definition InvD (s : gst) : Prop :=
  NoDup (active s) /\ (forall u, In u (active s) <-> pc_idle (pcs s u) = false) /\
  (* after the last release only the destroying thread is anywhere, and only inside the destructor *)
  (disposed s = true -> exists d, dtor s = Some d /\ dtor_ok (pcs s d) = true /\ forall u, u <> d -> pcs s u = PIdle) /\
  (disposed s = false -> dleave s = false /\ forall u, dtor_pc (pcs s u) = false) /\
  (* the destructor leaves the group only for an object that was never performed (and hence never waited for with success) *)
  (dleave s = true -> performed s = 0 /\ Z.testbit (flags s) 2 = false) /\
  0 <= pendsub s /\
  (forall u, pcs s u = PDtorLeave -> performed s = 0).

Lemma InvD_init pf : InvD (init_state pf).
Proof.
  unfold InvD, init_state; cbn. repeat split; try constructor; intros; try discriminate; try contradiction; try lia.
Qed.

Lemma gs_pcs s t s' : gs s t s' -> exists p, pcs s' = upd (pcs s) t p /\ active s' = act_upd (active s) t (pcs s t) p.
Proof.
  intros G. destruct G; unfx; cbv zeta; unfx; sf;
    repeat match goal with |- context [if ?c then _ else _] => destruct c end; sf; eexists; split; reflexivity.
Qed.

Lemma active_step l (f : Z -> pc) t p : NoDup l -> (forall u, In u l <-> pc_idle (f u) = false) ->
  NoDup (act_upd l t (f t) p) /\ (forall u, In u (act_upd l t (f t) p) <-> pc_idle (upd f t p u) = false).
Proof.
  intros N H. unfold act_upd. destruct (pc_idle (f t)) eqn:E1, (pc_idle p) eqn:E2.
  - split; [exact N|]. intros u. destruct (Z.eq_dec u t) as [->|Ne]; [rewrite upd_same, H, E1, E2; tauto|].
    rewrite upd_other by exact Ne. apply H.
  - assert (Nt : ~ In t l) by (rewrite H, E1; discriminate). split; [constructor; assumption|].
    intros u. destruct (Z.eq_dec u t) as [->|Ne].
    + rewrite upd_same, E2. split; [reflexivity|intros _; left; reflexivity].
    + rewrite upd_other by exact Ne. rewrite <- H. split; [intros [X|X]; [congruence|exact X] | intros X; right; exact X].
  - split; [apply rm_NoDup; exact N|]. intros u. fold (rm t l). rewrite rm_In.
    destruct (Z.eq_dec u t) as [->|Ne].
    + rewrite upd_same, E2. split; [intros [_ X]; contradiction|discriminate].
    + rewrite upd_other by exact Ne. rewrite <- H. tauto.
  - split; [exact N|]. intros u. destruct (Z.eq_dec u t) as [->|Ne]; [rewrite upd_same, H, E1, E2; tauto|].
    rewrite upd_other by exact Ne. apply H.
Qed.

Lemma pc_idle_true p : pc_idle p = true -> p = PIdle. Proof. destruct p; cbn; intros; try discriminate; reflexivity. Qed.
Lemma dtor_pc_inv_entry v f : dtor_pc (inv_entry v f) = false.
Proof. unfold inv_entry, after_body. destruct (hasb f WAITED), (hasb f CANCELED), (hasb f PERFORM), v; reflexivity. Qed.
Lemma dtor_pc_after_body v f : dtor_pc (after_body v f) = false.
Proof. unfold after_body. destruct (hasb f PERFORM); reflexivity. Qed.
Lemma dtor_pc_call op arg p : call_entry op arg = Some p -> op <> OP_RELEASE -> dtor_pc p = false.
Proof. intros H1 H2. destruct (call_entry_cases _ _ _ H1 H2) as [->|[->|[->|[->|[->|[->| ->]]]]]]; reflexivity. Qed.

(* the new program point of the moving thread is not one of the destructor's, for every rule but the destructor's own *)
Ltac newpc_not_dtor :=
  first [ reflexivity | apply dtor_pc_inv_entry | apply dtor_pc_after_body
        | match goal with |- dtor_pc (if ?c then _ else _) = false => destruct c; reflexivity end
        | match goal with |- dtor_pc (sub_next ?v) = false => destruct v; reflexivity end
        | match goal with |- dtor_pc (post_end ?v) = false => destruct v; reflexivity end
        | match goal with |- dtor_pc (if ?c then post_end ?v else _) = false => destruct c, v; reflexivity end
        | (eapply dtor_pc_call; eassumption)
        | match goal with Hnd : forall u, dtor_pc (pcs ?s u) = false |- dtor_pc (pcs ?s _) = false => apply Hnd end
        | match goal with Hx : _ \/ _ |- dtor_pc _ = false => destruct Hx as [-> | ->]; reflexivity end ].

Lemma InvD_step s t e s' : gstep s t e = Some s' -> InvW s -> InvD s -> InvD s'.
Proof.
  intros Hs W (D1 & D1' & D2 & D3 & D4 & D5 & D7).
  pose proof (gstep_alive _ _ _ _ Hs) as AL. apply gstep_gs in Hs.
  destruct (gs_pcs _ _ _ Hs) as (p & Ep & Ea).
  destruct (active_step (active s) (pcs s) t p D1 D1') as [A1 A2]. rewrite <- Ea in A1, A2. rewrite <- Ep in A2.
  split; [exact A1|]. split; [exact A2|]. clear A1 A2 Ea.
  assert (Oth : forall u, u <> t -> pcs s' u = pcs s u) by (intros u Ne; rewrite Ep; apply upd_other; exact Ne).
  assert (Pt : pcs s' t = p) by (rewrite Ep; apply upd_same). clear Ep.
  destruct W as (_ & W2 & _).
  destruct (disposed s) eqn:Ed.
  - (* the object is being destroyed: only the destroying thread moves *)
    destruct AL as [X|[Edt Hni]]; [discriminate X|].
    destruct (D2 eq_refl) as (d & Ed' & Hok & Hoth). assert (d = t) by congruence. subst d. clear Ed'.
    assert (C7o : forall u, u <> t -> pcs s u = PDtorLeave -> False) by (intros u Ne X; rewrite (Hoth u Ne) in X; discriminate X).
    destruct Hs;
      try (rewrite H in Hok; discriminate Hok); try (rewrite H in Hni; discriminate Hni);
      try (destruct H as [[H _]|[H _]]; [rewrite H in Hni; discriminate Hni | rewrite H in Hok; discriminate Hok]).
    all: try (destruct H as [[v Hv]|[[tmo Hv]|[Hv|Hv]]]; try (rewrite Hv in Hok; discriminate Hok)).
    all: unfx; cbv zeta; unfx; sf; repeat match goal with |- context [if ?c then _ else _] => destruct c eqn:? end; sf;
      sf; rewrite ?Ed, ?Edt.
    all: (split; [intros _; exists t; split; [reflexivity|]; split;
                    [rewrite ?upd_same; try reflexivity; try exact Hok
                    | intros u Ne; rewrite (Oth u Ne); apply Hoth; exact Ne] |]).
    all: try (split; [discriminate|]).
    all: (split; [intros X; first [apply D4; exact X
                                  | split; [apply (D7 t H) | destruct (Z.testbit (flags s) 2) eqn:B;
                                                              [destruct (W2 eq_refl) as [G0 _]; contradiction|reflexivity]]] |]).
    all: (split; [exact D5|]).
    all: intros u X; (destruct (Z.eq_dec u t) as [->|Ne];
           [rewrite upd_same in X; first [discriminate X | apply Z.eqb_eq; assumption | rewrite Hv in X; discriminate X]
           | rewrite upd_other in X by exact Ne; exfalso; exact (C7o u Ne X)]).
  - (* the object is alive *)
    clear AL. destruct (D3 eq_refl) as (Dl & Hnd).
    assert (C7o : forall u, pcs s u = PDtorLeave -> False) by (intros u X; specialize (Hnd u); rewrite X in Hnd; discriminate Hnd).
    destruct Hs;
      try (specialize (Hnd t); rewrite H in Hnd; discriminate Hnd).
    all: try (destruct H as [[v Hv]|[[tmo Hv]|[Hv|Hv]]]; [| | |specialize (Hnd t); rewrite Hv in Hnd; discriminate Hnd]).
    all: unfx; cbv zeta; unfx; sf; repeat match goal with |- context [if ?c then _ else _] => destruct c eqn:? end; sf;
      rewrite ?Ed, ?Dl.
    all: try (
      split; [discriminate|];
      split; [intros _; split; [reflexivity|]; intros u; (destruct (Z.eq_dec u t) as [->|Ne];
                [rewrite upd_same; newpc_not_dtor | rewrite upd_other by exact Ne; apply Hnd]) |];
      split; [discriminate|];
      split; [first [exact D5 | destruct v; lia | destruct H as [(_ & _ & ? & ->)|(_ & ->)]; lia] |];
      intros u X; (destruct (Z.eq_dec u t) as [->|Ne];
        [rewrite upd_same in X; exfalso;
         match type of X with ?n = PDtorLeave => assert (N : dtor_pc n = false) by newpc_not_dtor; rewrite X in N; discriminate N end
        | rewrite upd_other in X by exact Ne; exfalso; exact (C7o u X)])).
    (* the release of the last reference: nobody is inside a call *)
    assert (Idle : forall u, pcs s u = PIdle).
    { intros u. apply pc_idle_true. destruct (pc_idle (pcs s u)) eqn:E; [reflexivity|]. apply D1' in E. rewrite H0 in E. destruct E. }
    split; [intros _; exists t; split; [reflexivity|]; split; [rewrite upd_same; reflexivity|];
            intros u Ne; rewrite upd_other by exact Ne; apply Idle |].
    split; [discriminate|]. split; [discriminate|]. split; [exact D5|].
    intros u X. destruct (Z.eq_dec u t) as [->|Ne]; [rewrite upd_same in X; discriminate X|].
    rewrite upd_other in X by exact Ne. rewrite Idle in X. discriminate X.
Qed.

(* ================= all reachable states ================= *)
Definition Inv (s : gst) : Prop := InvA s /\ InvN s /\ InvW s /\ InvQ s /\ InvD s.

Theorem inv_reach pf s : reach pf s -> Inv s.
Proof.
  apply invariant_lift.
  - intros ? ->. split; [apply InvA_init|split; [apply InvN_init|split; [apply InvW_init|split; [apply InvQ_init|apply InvD_init]]]].
  - intros s0 [t e] s1 (A & N & W & Q & D) Hs. unfold step in Hs. cbn in Hs.
    pose proof (InvD_step _ _ _ _ Hs W D) as D'. apply gstep_gs in Hs.
    split; [eapply InvA_step; eauto|split; [eapply InvN_step; eauto|split; [eapply InvW_step; eauto|
      split; [eapply InvQ_step; eauto|exact D']]]].
Qed.

Lemma reach_gstep pf s t e s' : reach pf s -> gstep s t e = Some s' -> reach pf s'.
Proof. intros R Hs. apply (reach_step _ _ s (t, e) s' R). exact Hs. Qed.

Lemma grun_reach pf tr : forall s s', reach pf s -> grun s tr = Some s' -> reach pf s'.
Proof.
  induction tr as [|[t e] tr IH]; cbn; intros s s' R H; [injection H as <-; exact R|].
  destruct (gstep s t e) as [s1|] eqn:E; [|discriminate]. apply (IH s1); [eapply reach_gstep; eauto|exact H].
Qed.

(* frame facts of a step *)
Lemma gs_flags s t s' : gs s t s' ->
  flags s' = flags s \/ flags s' = Z.lor (flags s) CANCELED \/ flags s' = Z.lor (flags s) WAITING \/
  flags s' = Z.lor (flags s) WAITED \/ flags s' = Z.land (flags s) NOT_WAITING.
Proof.
  intros G. destruct G; unfx; cbv zeta; unfx; sf;
    repeat match goal with |- context [if ?c then _ else _] => destruct c end; sf; auto 6.
Qed.
Lemma gs_frame s t s' : gs s t s' ->
  hasgrp s' = hasgrp s /\ (forall u, u <> t -> pcs s' u = pcs s u) /\
  (cancelled s = true -> cancelled s' = true) /\
  (Z.testbit (flags s) 0 = true -> Z.testbit (flags s') 0 = true) /\
  (leaves s' = leaves s \/ (exists v, pcs s t = PLeave v /\ gcount s <> 0 /\ leaves s' = leaves s + 1 /\ dleave s' = dleave s) \/
   (pcs s t = PDtorLeave /\ gcount s <> 0 /\ leaves s' = leaves s + 1 /\ dleave s' = true)) /\
  (bodies s' = bodies s \/ (exists v f, pcs s t = PBodyNext v f /\ bodies s' = bodies s + 1)).
Proof.
  intros G. split; [|split; [|split; [|split; [|split]]]].
  - destruct G; unfx; cbv zeta; unfx; sf; repeat match goal with |- context [if ?c then _ else _] => destruct c end; reflexivity.
  - intros u Ne. destruct G; unfx; cbv zeta; unfx; sf; repeat match goal with |- context [if ?c then _ else _] => destruct c end; sf;
      apply upd_other; exact Ne.
  - destruct G; unfx; cbv zeta; unfx; sf; repeat match goal with |- context [if ?c then _ else _] => destruct c end; sf; auto.
  - intros B. destruct (gs_flags _ _ _ G) as [-> |[-> |[-> |[-> | ->]]]]; bits; try rewrite B; reflexivity.
  - destruct G; unfx; cbv zeta; unfx; sf; repeat match goal with |- context [if ?c then _ else _] => destruct c end; sf; eauto 8.
  - destruct G; unfx; cbv zeta; unfx; sf; repeat match goal with |- context [if ?c then _ else _] => destruct c end; sf; eauto.
Qed.

Lemma hasgrp_const pf s : reach pf s -> hasgrp s = negb pf.
Proof.
  induction 1 as [s ->|s [t e] s' R IH Hs]; [reflexivity|].
  unfold step in Hs; cbn in Hs. apply gstep_gs in Hs. destruct (gs_frame _ _ _ Hs) as [X _]. congruence.
Qed.

(* a thread that is inside an ordinary call proves that the object is alive: the last reference has not been released *)
Lemma busy_alive pf s t : reach pf s -> dtor_ok (pcs s t) = false -> disposed s = false /\ dleave s = false.
Proof.
  intros R H. destruct (inv_reach pf s R) as (_ & _ & _ & _ & (_ & _ & D2 & D3 & _)).
  destruct (disposed s) eqn:Ed; [|split; [reflexivity|apply D3; reflexivity]].
  exfalso. destruct (D2 eq_refl) as (d & _ & Hok & Hoth). destruct (Z.eq_dec t d) as [->|Ne]; [congruence|].
  rewrite (Hoth t Ne) in H. discriminate H.
Qed.

(* ---- C19_wait_zero_after_first_completion ---- *)
(* the group is left once: either by the first completion (after an increment of dbpd_performed, after a body / skip), or
   by the destructor of an object that was never performed *)
Lemma completion_facts pf s : reach pf s -> hasgrp s = true -> gcount s = 0 ->
  leaves s = 1 /\ ((dleave s = false /\ 1 <= ninv s /\ 1 <= fin s) \/ (dleave s = true /\ disposed s = true /\ performed s = 0)).
Proof.
  intros R Hh G0. destruct (inv_reach pf s R) as ((_ & _ & _ & _ & _ & A6 & _ & A8 & _) & _ & _ & _ & (_ & _ & _ & D3 & D4 & _)).
  rewrite Hh in A8. destruct A8 as (G1 & G2 & G3). assert (L : leaves s = 1) by lia. split; [exact L|].
  destruct (dleave s) eqn:Ed.
  - right. split; [reflexivity|]. split; [|apply D4; reflexivity].
    destruct (disposed s) eqn:E; [reflexivity|]. destruct (D3 eq_refl) as [X _]. discriminate X.
  - left. split; [reflexivity|]. destruct (G3 L) as [X|X]; [|discriminate X]. auto.
Qed.

Lemma wait_zero_after_first_completion pf s t e s' tmo :
  reach pf s -> pcs s t = PWaitG tmo -> gstep s t e = Some s' -> pcs s' t = PWaitOut 0 ->
  leaves s = 1 /\ dleave s = false /\ 1 <= ninv s /\ 1 <= fin s.
Proof.
  intros R Hpc Hs Hpc'. apply gstep_gs in Hs.
  assert (AL : disposed s = false /\ dleave s = false) by (apply (busy_alive pf s t R); rewrite Hpc; reflexivity).
  destruct Hs; try (rewrite Hpc in H; discriminate H); sf; try (rewrite upd_same in Hpc'; try discriminate Hpc').
  - destruct H as [[X _]|[X _]]; rewrite Hpc in X; discriminate X.
  - rewrite Hpc in Hpc'. discriminate Hpc'.
  - destruct (completion_facts pf s R H0 H1) as (L & [(_ & X & Y)|(X & _)]); [|destruct AL; congruence]. destruct AL. auto.
Qed.

Lemma wait_zero_state pf s t : reach pf s -> (pcs s t = PWaitOut 0 \/ Z.testbit (flags s) 2 = true) ->
  leaves s = 1 /\ dleave s = false /\ 1 <= ninv s /\ 1 <= fin s.
Proof.
  intros R H. destruct (inv_reach pf s R) as (_ & _ & (_ & W2 & _ & WT) & _ & (_ & _ & _ & _ & D4 & _)).
  assert (Hd : dleave s = false).
  { destruct H as [H|H].
    - apply (busy_alive pf s t R). rewrite H. reflexivity.
    - destruct (dleave s) eqn:E; [|reflexivity]. destruct (D4 eq_refl) as [_ X]. congruence. }
  assert (X : gcount s = 0 /\ hasgrp s = true).
  { destruct H as [H|H]; [destruct (WT t) as (_ & T2 & _); apply (T2 H) | destruct (W2 H) as (? & ? & _); auto]. }
  destruct X as [G0 Hh]. destruct (completion_facts pf s R Hh G0) as (L & [(_ & X & Y)|(X & _)]); [auto|congruence].
Qed.

(* the private group is left at most once: by a thread that incremented dbpd_performed to 1 after its body / skip, or by
   the thread that released the last reference of an object that was never performed *)
Lemma only_leave pf s t e s' : reach pf s -> gstep s t e = Some s' -> leaves s' <> leaves s ->
  leaves s = 0 /\ leaves s' = 1 /\ gcount s' = 0 /\
  ((exists v, pcs s t = PLeave v /\ 1 <= ninv s /\ 1 <= fin s /\ dleave s' = false) \/
   (pcs s t = PDtorLeave /\ disposed s = true /\ performed s = 0 /\ dleave s' = true)).
Proof.
  intros R Hs Hl. pose proof (reach_gstep pf s t e s' R Hs) as R'. apply gstep_gs in Hs.
  destruct (inv_reach pf s R) as ((_ & _ & _ & _ & _ & A6 & _ & A8 & AT) & _ & _ & _ & (_ & _ & D2 & D3 & _ & _ & D7)).
  destruct (inv_reach pf s' R') as ((_ & _ & _ & _ & _ & _ & _ & A8' & _) & _).
  destruct (gs_frame _ _ _ Hs) as (Hh & _ & _ & _ & [X|[(v & Hpc & G & L & Dl)|(Hpc & G & L & Dl)]] & _); [contradiction| |].
  - specialize (AT t). unfold tinvA in AT. rewrite Hpc in AT. destruct AT as [N1 Hg]. rewrite Hg in A8.
    rewrite Hh, Hg in A8'. destruct A8 as (G1 & G2 & G3). destruct A8' as (G1' & G2' & G3').
    assert (AL : disposed s = false /\ dleave s = false) by (apply (busy_alive pf s t R); rewrite Hpc; reflexivity).
    repeat split; try lia. left. exists v. repeat split; auto. rewrite Dl. apply AL.
  - assert (Hg : hasgrp s = true).
    { destruct (hasgrp s) eqn:E; [reflexivity|]. destruct A8 as (G0 & _). contradiction. }
    rewrite Hg in A8. rewrite Hh, Hg in A8'. destruct A8 as (G1 & G2 & G3). destruct A8' as (G1' & G2' & G3').
    repeat split; try lia. right. repeat split; auto; [|apply (D7 t Hpc)].
    destruct (disposed s) eqn:E; [reflexivity|]. destruct (D3 eq_refl) as [_ X]. specialize (X t). rewrite Hpc in X. discriminate X.
Qed.
Lemma destructor_leaves_iff_never_performed pf s t e s' : reach pf s -> pcs s t = PDtorPerf -> gstep s t e = Some s' ->
  pcs s' t = (if performed s =? 0 then PDtorLeave else PDtorPost) /\ leaves s' = leaves s.
Proof.
  intros R Hpc Hs. apply gstep_gs in Hs.
  destruct Hs; try (rewrite Hpc in H; discriminate H).
  - destruct H as [[X _]|[X _]]; rewrite Hpc in X; discriminate X.
  - destruct H as [[v0 X]|[[tmo X]|[X|X]]]; rewrite Hpc in X; discriminate X.
  - sf. rewrite upd_same. auto.
Qed.
(* the client contract built into the release step, and what follows from it *)
Lemma last_release_is_quiescent pf s t e s' : reach pf s -> pcs s t = PIdle -> ev_kind e DVU_CALL = true -> ea e = OP_RELEASE ->
  gstep s t e = Some s' ->
  (forall u, pcs s u = PIdle) /\ pendsub s = 0 /\ disposed s = false /\ disposed s' = true /\ dtor s' = Some t /\ pcs s' t = PDtorPerf.
Proof.
  intros R Hpc K Er Hs. destruct (inv_reach pf s R) as (_ & _ & _ & _ & (_ & D1' & _)).
  assert (Hp : pcs s' t = PDtorPerf).
  { pose proof (gstep_tstep _ _ _ _ Hs) as Ht. rewrite Hpc in Ht. unfold tstep in Ht.
    destruct (is_grp e); [discriminate Ht|]. rewrite K, Er in Ht. cbn in Ht. congruence. }
  apply gstep_gs in Hs.
  destruct Hs; try (rewrite Hpc in H; discriminate H).
  - exfalso. sf. rewrite upd_same in Hp. pose proof (dtor_pc_call _ _ _ H0 H1) as X. rewrite Hp in X. discriminate X.
  - exfalso. pose proof (dtor_pc_inv_entry v (flags s)) as X. unfold entry_fx in Hp.
    destruct (hasb (flags s) WAITED); [|destruct (hasb (flags s) CANCELED)]; sf; rewrite upd_same in Hp; rewrite Hp in X; discriminate X.
  - destruct H as [[v0 X]|[[tmo X]|[X|X]]]; rewrite Hpc in X; discriminate X.
  - sf. rewrite upd_same. repeat split; auto. intros u. apply pc_idle_true. destruct (pc_idle (pcs s u)) eqn:E; [reflexivity|].
    apply D1' in E. rewrite H0 in E. destruct E.
Qed.
Lemma leave_iff_inc_result_1 self v e p : tstep self (PInc v) e = Some p ->
  (p = PLeave v /\ wrapsz 4 (ea e + 1) = 1) \/ (p = PPost v false /\ wrapsz 4 (ea e + 1) <> 1).
Proof.
  unfold tstep, tstep_grp. destruct (is_grp e); [discriminate|].
  destruct (ev_is e DV_ADD MO_RELAXED OFF_PERF && (eb e =? 1) && (esz e =? 4)); [|discriminate].
  intros H. injection H as <-. destruct (Z.eqb_spec (wrapsz 4 (ea e + 1)) 1); auto.
Qed.

(* ---- C19_wait_nonzero_only_by_timeout ---- *)
Lemma waitout_only_from_group_wait self p e r : tstep self p e = Some (PWaitOut r) ->
  exists tmo, p = PWaitG tmo /\ ek e = DVG_WAITRET /\ ea e = r /\ (r = 0 \/ (r = 1 /\ tmo <> FOREVER)).
Proof.
  unfold tstep, tstep_grp. intros H. destruct (is_grp e).
  - destruct p; try discriminate;
      repeat match type of H with
      | (if ?c then _ else _) = Some _ => destruct c eqn:?; try discriminate
      | (match ?x with _ => _ end) = Some _ => destruct x eqn:?; try discriminate
      | Some (if ?c then _ else _) = Some _ => destruct c eqn:?; try discriminate
      end; try discriminate.
    injection H as <-. exists tmo. split; [reflexivity|]. split; [apply Z.eqb_eq; assumption|]. split; [reflexivity|].
    match goal with X : (_ || _) = true |- _ => rename X into HX end. apply orb_true_iff in HX as [HX|HX].
    + left. apply Z.eqb_eq. assumption.
    + right. apply andb_true_iff in HX as [X1 X2]. split; [apply Z.eqb_eq; exact X1|].
      apply negb_true_iff in X2. apply Z.eqb_neq. exact X2.
  - destruct p; try discriminate;
      repeat match type of H with
      | (if ?c then _ else _) = Some _ => destruct c eqn:?; try discriminate
      | (match ?x with _ => _ end) = Some _ => destruct x eqn:?; try discriminate
      | Some (if ?c then _ else _) = Some _ => destruct c eqn:?; try discriminate
      | Some (match ?x with _ => _ end) = Some _ => destruct x eqn:?; try discriminate
      end; try discriminate.
    all: exfalso; unfold call_entry, inv_entry, after_body, post_end in *;
      repeat match goal with
      | X : (if ?c then _ else _) = Some _ |- _ => destruct c; try discriminate X
      | X : Some (if ?c then _ else _) = Some _ |- _ => destruct c; try discriminate X
      | X : Some (match ?v with _ => _ end) = Some _ |- _ => destruct v; try discriminate X
      end; try discriminate.
Qed.
Lemma wait_way_out self r e p : tstep self (PWaitOut r) e = Some p ->
  p = PRet (if r =? 0 then 0 else 1) /\ ek e = (if r =? 0 then DV_OR else DV_AND) /\ eord e = MO_RELAXED /\
  eoff e = OFF_FLAGS /\ eb e = (if r =? 0 then WAITED else NOT_WAITING).
Proof.
  unfold tstep, tstep_grp. destruct (is_grp e); [discriminate|]. unfold ev_is.
  destruct (r =? 0);
    match goal with |- (if ?c then _ else _) = _ -> _ => destruct c eqn:C; [|discriminate] end;
    intros H; injection H as <-;
    repeat (apply andb_true_iff in C as [C ?]); repeat match goal with X : (_ =? _) = true |- _ => apply Z.eqb_eq in X end; auto.
Qed.
Lemma wait_way_out_effect s t e s' r : pcs s t = PWaitOut r -> gstep s t e = Some s' ->
  flags s' = (if r =? 0 then Z.lor (flags s) WAITED else Z.land (flags s) NOT_WAITING) /\ waiter s' = None /\
  Z.testbit (flags s') 0 = Z.testbit (flags s) 0 /\ Z.testbit (flags s') 3 = Z.testbit (flags s) 3 /\
  Z.testbit (flags s') 1 = (if r =? 0 then Z.testbit (flags s) 1 else false).
Proof.
  intros Hpc Hs. apply gstep_gs in Hs.
  destruct Hs; try (rewrite Hpc in H; discriminate H).
  - destruct H as [[X _]|[X _]]; rewrite Hpc in X; discriminate X.
  - destruct H as [[v X]|[[tmo X]|[X|X]]]; rewrite Hpc in X; discriminate X.
  - rewrite Hpc in H. injection H as <-. sf. destruct (r =? 0); bits; auto.
Qed.

(* ---- C19_notify_once_not_early ---- *)
Lemma notify_once_not_early pf s i : reach pf s ->
  0 <= fcnt s i <= 1 /\
  (fcnt s i = 1 -> 0 <= i < nreg s /\ leaves s = 1 /\
     ((dleave s = false /\ 1 <= ninv s /\ 1 <= fin s) \/ (dleave s = true /\ disposed s = true /\ performed s = 0))) /\
  (0 <= i < nreg s -> leaves s = 1 -> fcnt s i = 1) /\
  (0 <= i < nreg s -> leaves s = 0 -> fcnt s i = 0 /\ In i (pending s)).
Proof.
  intros R. pose proof (inv_reach pf s R) as ((_ & _ & _ & _ & _ & _ & _ & A8 & _) & (N0 & N1 & N2 & N3 & N4 & N5 & N6) & _).
  assert (Hh : forall j, 0 <= j < nreg s -> hasgrp s = true).
  { intros j Hj. destruct (hasgrp s) eqn:E; [reflexivity|]. specialize (N6 eq_refl). lia. }
  split; [apply N1|]. split; [|split].
  - intros F1. destruct (N2 i F1) as [Ri G0]. split; [exact Ri|]. apply (completion_facts pf s R); [eapply Hh; eauto|exact G0].
  - intros Ri L1. rewrite (Hh i Ri) in A8. destruct A8 as (G1 & _). assert (G0 : gcount s = 0) by lia.
    destruct (N4 i Ri) as [X|X]; [|exact X]. rewrite (N5 G0) in X. destruct X.
  - intros Ri L0. rewrite (Hh i Ri) in A8. destruct A8 as (G1 & _).
    assert (F0 : fcnt s i = 0).
    { pose proof (N1 i). destruct (Z.eq_dec (fcnt s i) 1) as [E|E]; [|lia]. destruct (N2 i E). lia. }
    split; [exact F0|]. destruct (N4 i Ri) as [X|X]; [exact X|lia].
Qed.

(* ---- C19_cancel_before_start_skips_body_but_completes ---- *)
Lemma entry_after_cancel s t v n : InvA s -> cancelled s = true ->
  let s' := entry_fx (set_pend (set_pc s t (inv_entry v (flags s))) n) (flags s) in
  bodies s' = bodies s /\
  (pcs s' t = PCrash \/ (fin s' = fin s + 1 /\ pcs s' t = (if hasgrp s then PInc v else PPost v false))).
Proof.
  intros (A1 & A2 & _) C. specialize (A1 C). unfold entry_fx, inv_entry.
  destruct (hasb (flags s) WAITED); sf; [split; [reflexivity|left; apply upd_same]|].
  rewrite hasb_C, A1. sf. split; [reflexivity|]. right. split; [reflexivity|]. rewrite upd_same.
  unfold after_body. rewrite hasb_P, A2. destruct (hasgrp s); reflexivity.
Qed.
Lemma cancel_before_read_skips pf s t e s' v : reach pf s -> cancelled s = true ->
  (pcs s t = PInvRead v \/ (pcs s t = PIdle /\ v = VAsync /\ ev_kind e DVU_CALL = false)) ->
  gstep s t e = Some s' ->
  bodies s' = bodies s /\
  (pcs s' t = PCrash \/ (fin s' = fin s + 1 /\ pcs s' t = (if hasgrp s then PInc v else PPost v false))).
Proof.
  intros R C Hpc Hs. destruct (inv_reach pf s R) as (A & _).
  assert (X : exists n, s' = entry_fx (set_pend (set_pc s t (inv_entry v (flags s))) n) (flags s)).
  { unfold gstep in Hs.
    match type of Hs with (if ?g then None else _) = _ => destruct g; [discriminate Hs|] end.
    unfold tstep in Hs. destruct Hpc as [Hpc|(Hpc & -> & K)]; rewrite Hpc in Hs.
    - destruct (is_grp e); [discriminate|].
      destruct (ev_is e DV_LOAD MO_PLAIN OFF_FLAGS); [|discriminate]. cbv zeta in Hs.
      destruct (Z.eqb_spec (ea e) (flags s)) as [E|]; [|discriminate]. injection Hs as <-. rewrite E. exists (pendsub s). reflexivity.
    - destruct (is_grp e); [discriminate|]. rewrite K in Hs.
      destruct (ev_is e DV_LOAD MO_PLAIN OFF_FLAGS); [|discriminate]. cbv zeta in Hs. rewrite ?K in Hs.
      destruct (Z.eqb_spec (ea e) (flags s)) as [E|]; [|discriminate]. cbn [andb] in Hs.
      destruct (0 <? pendsub s); [|discriminate]. injection Hs as <-. rewrite E. exists (pendsub s - 1). reflexivity. }
  destruct X as [n X].
  rewrite X. apply entry_after_cancel; assumption.
Qed.
Lemma inc_step pf s t e s' v : reach pf s -> pcs s t = PInc v -> gstep s t e = Some s' ->
  ninv s' = ninv s + 1 /\ performed s' = wrapsz 4 (performed s + 1) /\
  ((performed s' = 1 /\ pcs s' t = PLeave v) \/ (performed s' <> 1 /\ pcs s' t = PPost v false)) /\
  (ninv s = 0 -> pcs s' t = PLeave v).
Proof.
  intros R Hpc Hs. destruct (inv_reach pf s R) as ((_ & _ & _ & _ & _ & _ & A7 & _) & _). apply gstep_gs in Hs.
  destruct Hs; try (rewrite Hpc in H; discriminate H).
  - destruct H as [[X _]|[X _]]; rewrite Hpc in X; discriminate X.
  - rewrite Hpc in H. injection H as <-. sf. rewrite upd_same. split; [reflexivity|]. split; [reflexivity|]. split.
    + destruct (Z.eqb_spec (wrapsz 4 (performed s + 1)) 1); auto.
    + intros N0. rewrite A7, N0. reflexivity.
  - destruct H as [[v0 X]|[[tmo X]|[X|X]]]; rewrite Hpc in X; discriminate X.
Qed.
Lemma leave_step pf s t e s' v : reach pf s -> pcs s t = PLeave v -> gstep s t e = Some s' ->
  (leaves s = 0 /\ gcount s' = 0 /\ leaves s' = 1 /\ pending s' = [] /\ pcs s' t = PPost v true /\
   (forall i, 0 <= i < nreg s' -> fcnt s' i = 1)) \/
  (leaves s = 1 /\ pcs s' t = PCrash).
Proof.
  intros R Hpc Hs. pose proof (reach_gstep pf s t e s' R Hs) as R'.
  destruct (inv_reach pf s R) as ((_ & _ & _ & _ & _ & _ & _ & A8 & _) & _). apply gstep_gs in Hs.
  destruct Hs; try (rewrite Hpc in H; discriminate H).
  - destruct H as [[X _]|[X _]]; rewrite Hpc in X; discriminate X.
  - (* the leave *)
    left. rewrite H0 in A8. destruct A8 as (G1 & G2 & G3).
    assert (L0 : leaves s = 0) by lia. assert (G : gcount s = 1) by lia.
    assert (E : leave_fx (set_pc s t (PPost v0 true)) =
                set_grp (set_pc s t (PPost v0 true)) 0 [] (leaves s + 1) (nreg s) (fire (pending s) (fcnt s))).
    { unfold leave_fx; sf. rewrite G. reflexivity. }
    rewrite E in *. sf. rewrite upd_same. rewrite Hpc in H. injection H as <-.
    repeat split; auto; try lia.
    intros i Ri. destruct (notify_once_not_early pf _ i R') as (_ & _ & X & _). sf. apply X; [exact Ri|lia].
  - right. rewrite H0 in A8. destruct A8 as (G1 & G2 & G3). sf. rewrite upd_same. split; [lia|reflexivity].
  - destruct H as [[v0 X]|[[tmo X]|[X|X]]]; rewrite Hpc in X; discriminate X.
Qed.
Lemma body_runner_read_clear pf s t : reach pf s ->
  match pcs s t with PSetThread f | PBodyNext _ f | PInBody _ f => Z.testbit f 0 = false | _ => True end.
Proof.
  intros R. destruct (inv_reach pf s R) as ((_ & _ & _ & _ & _ & _ & _ & _ & AT) & _). specialize (AT t).
  unfold tinvA in AT. destruct (pcs s t); auto; apply AT.
Qed.

(* ---- C19_cancel_while_running_not_interrupted ---- *)
Lemma running_not_interrupted s t e s' v f : pcs s t = PInBody v f -> gstep s t e = Some s' ->
  ev_kind e DVU_CALLOUT_END = true /\ pcs s' t = after_body v f /\ fin s' = fin s + 1 /\ flags s' = flags s /\
  bodies s' = bodies s /\ cancelled s' = cancelled s.
Proof.
  intros Hpc Hs. unfold gstep, tstep in Hs. rewrite Hpc in Hs.
  match type of Hs with (if ?g then None else _) = _ => destruct g; [discriminate Hs|] end. destruct (is_grp e); [discriminate|].
  destruct (ev_kind e DVU_CALLOUT_END); [|discriminate]. cbv zeta in Hs. injection Hs as <-. sf. rewrite upd_same.
  repeat split; reflexivity.
Qed.
Lemma others_do_not_move_me s t u e s' : gstep s u e = Some s' -> u <> t -> pcs s' t = pcs s t.
Proof. intros Hs Ne. apply gstep_gs in Hs. destruct (gs_frame _ _ _ Hs) as (_ & X & _). apply X. auto. Qed.

(* ---- C19_testcancel_monotone ---- *)
Lemma cancel_sets s t e s' : pcs s t = PCancel -> gstep s t e = Some s' ->
  cancelled s' = true /\ Z.testbit (flags s') 0 = true /\ pcs s' t = PRet 0.
Proof.
  intros Hpc Hs. unfold gstep, tstep in Hs. rewrite Hpc in Hs.
  match type of Hs with (if ?g then None else _) = _ => destruct g; [discriminate Hs|] end. destruct (is_grp e); [discriminate|].
  destruct (ev_is e DV_OR MO_RELAXED OFF_FLAGS && (eb e =? CANCELED) && (esz e =? 4)); [|discriminate]. cbv zeta in Hs.
  destruct (ea e =? flags s); [|discriminate]. injection Hs as <-. sf. rewrite upd_same. bits. repeat split; reflexivity.
Qed.
Lemma canceled_bit_never_cleared s t e s' : gstep s t e = Some s' ->
  (cancelled s = true -> cancelled s' = true) /\ (Z.testbit (flags s) 0 = true -> Z.testbit (flags s') 0 = true).
Proof. intros Hs. apply gstep_gs in Hs. destruct (gs_frame _ _ _ Hs) as (_ & _ & X & Y & _). auto. Qed.
Lemma cancelled_visible pf s : reach pf s -> cancelled s = true -> Z.testbit (flags s) 0 = true.
Proof. intros R. destruct (inv_reach pf s R) as ((A1 & _) & _). exact A1. Qed.
Lemma testcancel_after_cancel pf s t e s' : reach pf s -> cancelled s = true -> pcs s t = PTestRead ->
  gstep s t e = Some s' -> pcs s' t = PRet 1.
Proof.
  intros R C Hpc Hs. pose proof (cancelled_visible pf s R C) as B.
  unfold gstep, tstep in Hs. rewrite Hpc in Hs.
  match type of Hs with (if ?g then None else _) = _ => destruct g; [discriminate Hs|] end. destruct (is_grp e); [discriminate|].
  destruct (ev_is e DV_LOAD MO_PLAIN OFF_FLAGS); [|discriminate]. cbv zeta in Hs.
  destruct (Z.eqb_spec (ea e) (flags s)) as [E|]; [|discriminate]. injection Hs as <-. sf. rewrite upd_same.
  rewrite E, hasb_C, B. reflexivity.
Qed.

(* ---- C19_perform_never_leaves_group ---- *)
Lemma perform_never_leaves s : reach true s ->
  leaves s = 0 /\ ninv s = 0 /\ performed s = 0 /\ gcount s = 0 /\ Z.testbit (flags s) 3 = true /\
  forall t v, pcs s t <> PLeave v /\ pcs s t <> PInc v.
Proof.
  intros R. pose proof (hasgrp_const true s R) as Hh. cbn in Hh.
  destruct (inv_reach true s R) as ((_ & A2 & _ & _ & _ & _ & A7 & A8 & AT) & _). rewrite Hh in A8, A2.
  destruct A8 as (G0 & L0 & N0). rewrite N0 in A7. repeat split; auto.
  - intros X. specialize (AT t). unfold tinvA in AT. rewrite X in AT. destruct AT as [_ Y]. congruence.
  - intros X. specialize (AT t). unfold tinvA in AT. rewrite X in AT. destruct AT as [_ Y]. congruence.
Qed.

(* ---- DBF_WAITING tracks the single waiter; a timed-out wait leaves no trace ---- *)
Lemma single_waiter pf s t u : reach pf s -> in_wait (pcs s t) = true -> in_wait (pcs s u) = true -> t = u.
Proof.
  intros R Ht Hu. destruct (inv_reach pf s R) as (_ & _ & (_ & _ & _ & WT) & _).
  destruct (WT t) as (T1 & _). destruct (WT u) as (U1 & _). specialize (T1 Ht). specialize (U1 Hu). congruence.
Qed.
Lemma waiting_bit pf s : reach pf s ->
  (Z.testbit (flags s) 1 = true <-> (waiter s <> None \/ Z.testbit (flags s) 2 = true)) /\
  (Z.testbit (flags s) 2 = true -> waiter s = None).
Proof.
  intros R. destruct (inv_reach pf s R) as (_ & _ & (W1 & W2 & _) & _). split; [exact W1|].
  intros X. destruct (W2 X) as (_ & _ & Y). exact Y.
Qed.

(* ---- the references on the target queue ---- *)
Lemma queue_refs pf s : reach pf s ->
  qref s = 2 * ((if queue s =? 0 then 0 else 1) + Z.of_nat (length (hands s))) /\ 0 <= qref s /\
  (queue s <> 0 -> 2 <= qref s) /\ (forall t, holds (pcs s t) = true -> 2 <= qref s).
Proof.
  intros R. destruct (inv_reach pf s R) as (_ & _ & _ & (Q1 & Q2 & Q3) & _). split; [exact Q1|].
  split; [destruct (queue s =? 0); lia|]. split.
  - intros X. destruct (Z.eqb_spec (queue s) 0); [contradiction|lia].
  - intros t Ht. apply Q3 in Ht. destruct (hands s) as [|x l]; [destruct Ht|]. cbn [length] in Q1.
    destruct (queue s =? 0); lia.
Qed.

(* ================= soundness of the conformance automaton (subset construction over latent steps) ================= *)
Inductive lat_path (self : Z) : pc -> list event -> pc -> Prop :=
| lp_nil p : lat_path self p [] p
| lp_cons p e p' l p'' : is_latent e = true -> tstep self p e = Some p' -> lat_path self p' l p'' ->
    lat_path self p (e :: l) p''.
(* a run of tstep over the visible trace tr with latent steps interleaved *)
Inductive vpath (self : Z) : pc -> list event -> pc -> Prop :=
| vp_nil p : vpath self p [] p
| vp_cons p l p1 e p2 tr p3 : lat_path self p l p1 -> tstep self p1 e = Some p2 -> vpath self p2 tr p3 ->
    vpath self p (e :: tr) p3.

Lemma lat_path_app self p l p' l' p'' : lat_path self p l p' -> lat_path self p' l' p'' -> lat_path self p (l ++ l') p''.
Proof. induction 1; cbn; [auto|]. intros X. econstructor; eauto. Qed.

Lemma latents_latent self pf p e : In e (latents self pf p) -> is_latent e = true.
Proof.
  destruct pf, p; cbn; intros H; repeat (destruct H as [<-|H]; [reflexivity|]); destruct H.
Qed.
Lemma succs_In self p es p' : In p' (succs self p es) <-> exists e, In e es /\ tstep self p e = Some p'.
Proof.
  unfold succs. rewrite in_flat_map. split.
  - intros (e & He & X). exists e. split; [exact He|]. destruct (tstep self p e); [destruct X as [<-|[]]; reflexivity|destruct X].
  - intros (e & He & X). exists e. split; [exact He|]. rewrite X. left. reflexivity.
Qed.
Lemma closure_sound self pf n : forall ps p, In p (closure self pf n ps) -> exists p0 l, In p0 ps /\ lat_path self p0 l p.
Proof.
  induction n as [|n IH]; cbn; intros ps p H.
  - exists p, []. split; [exact H|constructor].
  - apply in_app_or in H as [H|H]; [exists p, []; split; [exact H|constructor]|].
    destruct (IH _ _ H) as (p1 & l & H1 & L). apply in_flat_map in H1 as (p0 & H0 & H1).
    apply succs_In in H1 as (e & He & Ht). exists p0, (e :: l). split; [exact H0|].
    econstructor; eauto. eapply latents_latent; eauto.
Qed.
Lemma vstep_sound self pf ps e p' : In p' (vstep self pf ps e) ->
  exists p0 l p1, In p0 ps /\ lat_path self p0 l p1 /\ tstep self p1 e = Some p'.
Proof.
  unfold vstep. intros H. apply in_flat_map in H as (p1 & H1 & H2).
  apply succs_In in H2 as (e' & [<-|[]] & Ht). destruct (closure_sound _ _ _ _ _ H1) as (p0 & l & H0 & L).
  exists p0, l, p1. auto.
Qed.
Lemma vrun_sound self pf tr : forall ps i ps', 0 <= i -> vrun self pf ps tr i = (ps', -1) ->
  forall p', In p' ps' -> exists p0, In p0 ps /\ vpath self p0 tr p'.
Proof.
  induction tr as [|e tr IH]; cbn [vrun]; intros ps i ps' Hi H p' Hp'.
  - injection H as <-. exists p'. split; [exact Hp'|constructor].
  - destruct (vstep self pf ps e) as [|q qs] eqn:E; [inversion H; lia|].
    assert (Hi' : 0 <= i + 1) by lia.
    destruct (IH (q :: qs) (i + 1) ps' Hi' H p' Hp') as (p2 & H2 & V).
    rewrite <- E in H2. destruct (vstep_sound _ _ _ _ _ H2) as (p0 & l & p1 & H0 & L & Ht).
    exists p0. split; [exact H0|]. econstructor; eauto.
Qed.
(* an accepted trace is a run of the thread automaton from PIdle back to PIdle, for some values of the latent events *)
Lemma conform_sound self pf tr : conform self pf tr = (-1, 1) ->
  exists p l, vpath self PIdle tr p /\ lat_path self p l PIdle.
Proof.
  unfold conform. destruct (vrun self pf [PIdle] tr 0) as [ps i] eqn:E. intros H.
  pose proof (f_equal fst H) as H1. pose proof (f_equal snd H) as H2. cbn [fst snd] in H1, H2. subst i.
  destruct (existsb pc_idle (closure self pf LAT_DEPTH ps)) eqn:X; [|discriminate H2].
  apply existsb_exists in X as (q & Hq & Iq). destruct q; try discriminate.
  destruct (closure_sound _ _ _ _ _ Hq) as (p & l & Hp & L).
  destruct (vrun_sound self pf tr [PIdle] 0 ps (Z.le_refl 0) E p Hp) as (p0 & [<-|[]] & V).
  exists p, l. auto.
Qed.
