(* Block_proofs.v — invariants of the block-object model (Model/Block.v) for any number of threads, any number of
   invocations of the same object and any interleaving. *)
From Coq Require Import ZArith Bool List Lia.
From Verif Require Import Word Bits Conc Gen_consts Gen_fields Gen_group Gen_block Block.
Import ListNotations.
Local Open Scope Z_scope.

(* ---- the model's site lists are the ones the translator reads from the source ---- *)
Lemma sites_cancel : model_sites_cancel = dispatch_block_cancel_sites. Proof. reflexivity. Qed.
Lemma sites_testcancel : model_sites_testcancel = dispatch_block_testcancel_sites. Proof. reflexivity. Qed.
Lemma sites_wait : model_sites_wait = dispatch_block_wait_sites. Proof. reflexivity. Qed.
Lemma sites_notify : model_sites_notify = dispatch_block_notify_sites. Proof. reflexivity. Qed.
Lemma sites_invoke_direct : model_sites_invoke_direct = block_invoke_direct_sites. Proof. reflexivity. Qed.
Lemma sites_sync_invoke : model_sites_sync_invoke = block_sync_invoke_sites. Proof. reflexivity. Qed.
Lemma sites_async_invoke2 : model_sites_async_invoke2 = block_async_invoke2_sites. Proof. reflexivity. Qed.
Lemma sites_init_slow : model_sites_submit = block_init_slow_sites. Proof. reflexivity. Qed.
Lemma sites_sync_submit : model_sites_submit = firstn 3 block_sync_submit_sites. Proof. reflexivity. Qed.
Lemma sites_async_and_wait_submit : model_sites_submit = firstn 3 block_async_and_wait_submit_sites.
Proof. reflexivity. Qed.
Lemma consts_bits : CANCELED = 2 ^ 0 /\ WAITING = 2 ^ 1 /\ WAITED = 2 ^ 2 /\ PERFORM = 2 ^ 3 /\ NOT_WAITING = 4294967293.
Proof. repeat split. Qed.

(* ---- bits ---- *)
Lemma land_pow2 f k : 0 <= k -> Z.land f (2 ^ k) = if Z.testbit f k then 2 ^ k else 0.
Proof.
  intros Hk. apply Z.bits_inj'. intros n Hn. rewrite Z.land_spec, Z.pow2_bits_eqb by lia.
  destruct (Z.eqb_spec k n) as [->|Ne].
  - rewrite andb_true_r. destruct (Z.testbit f n) eqn:E.
    + rewrite Z.pow2_bits_eqb by lia. rewrite Z.eqb_refl. reflexivity.
    + rewrite Z.bits_0. reflexivity.
  - rewrite andb_false_r. destruct (Z.testbit f k).
    + rewrite Z.pow2_bits_eqb by lia. destruct (Z.eqb_spec k n); [contradiction|reflexivity].
    + rewrite Z.bits_0. reflexivity.
Qed.
Lemma hasb_bit f k : 0 <= k -> hasb f (2 ^ k) = Z.testbit f k.
Proof.
  intros Hk. unfold hasb. rewrite land_pow2 by exact Hk. destruct (Z.testbit f k); [|reflexivity].
  assert (0 < 2 ^ k) by (apply Z.pow_pos_nonneg; lia). destruct (Z.eqb_spec (2 ^ k) 0); [lia|reflexivity].
Qed.
Lemma hasb_C f : hasb f CANCELED = Z.testbit f 0. Proof. apply (hasb_bit f 0). lia. Qed.
Lemma hasb_W f : hasb f WAITING = Z.testbit f 1. Proof. apply (hasb_bit f 1). lia. Qed.
Lemma hasb_D f : hasb f WAITED = Z.testbit f 2. Proof. apply (hasb_bit f 2). lia. Qed.
Lemma hasb_P f : hasb f PERFORM = Z.testbit f 3. Proof. apply (hasb_bit f 3). lia. Qed.
Lemma hasb_lor f a b : hasb f (Z.lor a b) = hasb f a || hasb f b.
Proof.
  unfold hasb. rewrite Z.land_lor_distr_r.
  destruct (Z.eqb_spec (Z.land f a) 0) as [A|A], (Z.eqb_spec (Z.land f b) 0) as [B|B]; cbn;
    destruct (Z.eqb_spec (Z.lor (Z.land f a) (Z.land f b)) 0) as [E|E]; try reflexivity; exfalso.
  - apply E. rewrite A, B. reflexivity.
  - apply Z.lor_eq_0_iff in E. tauto.
  - apply Z.lor_eq_0_iff in E. tauto.
  - apply Z.lor_eq_0_iff in E. tauto.
Qed.
Lemma hasb_DW f : hasb f (Z.lor WAITED WAITING) = Z.testbit f 2 || Z.testbit f 1.
Proof. rewrite hasb_lor, hasb_D, hasb_W. reflexivity. Qed.

(* how the four modifications of the flags word act on each bit *)
Lemma bit_lor f m k : Z.testbit (Z.lor f m) k = Z.testbit f k || Z.testbit m k.
Proof. apply Z.lor_spec. Qed.
Lemma bit_land f m k : Z.testbit (Z.land f m) k = Z.testbit f k && Z.testbit m k.
Proof. apply Z.land_spec. Qed.
Ltac bits :=
  unfold CANCELED, WAITING, WAITED, PERFORM, NOT_WAITING, DBF_CANCELED, DBF_WAITING, DBF_WAITED, DBF_PERFORM, not32 in *;
  repeat rewrite bit_lor in *; repeat rewrite bit_land in *;
  repeat match goal with
  | |- context [Z.testbit ?c ?k] => lazymatch c with Zpos _ => let v := eval vm_compute in (Z.testbit c k) in change (Z.testbit c k) with v end
  | H : context [Z.testbit ?c ?k] |- _ => lazymatch c with Zpos _ => let v := eval vm_compute in (Z.testbit c k) in change (Z.testbit c k) with v in H end
  end;
  repeat rewrite orb_false_r in *; repeat rewrite orb_true_r in *; repeat rewrite andb_true_r in *; repeat rewrite andb_false_r in *.

(* ---- the global model moves threads by the conformance automaton ---- *)
Lemma gstep_tstep s t e s' : gstep s t e = Some s' -> tstep t (pcs s t) e = Some (pcs s' t).
Proof.
  unfold gstep. destruct (tstep t (pcs s t) e) as [p'|]; [|discriminate]. intros Hs. f_equal.
  destruct (pcs s t); cbv zeta in Hs;
    repeat match type of Hs with
    | (if ?c then _ else _) = Some _ => destruct c; try discriminate
    | (match ?x with _ => _ end) = Some _ => destruct x; try discriminate
    end; try discriminate; injection Hs as <-;
    unfold entry_fx, leave_fx, notify_fx, take_queue;
    repeat match goal with |- context [if ?c then _ else _] => destruct c end; cbn; rewrite upd_same; reflexivity.
Qed.

(* ---- the steps of the global model as rules (gstep_gs below: every step of gstep is one of them) ---- *)
Definition sub_next (v : variant) : pc := match v with VSync => PInvRead VSync | _ => PRet 0 end.
Definition grp_noise (p : pc) : Prop := (exists v, p = PPost v true) \/ (exists tmo, p = PWaitG tmo) \/ p = PNotifyG.
Definition rm (t : Z) (l : list Z) : list Z := remove Z.eq_dec t l.

Inductive gs (s : gst) (t : Z) : gst -> Prop :=
| G_call op arg p : pcs s t = PIdle -> call_entry op arg = Some p -> gs s t (set_pc s t p)
| G_entry v : (pcs s t = PIdle /\ v = VAsync) \/ pcs s t = PInvRead v ->
    gs s t (entry_fx (set_pc s t (inv_entry v (flags s))) (flags s))
| G_ret r : pcs s t = PRet r -> gs s t (set_pc s t PIdle)
| G_retain v : pcs s t = PSubmit v -> gs s t (set_qref (set_pc s t (PSubmitCas v)) (qref s + 2) (t :: hands s))
| G_cas_ok v dq : pcs s t = PSubmitCas v -> queue s = 0 -> dq <> 0 ->
    gs s t (set_qref (set_queue (set_pc s t (sub_next v)) dq) (qref s) (rm t (hands s)))
| G_cas_fail v : pcs s t = PSubmitCas v -> queue s <> 0 -> gs s t (set_pc s t (PSubmitRel v))
| G_subrel v : pcs s t = PSubmitRel v -> gs s t (set_qref (set_pc s t (sub_next v)) (qref s - 2) (rm t (hands s)))
| G_setthread f x : pcs s t = PSetThread f -> gs s t (set_thread (set_pc s t (PBodyNext VDirect f)) x)
| G_begin v f : pcs s t = PBodyNext v f -> gs s t (set_run (set_pc s t (PInBody v f)) (bodies s + 1) (fin s))
| G_end v f : pcs s t = PInBody v f -> gs s t (set_run (set_pc s t (after_body v f)) (bodies s) (fin s + 1))
| G_inc v : pcs s t = PInc v ->
    gs s t (set_perf (set_pc s t (if wrapsz 4 (performed s + 1) =? 1 then PLeave v else PPost v false))
              (wrapsz 4 (performed s + 1)) (ninv s + 1))
| G_leave v : pcs s t = PLeave v -> hasgrp s = true -> gcount s <> 0 -> gs s t (leave_fx (set_pc s t (PPost v true)))
| G_leave_crash v : pcs s t = PLeave v -> hasgrp s = true -> gcount s = 0 -> gs s t (set_pc s t PCrash)
| G_noise : grp_noise (pcs s t) -> (pcs s t = PNotifyG \/ (exists tmo, pcs s t = PWaitG tmo) -> hasgrp s = true) ->
    gs s t (set_pc s t (pcs s t))
| G_post_ret g : pcs s t = PPost VDirect g -> gs s t (set_pc s t PIdle)
| G_post_xchg v g : pcs s t = PPost v g -> v <> VDirect ->
    gs s t (take_queue (set_pc s t (if queue s =? 0 then post_end v else PRel v)) t)
| G_rel v : pcs s t = PRel v -> gs s t (set_qref (set_pc s t (post_end v)) (qref s - 2) (rm t (hands s)))
| G_cancel : pcs s t = PCancel -> gs s t (set_flags (set_pc s t (PRet 0)) (Z.lor (flags s) CANCELED) true (waiter s))
| G_test : pcs s t = PTestRead -> gs s t (set_pc s t (PRet (b2z (hasb (flags s) CANCELED))))
| G_wait_or tmo : pcs s t = PWaitOr tmo ->
    gs s t (set_flags (set_pc s t (if hasb (flags s) (Z.lor WAITED WAITING) then PCrash else PWaitXchg tmo))
              (Z.lor (flags s) WAITING) (cancelled s)
              (if hasb (flags s) (Z.lor WAITED WAITING) then waiter s else Some t))
| G_wait_xchg tmo : pcs s t = PWaitXchg tmo ->
    gs s t (take_queue (set_pc s t (if queue s =? 0 then PWaitThread tmo 0 else PWaitWake tmo (queue s))) t)
| G_wait_wake tmo bq : pcs s t = PWaitWake tmo bq ->
    gs s t (set_qref (set_pc s t (PWaitThread tmo bq)) (qref s - 2) (rm t (hands s)))
| G_wait_thread tmo bq : pcs s t = PWaitThread tmo bq -> gs s t (set_pc s t (PWaitPerf tmo bq (thread s)))
| G_wait_perf tmo bq bt p : pcs s t = PWaitPerf tmo bq bt -> p = PCrash \/ p = PWaitG tmo -> gs s t (set_pc s t p)
| G_waitret0 tmo : pcs s t = PWaitG tmo -> hasgrp s = true -> gcount s = 0 -> gs s t (set_pc s t (PWaitOut 0))
| G_waitret1 tmo : pcs s t = PWaitG tmo -> hasgrp s = true -> tmo <> FOREVER -> gs s t (set_pc s t (PWaitOut 1))
| G_wait_out r : pcs s t = PWaitOut r ->
    gs s t (set_flags (set_pc s t (PRet (if r =? 0 then 0 else 1)))
              (if r =? 0 then Z.lor (flags s) WAITED else Z.land (flags s) NOT_WAITING) (cancelled s) None)
| G_notify_perf p : pcs s t = PNotifyPerf -> p = PCrash \/ p = PNotifyG -> gs s t (set_pc s t p)
| G_notify : pcs s t = PNotifyG -> hasgrp s = true -> gs s t (notify_fx (set_pc s t (PRet 0))).

Lemma wrap_inc a : wrapsz 4 (a + 1) = wrapsz 4 (u32 a + 1).
Proof. unfold wrapsz, u32. change (2 ^ (8 * 4)) with 4294967296. rewrite Zplus_mod_idemp_l. reflexivity. Qed.

Ltac split_ands H :=
  repeat match type of H with
  | (_ && _) = true => let H1 := fresh H in apply andb_true_iff in H as [H H1]; try split_ands H1
  end.

Lemma gstep_gs s t e s' : gstep s t e = Some s' -> gs s t s'.
Proof.
  intros Hs. unfold gstep in Hs.
  destruct (tstep t (pcs s t) e) as [p'|] eqn:Hts; [|discriminate]. cbv zeta in Hs.
  unfold tstep in Hts. destruct (is_grp e) eqn:Hg.
  - (* events on the private group's word *)
    unfold tstep_grp in Hts. destruct (pcs s t) eqn:Hpc; try discriminate.
    + (* PLeave *)
      destruct (ev_is e DV_ADD MO_RELEASE 0 && (eb e =? G_INTERVAL) && (esz e =? 8)); [|discriminate].
      injection Hts as <-.
      destruct (hasgrp s) eqn:Hh; [|discriminate]. cbn [andb] in Hs.
      destruct (Z.land (ea e) G_VALUE_MASK =? 0) eqn:E1, (gcount s =? 0) eqn:E2; cbn in Hs; try discriminate;
        injection Hs as <-.
      * apply (G_leave_crash s t v); auto. apply Z.eqb_eq. exact E2.
      * apply (G_leave s t v); auto. apply Z.eqb_neq. exact E2.
    + (* PPost v true *)
      destruct g; [|discriminate]. destruct (raw e); [|discriminate]. injection Hts as <-. injection Hs as <-.
      rewrite <- Hpc. apply G_noise.
      * left. exists v. exact Hpc.
      * intros [X|[? X]]; rewrite Hpc in X; discriminate.
    + (* PWaitG *)
      destruct (hasgrp s) eqn:Hh; [|discriminate].
      destruct (ek e =? DVG_WAITRET) eqn:K.
      * destruct ((ea e =? 0) || ((ea e =? 1) && negb (tmo =? FOREVER))) eqn:C; [|discriminate]. injection Hts as <-.
        cbn [andb] in Hs. destruct (ea e =? 0) eqn:A.
        -- destruct (gcount s =? 0) eqn:E2; [|discriminate]. injection Hs as <-. apply Z.eqb_eq in A. rewrite A.
           apply (G_waitret0 s t tmo); auto. apply Z.eqb_eq. exact E2.
        -- injection Hs as <-. cbn [orb] in C. apply andb_true_iff in C as [C1 C2]. apply Z.eqb_eq in C1. rewrite C1.
           apply (G_waitret1 s t tmo); auto. apply negb_true_iff in C2. apply Z.eqb_neq. exact C2.
      * destruct (raw e); [|discriminate]. injection Hts as <-. cbn [andb] in Hs. injection Hs as <-.
        rewrite <- Hpc. apply G_noise; [right; left; exists tmo; exact Hpc | auto].
    + (* PNotifyG *)
      destruct (hasgrp s) eqn:Hh; [|discriminate].
      destruct (ek e =? DVG_NOTIFY) eqn:K.
      * injection Hts as <-. injection Hs as <-. apply G_notify; auto.
      * destruct (raw e); [|discriminate]. injection Hts as <-. injection Hs as <-.
        rewrite <- Hpc. apply G_noise; [right; right; exact Hpc | auto].
  - destruct (pcs s t) eqn:Hpc; try discriminate.
    + (* PIdle *)
      destruct (ev_kind e DVU_CALL) eqn:K.
      * injection Hs as <-. eapply G_call; eauto.
      * destruct (ev_is e DV_LOAD MO_PLAIN OFF_FLAGS); [|discriminate]. injection Hts as <-.
        destruct (Z.eqb_spec (ea e) (flags s)) as [Ea|]; [|discriminate]. injection Hs as <-. rewrite ?Ea.
        apply (G_entry s t VAsync). left. auto.
    + (* PRet *)
      destruct (ev_kind e DVU_RET && (b2z (nz (ea e)) =? r)); [|discriminate]. injection Hts as <-. injection Hs as <-.
      eapply G_ret; eauto.
    + (* PSubmit *)
      destruct (ev_kind e DVQ_RETAIN2); [|discriminate]. injection Hts as <-. injection Hs as <-. apply G_retain; auto.
    + (* PSubmitCas *)
      destruct (ev_is e DV_CAS MO_RELAXED OFF_QUEUE && (esz e =? 8) && negb (eb e =? 0)) eqn:C; [|discriminate].
      apply andb_true_iff in C as [_ C]. apply negb_true_iff in C. apply Z.eqb_neq in C. injection Hts as <-.
      destruct ((ea e =? queue s) && (eok e =? (if queue s =? 0 then 1 else 0))) eqn:C2; [|discriminate].
      apply andb_true_iff in C2 as [_ C2]. apply Z.eqb_eq in C2.
      destruct (Z.eqb_spec (queue s) 0) as [Q|Q]; injection Hs as <-; rewrite C2; cbn [Z.eqb Pos.eqb].
      * apply (G_cas_ok s t v (eb e)); auto.
      * apply G_cas_fail; auto.
    + (* PSubmitRel *)
      destruct (ev_kind e DVQ_RELEASE2); [|discriminate]. injection Hts as <-. injection Hs as <-. apply G_subrel; auto.
    + (* PInvRead *)
      destruct (ev_is e DV_LOAD MO_PLAIN OFF_FLAGS); [|discriminate]. injection Hts as <-.
      destruct (Z.eqb_spec (ea e) (flags s)) as [Ea|]; [|discriminate]. injection Hs as <-. rewrite ?Ea.
      apply (G_entry s t v). right. auto.
    + (* PSetThread *)
      destruct (ev_is e DV_STORE MO_PLAIN OFF_THREAD && (eb e =? t)); [|discriminate]. injection Hts as <-.
      injection Hs as <-. apply G_setthread; auto.
    + destruct (ev_kind e DVU_CALLOUT_BEGIN); [|discriminate]. injection Hts as <-. injection Hs as <-. apply G_begin; auto.
    + destruct (ev_kind e DVU_CALLOUT_END); [|discriminate]. injection Hts as <-. injection Hs as <-. apply G_end; auto.
    + (* PInc *)
      destruct (ev_is e DV_ADD MO_RELAXED OFF_PERF && (eb e =? 1) && (esz e =? 4)); [|discriminate]. injection Hts as <-.
      destruct (Z.eqb_spec (u32 (ea e)) (performed s)) as [E|]; [|discriminate]. injection Hs as <-.
      rewrite (wrap_inc (ea e)). rewrite E. apply G_inc; auto.
    + (* PPost *)
      destruct v.
      * destruct (ev_kind e DVU_RET && (ea e =? 0)); [|discriminate]. injection Hts as <-. injection Hs as <-.
        eapply G_post_ret; eauto.
      * destruct (ev_is e DV_XCHG MO_RELAXED OFF_QUEUE && (eb e =? 0) && (esz e =? 8)); [|discriminate]. injection Hts as <-.
        destruct (Z.eqb_spec (ea e) (queue s)) as [Ea|]; [|discriminate]. injection Hs as <-. rewrite ?Ea.
        apply (G_post_xchg s t VSync g); auto. discriminate.
      * destruct (ev_is e DV_XCHG MO_RELAXED OFF_QUEUE && (eb e =? 0) && (esz e =? 8)); [|discriminate]. injection Hts as <-.
        destruct (Z.eqb_spec (ea e) (queue s)) as [Ea|]; [|discriminate]. injection Hs as <-. rewrite ?Ea.
        apply (G_post_xchg s t VAsync g); auto. discriminate.
    + (* PRel *)
      destruct (ev_kind e DVQ_RELEASE2); [|discriminate]. injection Hts as <-. injection Hs as <-. apply G_rel; auto.
    + (* PCancel *)
      destruct (ev_is e DV_OR MO_RELAXED OFF_FLAGS && (eb e =? CANCELED) && (esz e =? 4)); [|discriminate]. injection Hts as <-.
      destruct (Z.eqb_spec (ea e) (flags s)) as [Ea|]; [|discriminate]. injection Hs as <-. rewrite ?Ea. apply G_cancel; auto.
    + (* PTestRead *)
      destruct (ev_is e DV_LOAD MO_PLAIN OFF_FLAGS); [|discriminate]. injection Hts as <-.
      destruct (Z.eqb_spec (ea e) (flags s)) as [Ea|]; [|discriminate]. injection Hs as <-. rewrite ?Ea. apply G_test; auto.
    + (* PWaitOr *)
      destruct (ev_is e DV_OR MO_RELAXED OFF_FLAGS && (eb e =? WAITING) && (esz e =? 4)); [|discriminate]. injection Hts as <-.
      destruct (Z.eqb_spec (ea e) (flags s)) as [Ea|]; [|discriminate]. injection Hs as <-. rewrite ?Ea. apply G_wait_or; auto.
    + (* PWaitXchg *)
      destruct (ev_is e DV_XCHG MO_RELAXED OFF_QUEUE && (eb e =? 0) && (esz e =? 8)); [|discriminate]. injection Hts as <-.
      destruct (Z.eqb_spec (ea e) (queue s)) as [Ea|]; [|discriminate]. injection Hs as <-. rewrite ?Ea. apply G_wait_xchg; auto.
    + (* PWaitWake *)
      destruct (ev_kind e DVQ_RELEASE2); [|discriminate]. injection Hts as <-. injection Hs as <-. apply G_wait_wake; auto.
    + (* PWaitThread *)
      destruct (ev_is e DV_LOAD MO_PLAIN OFF_THREAD); [|discriminate]. injection Hts as <-.
      destruct (Z.eqb_spec (ea e) (thread s)) as [Ea|]; [|discriminate]. injection Hs as <-. rewrite ?Ea. apply G_wait_thread; auto.
    + (* PWaitPerf *)
      destruct (ev_is e DV_LOAD MO_RELAXED OFF_PERF && (esz e =? 4)); [|discriminate]. injection Hts as <-.
      destruct (u32 (ea e) =? performed s); [|discriminate]. injection Hs as <-.
      apply (G_wait_perf s t tmo bq bt); auto. destruct ((1 <? s32 (ea e)) || (nz bt && nz bq)); auto.
    + (* PWaitOut *)
      destruct (r =? 0) eqn:R.
      * destruct (ev_is e DV_OR MO_RELAXED OFF_FLAGS && (eb e =? WAITED) && (esz e =? 4)); [|discriminate]. injection Hts as <-.
        destruct (Z.eqb_spec (ea e) (flags s)) as [Ea|]; [|discriminate]. injection Hs as <-. rewrite ?Ea.
        pose proof (G_wait_out s t r Hpc) as G. rewrite R in G. exact G.
      * destruct (ev_is e DV_AND MO_RELAXED OFF_FLAGS && (eb e =? NOT_WAITING) && (esz e =? 4)); [|discriminate].
        injection Hts as <-. destruct (Z.eqb_spec (ea e) (flags s)) as [Ea|]; [|discriminate]. injection Hs as <-. rewrite ?Ea.
        pose proof (G_wait_out s t r Hpc) as G. rewrite R in G. exact G.
    + (* PNotifyPerf *)
      destruct (ev_is e DV_LOAD MO_RELAXED OFF_PERF && (esz e =? 4)); [|discriminate]. injection Hts as <-.
      destruct (u32 (ea e) =? performed s); [|discriminate]. injection Hs as <-.
      apply G_notify_perf; auto. destruct (1 <? s32 (ea e)); auto.
Qed.

Ltac sf := cbn [flags performed queue thread hasgrp gcount pending pcs cancelled bodies fin ninv leaves nreg fcnt waiter
  qref hands set_pc set_flags set_perf set_queue set_thread set_run set_grp set_qref] in *.
Ltac unfx := unfold entry_fx, leave_fx, notify_fx, take_queue in *.

Lemma call_entry_cases op arg p : call_entry op arg = Some p ->
  p = PInvRead VDirect \/ p = PSubmit VSync \/ p = PSubmit VAsync \/ p = PCancel \/ p = PTestRead \/
  p = PWaitOr arg \/ p = PNotifyPerf.
Proof.
  unfold call_entry. intros H.
  repeat match type of H with (if ?c then _ else _) = _ => destruct c end; inversion H; tauto.
Qed.

(* ================= invariant A: flag bits, counters, the group count ================= *)
Definition tinvA (s : gst) (t : Z) : Prop :=
  match pcs s t with
  | PSetThread f | PBodyNext _ f | PInBody _ f => Z.testbit f 3 = negb (hasgrp s) /\ Z.testbit f 0 = false
  | PInc _ => 1 <= fin s /\ hasgrp s = true
  | PLeave _ => 1 <= ninv s /\ hasgrp s = true
  | _ => True
  end.
Definition InvA (s : gst) : Prop :=
  (cancelled s = true -> Z.testbit (flags s) 0 = true) /\
  Z.testbit (flags s) 3 = negb (hasgrp s) /\
  0 <= bodies s /\ 0 <= fin s /\ 0 <= ninv s /\ (1 <= ninv s -> 1 <= fin s) /\
  performed s = ninv s mod 4294967296 /\
  (if hasgrp s then gcount s + leaves s = 1 /\ 0 <= leaves s <= 1 /\ (leaves s = 1 -> 1 <= ninv s)
   else gcount s = 0 /\ leaves s = 0 /\ ninv s = 0) /\
  forall u, tinvA s u.

Lemma InvA_init pf : InvA (init_state pf).
Proof.
  unfold InvA, init_state, tinvA. cbn. repeat split; try lia; try discriminate.
  - destruct pf; reflexivity.
  - destruct pf; cbn; repeat split; lia.
Qed.

Lemma tinvA_other s s' t u : u <> t -> pcs s' u = pcs s u -> hasgrp s' = hasgrp s -> fin s <= fin s' ->
  ninv s <= ninv s' -> tinvA s u -> tinvA s' u.
Proof.
  unfold tinvA. intros _ -> -> Hf Hn. destruct (pcs s u); auto; intros [A B]; split; auto; lia.
Qed.

Lemma after_body_A (s : gst) v f (F : Z) : Z.testbit f 3 = negb (hasgrp s) -> 1 <= F ->
  match after_body v f with PInc _ => 1 <= F /\ hasgrp s = true | PSetThread _ | PBodyNext _ _ | PInBody _ _ => False
  | PLeave _ => False | _ => True end.
Proof.
  intros H HF. unfold after_body. rewrite hasb_P, H. destruct (hasgrp s); cbn; auto.
Qed.

Lemma InvA_step s t s' : gs s t s' -> InvA s -> InvA s'.
Proof.
  intros G (I1 & I2 & I3 & I4 & I5 & I6 & I7 & I8 & IT).
  pose proof (IT t) as It. unfold tinvA in It.
  (* the part of the proof common to every rule: threads other than t *)
  assert (OT : forall s2, hasgrp s2 = hasgrp s -> fin s <= fin s2 -> ninv s <= ninv s2 ->
               (forall u, u <> t -> pcs s2 u = pcs s u) -> forall u, u <> t -> tinvA s2 u).
  { intros s2 H1 H2 H3 H4 u Ne. apply (tinvA_other s s2 t u); auto. }
  destruct G.
  - (* call *) unfold InvA; sf. repeat split; auto.
    intros u. destruct (Z.eq_dec u t) as [->|Ne].
    + unfold tinvA; sf. rewrite upd_same.
      destruct (call_entry_cases _ _ _ H0) as [->|[->|[->|[->|[->|[->| ->]]]]]]; exact I.
    + apply OT; sf; auto; try lia. intros; apply upd_other; auto.
  - (* entry: the single read of the flags *)
    assert (Hp : pcs s t = PIdle \/ exists v, pcs s t = PInvRead v) by (destruct H as [[? _]|?]; eauto).
    unfold entry_fx. destruct (hasb (flags s) WAITED) eqn:HD.
    + unfold InvA; sf. repeat split; auto.
      intros u. destruct (Z.eq_dec u t) as [->|Ne].
      * unfold tinvA, inv_entry; sf. rewrite upd_same, HD. exact I.
      * apply OT; sf; auto; try lia. intros; apply upd_other; auto.
    + destruct (hasb (flags s) CANCELED) eqn:HC.
      * unfold InvA; sf. repeat split; auto; try lia.
        intros u. destruct (Z.eq_dec u t) as [->|Ne].
        -- unfold tinvA, inv_entry; sf. rewrite upd_same, HD, HC.
           assert (AB := after_body_A s v (flags s) (fin s + 1) I2 ltac:(lia)).
           destruct (after_body v (flags s)); try exact I; try contradiction; exact AB.
        -- apply OT; sf; auto; try lia. intros; apply upd_other; auto.
      * unfold InvA; sf. repeat split; auto.
        intros u. destruct (Z.eq_dec u t) as [->|Ne].
        -- unfold tinvA, inv_entry; sf. rewrite upd_same, HD, HC. rewrite hasb_C in HC.
           destruct v; split; auto.
        -- apply OT; sf; auto; try lia. intros; apply upd_other; auto.
  - (* ret *) unfold InvA; sf. repeat split; auto.
    intros u. destruct (Z.eq_dec u t) as [->|Ne]; [unfold tinvA; sf; rewrite upd_same; exact I|].
    apply OT; sf; auto; try lia. intros; apply upd_other; auto.
  - (* retain *) unfold InvA; sf. repeat split; auto.
    intros u. destruct (Z.eq_dec u t) as [->|Ne]; [unfold tinvA; sf; rewrite upd_same; exact I|].
    apply OT; sf; auto; try lia. intros; apply upd_other; auto.
  - (* cas ok *) unfold InvA; sf. repeat split; auto.
    intros u. destruct (Z.eq_dec u t) as [->|Ne]; [unfold tinvA; sf; rewrite upd_same; destruct v; exact I|].
    apply OT; sf; auto; try lia. intros; apply upd_other; auto.
  - (* cas fail *) unfold InvA; sf. repeat split; auto.
    intros u. destruct (Z.eq_dec u t) as [->|Ne]; [unfold tinvA; sf; rewrite upd_same; exact I|].
    apply OT; sf; auto; try lia. intros; apply upd_other; auto.
  - (* submit release *) unfold InvA; sf. repeat split; auto.
    intros u. destruct (Z.eq_dec u t) as [->|Ne]; [unfold tinvA; sf; rewrite upd_same; destruct v; exact I|].
    apply OT; sf; auto; try lia. intros; apply upd_other; auto.
  - (* set thread *) rewrite H in It. unfold InvA; sf. repeat split; auto.
    intros u. destruct (Z.eq_dec u t) as [->|Ne]; [unfold tinvA; sf; rewrite upd_same; exact It|].
    apply OT; sf; auto; try lia. intros; apply upd_other; auto.
  - (* body begins *) rewrite H in It. unfold InvA; sf. repeat split; auto; try lia.
    intros u. destruct (Z.eq_dec u t) as [->|Ne]; [unfold tinvA; sf; rewrite upd_same; exact It|].
    apply OT; sf; auto; try lia. intros; apply upd_other; auto.
  - (* body ends *) rewrite H in It. destruct It as [It1 It2]. unfold InvA; sf. repeat split; auto; try lia.
    intros u. destruct (Z.eq_dec u t) as [->|Ne].
    + unfold tinvA; sf. rewrite upd_same.
      assert (AB := after_body_A s v f (fin s + 1) It1 ltac:(lia)).
      destruct (after_body v f); try exact I; try contradiction; exact AB.
    + apply OT; sf; auto; try lia. intros; apply upd_other; auto.
  - (* inc *) rewrite H in It. destruct It as [It1 It2]. rewrite It2 in I8.
    unfold InvA; sf. rewrite It2. rewrite It2 in I2. repeat split; auto; try lia.
    + unfold wrapsz. change (2 ^ (8 * 4)) with 4294967296. rewrite I7. rewrite Zplus_mod_idemp_l. reflexivity.
    + intros u. destruct (Z.eq_dec u t) as [->|Ne].
      * unfold tinvA; sf. rewrite upd_same. destruct (wrapsz 4 (performed s + 1) =? 1); [split; auto; lia | exact I].
      * apply OT; sf; auto; try lia. intros; apply upd_other; auto.
  - (* leave *) rewrite H in It. destruct It as [It1 It2]. rewrite H0 in I8. destruct I8 as (G1 & G2 & G3).
    rewrite H0 in I2. unfold leave_fx; sf.
    destruct (gcount s - 1 =? 0); unfold InvA; sf; rewrite H0; (repeat split; auto; try lia);
      intros u; (destruct (Z.eq_dec u t) as [->|Ne]; [unfold tinvA; sf; rewrite upd_same; exact I|]);
      apply OT; sf; auto; try lia; intros; apply upd_other; auto.
  - (* leave on a zero count: crash *) unfold InvA; sf. repeat split; auto.
    intros u. destruct (Z.eq_dec u t) as [->|Ne]; [unfold tinvA; sf; rewrite upd_same; exact I|].
    apply OT; sf; auto; try lia. intros; apply upd_other; auto.
  - (* group noise *) unfold InvA; sf. repeat split; auto.
    intros u. destruct (Z.eq_dec u t) as [->|Ne].
    + unfold tinvA; sf. rewrite upd_same. exact It.
    + apply OT; sf; auto; try lia. intros; apply upd_other; auto.
  - (* direct: return *) unfold InvA; sf. repeat split; auto.
    intros u. destruct (Z.eq_dec u t) as [->|Ne]; [unfold tinvA; sf; rewrite upd_same; exact I|].
    apply OT; sf; auto; try lia. intros; apply upd_other; auto.
  - (* xchg of dbpd_queue after the completion *)
    unfold take_queue; sf.
    destruct (queue s =? 0); unfold InvA; sf; (repeat split; auto);
      intros u; (destruct (Z.eq_dec u t) as [->|Ne]; [unfold tinvA; sf; rewrite upd_same; destruct v; try exact I; contradiction|]);
      apply OT; sf; auto; try lia; intros; apply upd_other; auto.
  - (* release *) unfold InvA; sf. repeat split; auto.
    intros u. destruct (Z.eq_dec u t) as [->|Ne]; [unfold tinvA; sf; rewrite upd_same; destruct v; exact I|].
    apply OT; sf; auto; try lia. intros; apply upd_other; auto.
  - (* cancel *) unfold InvA; sf. repeat split; auto.
    + intros _. bits. reflexivity.
    + rewrite <- I2. bits. reflexivity.
    + intros u. destruct (Z.eq_dec u t) as [->|Ne]; [unfold tinvA; sf; rewrite upd_same; exact I|].
      apply OT; sf; auto; try lia. intros; apply upd_other; auto.
  - (* testcancel *) unfold InvA; sf. repeat split; auto.
    intros u. destruct (Z.eq_dec u t) as [->|Ne]; [unfold tinvA; sf; rewrite upd_same; exact I|].
    apply OT; sf; auto; try lia. intros; apply upd_other; auto.
  - (* wait: or-orig WAITING *) unfold InvA; sf. repeat split; auto.
    + intros C. specialize (I1 C). bits. exact I1.
    + rewrite <- I2. bits. reflexivity.
    + intros u. destruct (Z.eq_dec u t) as [->|Ne];
        [unfold tinvA; sf; rewrite upd_same; destruct (hasb (flags s) (Z.lor WAITED WAITING)); exact I|].
      apply OT; sf; auto; try lia. intros; apply upd_other; auto.
  - (* wait: xchg *) unfold take_queue; sf.
    destruct (queue s =? 0); unfold InvA; sf; (repeat split; auto);
      intros u; (destruct (Z.eq_dec u t) as [->|Ne]; [unfold tinvA; sf; rewrite upd_same; exact I|]);
      apply OT; sf; auto; try lia; intros; apply upd_other; auto.
  - (* wait: wake *) unfold InvA; sf. repeat split; auto.
    intros u. destruct (Z.eq_dec u t) as [->|Ne]; [unfold tinvA; sf; rewrite upd_same; exact I|].
    apply OT; sf; auto; try lia. intros; apply upd_other; auto.
  - (* wait: thread *) unfold InvA; sf. repeat split; auto.
    intros u. destruct (Z.eq_dec u t) as [->|Ne]; [unfold tinvA; sf; rewrite upd_same; exact I|].
    apply OT; sf; auto; try lia. intros; apply upd_other; auto.
  - (* wait: performed *) unfold InvA; sf. repeat split; auto.
    intros u. destruct (Z.eq_dec u t) as [->|Ne]; [unfold tinvA; sf; rewrite upd_same; destruct H0 as [-> | ->]; exact I|].
    apply OT; sf; auto; try lia. intros; apply upd_other; auto.
  - (* group wait returns 0 *) unfold InvA; sf. repeat split; auto.
    intros u. destruct (Z.eq_dec u t) as [->|Ne]; [unfold tinvA; sf; rewrite upd_same; exact I|].
    apply OT; sf; auto; try lia. intros; apply upd_other; auto.
  - (* group wait times out *) unfold InvA; sf. repeat split; auto.
    intros u. destruct (Z.eq_dec u t) as [->|Ne]; [unfold tinvA; sf; rewrite upd_same; exact I|].
    apply OT; sf; auto; try lia. intros; apply upd_other; auto.
  - (* wait: way out *) unfold InvA; sf. repeat split; auto.
    + intros C. specialize (I1 C). destruct (r =? 0); bits; exact I1.
    + rewrite <- I2. destruct (r =? 0); bits; reflexivity.
    + intros u. destruct (Z.eq_dec u t) as [->|Ne]; [unfold tinvA; sf; rewrite upd_same; exact I|].
      apply OT; sf; auto; try lia. intros; apply upd_other; auto.
  - (* notify: performed *) unfold InvA; sf. repeat split; auto.
    intros u. destruct (Z.eq_dec u t) as [->|Ne]; [unfold tinvA; sf; rewrite upd_same; destruct H0 as [-> | ->]; exact I|].
    apply OT; sf; auto; try lia. intros; apply upd_other; auto.
  - (* notify takes effect *) unfold notify_fx; sf.
    destruct (gcount s =? 0); unfold InvA; sf; (repeat split; auto);
      intros u; (destruct (Z.eq_dec u t) as [->|Ne]; [unfold tinvA; sf; rewrite upd_same; exact I|]);
      apply OT; sf; auto; try lia; intros; apply upd_other; auto.
Qed.

(* ================= invariant N: the notifications of the (abstract) private group ================= *)
Definition InvN (s : gst) : Prop :=
  0 <= nreg s /\ (forall i, 0 <= fcnt s i <= 1) /\
  (forall i, fcnt s i = 1 -> 0 <= i < nreg s /\ gcount s = 0) /\
  (forall i, In i (pending s) -> 0 <= i < nreg s /\ fcnt s i = 0) /\
  (forall i, 0 <= i < nreg s -> In i (pending s) \/ fcnt s i = 1) /\
  (gcount s = 0 -> pending s = []) /\
  (hasgrp s = false -> nreg s = 0).

Lemma InvN_init pf : InvN (init_state pf).
Proof. unfold InvN, init_state; cbn. repeat split; intros; try lia; try contradiction; discriminate. Qed.

Lemma InvN_ext s s' : nreg s' = nreg s -> fcnt s' = fcnt s -> pending s' = pending s -> gcount s' = gcount s ->
  hasgrp s' = hasgrp s -> InvN s -> InvN s'.
Proof. unfold InvN. intros -> -> -> -> ->. auto. Qed.

Lemma existsb_In i l : existsb (Z.eqb i) l = true <-> In i l.
Proof.
  rewrite existsb_exists. split.
  - intros (x & Hx & E). apply Z.eqb_eq in E. subst. exact Hx.
  - intros H. exists i. split; [exact H|apply Z.eqb_refl].
Qed.

Lemma InvN_step s t s' : gs s t s' -> InvN s -> InvN s'.
Proof.
  intros G N. pose proof N as (N0 & N1 & N2 & N3 & N4 & N5 & N6).
  destruct G; try (apply (InvN_ext s); [reflexivity..|exact N]);
    try (unfx; repeat match goal with |- context [if ?c then _ else _] => destruct c end;
         (apply (InvN_ext s); [reflexivity..|exact N])).
  - (* leave *)
    unfold leave_fx; sf. destruct (Z.eqb_spec (gcount s - 1) 0) as [C|C]; unfold InvN; sf.
    + assert (Hf : forall i, fire (pending s) (fcnt s) i = if existsb (Z.eqb i) (pending s) then fcnt s i + 1 else fcnt s i)
        by reflexivity.
      split; [exact N0|]. split; [|split; [|split; [|split; [|split; [|exact N6]]]]].
      * intros i. rewrite Hf. destruct (existsb (Z.eqb i) (pending s)) eqn:E; [|apply N1].
        apply existsb_In in E. destruct (N3 i E) as [_ Z0]. lia.
      * intros i. rewrite Hf. destruct (existsb (Z.eqb i) (pending s)) eqn:E; intros F1.
        -- apply existsb_In in E. destruct (N3 i E) as [R _]. split; [exact R|exact C].
        -- destruct (N2 i F1) as [R _]. split; [exact R|exact C].
      * intros i [].
      * intros i R. right. rewrite Hf. destruct (existsb (Z.eqb i) (pending s)) eqn:E.
        -- apply existsb_In in E. destruct (N3 i E) as [_ Z0]. lia.
        -- destruct (N4 i R) as [X|X]; [|exact X]. apply existsb_In in X. congruence.
      * reflexivity.
    + split; [exact N0|]. split; [exact N1|]. split; [|split; [exact N3|split; [exact N4|split; [|exact N6]]]].
      * intros i F1. destruct (N2 i F1) as [_ X]. contradiction.
      * intros X. contradiction.
  - (* notify takes effect *)
    assert (F0 : fcnt s (nreg s) = 0).
    { pose proof (N1 (nreg s)) as B. destruct (Z.eq_dec (fcnt s (nreg s)) 1) as [E|E]; [|lia].
      destruct (N2 _ E) as [R _]. lia. }
    unfold notify_fx; sf. destruct (Z.eqb_spec (gcount s) 0) as [C|C]; unfold InvN; sf.
    + split; [lia|]. split; [|split; [|split; [|split; [|split; [|intros X; congruence]]]]].
      * intros i. destruct (Z.eq_dec i (nreg s)) as [->|Ne]; [rewrite upd_same; lia | rewrite upd_other by exact Ne; apply N1].
      * intros i. destruct (Z.eq_dec i (nreg s)) as [->|Ne].
        -- intros _. split; [lia|exact C].
        -- rewrite upd_other by exact Ne. intros F1. destruct (N2 i F1) as [R X]. split; [lia|exact X].
      * rewrite (N5 C). intros i [].
      * intros i R. right. destruct (Z.eq_dec i (nreg s)) as [->|Ne]; [rewrite upd_same; lia|].
        rewrite upd_other by exact Ne. destruct (N4 i ltac:(lia)) as [X|X]; [|exact X]. rewrite (N5 C) in X. destruct X.
      * exact N5.
    + split; [lia|]. split; [exact N1|]. split; [|split; [|split; [|split; [|intros X; congruence]]]].
      * intros i F1. destruct (N2 i F1) as [_ X]. contradiction.
      * intros i [<-|X]; [split; [lia|exact F0]|]. destruct (N3 i X) as [R Z0]. split; [lia|exact Z0].
      * intros i R. destruct (Z.eq_dec i (nreg s)) as [->|Ne]; [left; left; reflexivity|].
        destruct (N4 i ltac:(lia)) as [X|X]; [left; right; exact X | right; exact X].
      * intros X. contradiction.
Qed.

(* ================= invariant W: DBF_WAITING / DBF_WAITED and the (single) waiter ================= *)
Definition in_wait (p : pc) : bool :=
  match p with
  | PWaitXchg _ | PWaitWake _ _ | PWaitThread _ _ | PWaitPerf _ _ _ | PWaitG _ | PWaitOut _ => true
  | _ => false
  end.
Definition tinvW (s : gst) (t : Z) : Prop :=
  (in_wait (pcs s t) = true -> waiter s = Some t) /\
  (pcs s t = PWaitOut 0 -> gcount s = 0 /\ hasgrp s = true) /\
  (forall r, pcs s t = PWaitOut r -> r = 0 \/ r = 1).
Definition InvW (s : gst) : Prop :=
  (Z.testbit (flags s) 1 = true <-> (waiter s <> None \/ Z.testbit (flags s) 2 = true)) /\
  (Z.testbit (flags s) 2 = true -> gcount s = 0 /\ hasgrp s = true /\ waiter s = None) /\
  (forall w, waiter s = Some w -> in_wait (pcs s w) = true \/ pcs s w = PCrash) /\
  forall u, tinvW s u.

Lemma InvW_init pf : InvW (init_state pf).
Proof.
  unfold InvW. split; [|split; [|split]].
  - unfold init_state; destruct pf; cbn; (split; [discriminate|intros [X|X]; [contradiction|discriminate]]).
  - unfold init_state; destruct pf; cbn; discriminate.
  - unfold init_state; cbn. discriminate.
  - intros u. unfold tinvW, init_state; cbn. repeat split; intros; discriminate.
Qed.

Lemma tinvW_notwait s t : in_wait (pcs s t) = false -> tinvW s t.
Proof.
  intros H. unfold tinvW. split; [rewrite H; discriminate|]. split.
  - intros X. rewrite X in H. discriminate.
  - intros r X. rewrite X in H. discriminate.
Qed.

Lemma tinvW_other s s' t u : u <> t -> pcs s' u = pcs s u -> hasgrp s' = hasgrp s -> (gcount s = 0 -> gcount s' = 0) ->
  (waiter s' = waiter s \/ waiter s = None \/ waiter s = Some t) -> tinvW s u -> tinvW s' u.
Proof.
  unfold tinvW. intros Ne -> -> Hg Hw (A & B & C). split; [|split; [|exact C]].
  - intros X. specialize (A X). destruct Hw as [E|[E|E]]; congruence.
  - intros X. destruct (B X). auto.
Qed.

Lemma in_wait_inv_entry v f : in_wait (inv_entry v f) = false.
Proof. unfold inv_entry, after_body. destruct (hasb f WAITED), (hasb f CANCELED), (hasb f PERFORM), v; reflexivity. Qed.
Lemma in_wait_after_body v f : in_wait (after_body v f) = false.
Proof. unfold after_body. destruct (hasb f PERFORM); reflexivity. Qed.

(* a thread outside dispatch_block_wait moves: waiter untouched, bits 1 and 2 of the flags untouched *)
Lemma InvW_local s t s' : InvW s -> in_wait (pcs s t) = false -> pcs s t <> PCrash ->
  (flags s' = flags s \/ flags s' = Z.lor (flags s) CANCELED) -> waiter s' = waiter s -> hasgrp s' = hasgrp s ->
  (gcount s = 0 -> gcount s' = 0) -> (forall u, u <> t -> pcs s' u = pcs s u) -> in_wait (pcs s' t) = false ->
  InvW s'.
Proof.
  intros (W1 & W2 & W3 & WT) Hnw Hnc Hf Hw Hh Hg Hp Hnw'.
  assert (B1 : Z.testbit (flags s') 1 = Z.testbit (flags s) 1) by (destruct Hf as [-> | ->]; bits; reflexivity).
  assert (B2 : Z.testbit (flags s') 2 = Z.testbit (flags s) 2) by (destruct Hf as [-> | ->]; bits; reflexivity).
  unfold InvW. rewrite B1, B2, Hw, Hh. split; [exact W1|]. split; [|split].
  - intros X. destruct (W2 X) as (? & ? & ?). auto.
  - intros w E. destruct (Z.eq_dec w t) as [->|Ne].
    + exfalso. destruct (W3 t E) as [X|X]; congruence.
    + rewrite (Hp w Ne). exact (W3 w E).
  - intros u. destruct (Z.eq_dec u t) as [->|Ne]; [apply tinvW_notwait; exact Hnw'|].
    apply (tinvW_other s s' t u); auto.
Qed.

(* a thread inside dispatch_block_wait moves to another point inside it (or crashes): nothing but its pc changes *)
Lemma InvW_inside s t p : InvW s -> in_wait (pcs s t) = true -> (in_wait p = true \/ p = PCrash) ->
  (p = PWaitOut 0 -> gcount s = 0 /\ hasgrp s = true) -> (forall r, p = PWaitOut r -> r = 0 \/ r = 1) ->
  InvW (set_pc s t p).
Proof.
  intros (W1 & W2 & W3 & WT) Hin Hp H0 Hr. pose proof (WT t) as (T1 & _ & _). specialize (T1 Hin).
  unfold InvW; sf. split; [exact W1|]. split; [exact W2|]. split.
  - intros w E. destruct (Z.eq_dec w t) as [->|Ne]; [rewrite upd_same; exact Hp|].
    rewrite upd_other by exact Ne. exact (W3 w E).
  - intros u. destruct (Z.eq_dec u t) as [->|Ne].
    + unfold tinvW; sf. rewrite upd_same. split; [intros _; exact T1|]. split; [exact H0|exact Hr].
    + apply (tinvW_other s _ t u); sf; auto. apply upd_other; exact Ne.
Qed.
(* ... the same when queue / qref / hands change too *)
Lemma InvW_fields s s' : flags s' = flags s -> waiter s' = waiter s -> gcount s' = gcount s -> hasgrp s' = hasgrp s ->
  pcs s' = pcs s -> InvW s -> InvW s'.
Proof. unfold InvW, tinvW. intros -> -> -> -> ->. auto. Qed.

Ltac wlocal s t W Hpc :=
  apply (InvW_local s t _ W); sf;
  [ rewrite Hpc; reflexivity | rewrite Hpc; discriminate | auto | reflexivity | reflexivity | auto
  | intros ? ?; apply upd_other; assumption | rewrite upd_same ].

Lemma InvW_step s t s' : gs s t s' -> InvW s -> InvW s'.
Proof.
  intros G W. pose proof W as (W1 & W2 & W3 & WT). pose proof (WT t) as (T1 & T2 & T3).
  destruct G.
  - (* call *) wlocal s t W H.
    destruct (call_entry_cases _ _ _ H0) as [->|[->|[->|[->|[->|[->| ->]]]]]]; reflexivity.
  - (* entry *)
    assert (Hnw : in_wait (pcs s t) = false) by (destruct H as [[-> _]| ->]; reflexivity).
    assert (Hnc : pcs s t <> PCrash) by (destruct H as [[-> _]| ->]; discriminate).
    unfold entry_fx. destruct (hasb (flags s) WAITED); [|destruct (hasb (flags s) CANCELED)];
      apply (InvW_local s t _ W Hnw Hnc); sf; auto; try (intros ? ?; apply upd_other; assumption);
      rewrite upd_same; apply in_wait_inv_entry.
  - wlocal s t W H. reflexivity.
  - wlocal s t W H. reflexivity.
  - wlocal s t W H. destruct v; reflexivity.
  - wlocal s t W H. reflexivity.
  - wlocal s t W H. destruct v; reflexivity.
  - wlocal s t W H. reflexivity.
  - wlocal s t W H. reflexivity.
  - wlocal s t W H. apply in_wait_after_body.
  - wlocal s t W H. destruct (wrapsz 4 (performed s + 1) =? 1); reflexivity.
  - (* leave *)
    unfold leave_fx; sf. destruct (gcount s - 1 =? 0); apply (InvW_local s t _ W); sf; auto;
      try (rewrite H; reflexivity); try (rewrite H; discriminate); try (intros X; contradiction);
      try (intros ? ?; apply upd_other; assumption); rewrite upd_same; reflexivity.
  - wlocal s t W H. reflexivity.
  - (* group noise: the pc does not change *)
    destruct H as [[v Hv]|[[tmo Hv]| Hv]].
    + wlocal s t W Hv. rewrite Hv. reflexivity.
    + apply InvW_inside; auto; rewrite Hv; auto; try discriminate; try (intros r X; discriminate X).
    + wlocal s t W Hv. rewrite Hv. reflexivity.
  - wlocal s t W H. reflexivity.
  - (* xchg after the completion *)
    unfold take_queue; sf. destruct (queue s =? 0); apply (InvW_local s t _ W); sf; auto;
      try (rewrite H; reflexivity); try (rewrite H; discriminate);
      try (intros ? ?; apply upd_other; assumption); rewrite upd_same; destruct v; reflexivity.
  - wlocal s t W H. destruct v; reflexivity.
  - (* cancel *) wlocal s t W H. reflexivity.
  - wlocal s t W H. reflexivity.
  - (* wait: or-orig of DBF_WAITING *)
    rewrite hasb_DW. destruct (Z.testbit (flags s) 2 || Z.testbit (flags s) 1) eqn:B.
    + (* already waiting / waited: crash; the or changes nothing *)
      assert (B1 : Z.testbit (flags s) 1 = true).
      { destruct (Z.testbit (flags s) 1) eqn:X; [reflexivity|]. rewrite orb_false_r in B. apply W1. right. exact B. }
      unfold InvW; sf. split; [|split; [|split]].
      * bits. split; [intros _; apply W1; exact B1 | reflexivity].
      * bits. exact W2.
      * intros w E. destruct (Z.eq_dec w t) as [->|Ne]; [rewrite upd_same; right; reflexivity|].
        rewrite upd_other by exact Ne. exact (W3 w E).
      * intros u. destruct (Z.eq_dec u t) as [->|Ne]; [apply tinvW_notwait; sf; rewrite upd_same; reflexivity|].
        apply (tinvW_other s _ t u); sf; auto. apply upd_other; exact Ne.
    + apply orb_false_iff in B as [B2 B1].
      assert (WN : waiter s = None).
      { destruct (waiter s) eqn:E; [|reflexivity]. exfalso.
        assert (X : Z.testbit (flags s) 1 = true) by (apply W1; left; discriminate). congruence. }
      unfold InvW; sf. split; [|split; [|split]].
      * bits. split; [intros _; left; discriminate | reflexivity].
      * bits. rewrite B2. discriminate.
      * intros w E. injection E as <-. rewrite upd_same. left. reflexivity.
      * intros u. destruct (Z.eq_dec u t) as [->|Ne].
        -- unfold tinvW; sf. rewrite upd_same. split; [reflexivity|]. split; [discriminate|intros r X; discriminate X].
        -- apply (tinvW_other s _ t u); sf; auto. apply upd_other; exact Ne.
  - (* wait: xchg *)
    assert (Hin : in_wait (pcs s t) = true) by (rewrite H; reflexivity).
    unfold take_queue; sf.
    destruct (queue s =? 0).
    + apply (InvW_inside s t _ W Hin); [left; reflexivity | discriminate | intros r X; discriminate X].
    + apply (InvW_fields (set_pc s t (PWaitWake tmo (queue s)))); try reflexivity.
      apply (InvW_inside s t _ W Hin); [left; reflexivity | discriminate | intros r X; discriminate X].
  - (* wait: wake *)
    assert (Hin : in_wait (pcs s t) = true) by (rewrite H; reflexivity).
    apply (InvW_fields (set_pc s t (PWaitThread tmo bq))); try reflexivity.
    apply (InvW_inside s t _ W Hin); [left; reflexivity | discriminate | intros r X; discriminate X].
  - apply InvW_inside; auto; [rewrite H; reflexivity | discriminate | intros r X; discriminate X].
  - apply InvW_inside; auto; [rewrite H; reflexivity | destruct H0 as [-> | ->]; auto | destruct H0 as [-> | ->]; discriminate
                             | intros r X; destruct H0 as [-> | ->]; discriminate X].
  - (* group wait returns 0 *)
    apply InvW_inside; auto; [rewrite H; reflexivity | intros r X; injection X as <-; auto].
  - (* group wait times out *)
    apply InvW_inside; auto; [rewrite H; reflexivity | discriminate | intros r X; injection X as <-; auto].
  - (* wait: way out *)
    assert (Hin : in_wait (pcs s t) = true) by (rewrite H; reflexivity).
    specialize (T1 Hin).
    assert (B1 : Z.testbit (flags s) 1 = true) by (apply W1; left; congruence).
    assert (B2 : Z.testbit (flags s) 2 = false).
    { destruct (Z.testbit (flags s) 2) eqn:X; [|reflexivity]. destruct (W2 eq_refl) as (_ & _ & WN). congruence. }
    destruct (T3 r H) as [-> | ->]; cbn [Z.eqb].
    + (* success: or DBF_WAITED *)
      destruct (T2 H) as [G0 Hh].
      unfold InvW; sf. split; [|split; [|split]].
      * bits. rewrite B1. split; [intros _; right; reflexivity | reflexivity].
      * intros _. auto.
      * discriminate.
      * intros u. destruct (Z.eq_dec u t) as [->|Ne]; [apply tinvW_notwait; sf; rewrite upd_same; reflexivity|].
        apply (tinvW_other s _ t u); sf; auto. apply upd_other; exact Ne.
    + (* timeout: and ~DBF_WAITING *)
      unfold InvW; sf. split; [|split; [|split]].
      * bits. rewrite B2. split; [discriminate | intros [X|X]; [contradiction|discriminate]].
      * bits. rewrite B2. discriminate.
      * discriminate.
      * intros u. destruct (Z.eq_dec u t) as [->|Ne]; [apply tinvW_notwait; sf; rewrite upd_same; reflexivity|].
        apply (tinvW_other s _ t u); sf; auto. apply upd_other; exact Ne.
  - wlocal s t W H. destruct H0 as [-> | ->]; reflexivity.
  - (* notify takes effect *)
    unfold notify_fx; sf. destruct (gcount s =? 0); apply (InvW_local s t _ W); sf; auto;
      try (rewrite H; reflexivity); try (rewrite H; discriminate);
      try (intros ? ?; apply upd_other; assumption); rewrite upd_same; reflexivity.
Qed.

(* ================= invariant Q: the references taken on the target queue for dbpd_queue ================= *)
Lemma rm_In x t l : In x (rm t l) <-> In x l /\ x <> t.
Proof.
  unfold rm. split.
  - intros H. apply in_remove in H. exact H.
  - intros [H Ne]. apply in_in_remove; assumption.
Qed.
Lemma rm_NoDup t l : NoDup l -> NoDup (rm t l).
Proof.
  unfold rm. induction 1 as [|x l Hx Hl IH]; cbn; [constructor|].
  destruct (Z.eq_dec t x); [exact IH|]. constructor; [|exact IH].
  intros X. apply in_remove in X. tauto.
Qed.
Lemma rm_notin t l : ~ In t l -> rm t l = l.
Proof. unfold rm. intros H. apply notin_remove. exact H. Qed.
Lemma rm_length t l : NoDup l -> In t l -> Z.of_nat (length (rm t l)) = Z.of_nat (length l) - 1.
Proof.
  unfold rm. induction 1 as [|x l Hx Hl IH]; cbn [remove In length]; [intros []|].
  intros [->|Ht].
  - destruct (Z.eq_dec t t); [|contradiction]. fold (rm t l). rewrite (rm_notin t l Hx). lia.
  - destruct (Z.eq_dec t x) as [->|Ne]; [contradiction|]. cbn [length]. specialize (IH Ht). lia.
Qed.

Definition holds (p : pc) : bool :=
  match p with PSubmitCas _ | PSubmitRel _ | PRel _ | PWaitWake _ _ => true | _ => false end.
Definition InvQ (s : gst) : Prop :=
  qref s = 2 * ((if queue s =? 0 then 0 else 1) + Z.of_nat (length (hands s))) /\
  NoDup (hands s) /\ forall u, In u (hands s) <-> holds (pcs s u) = true.

Lemma InvQ_init pf : InvQ (init_state pf).
Proof. unfold InvQ, init_state; cbn. repeat split; try constructor; intros; try contradiction; discriminate. Qed.

(* a thread that holds no references moves to a point where it holds none *)
Lemma InvQ_local s t s' : InvQ s -> holds (pcs s t) = false -> holds (pcs s' t) = false ->
  qref s' = qref s -> queue s' = queue s -> hands s' = hands s -> (forall u, u <> t -> pcs s' u = pcs s u) -> InvQ s'.
Proof.
  intros (Q1 & Q2 & Q3) H1 H2 Hq Hu Hh Hp. unfold InvQ. rewrite Hq, Hu, Hh. split; [exact Q1|]. split; [exact Q2|].
  intros u. destruct (Z.eq_dec u t) as [->|Ne].
  - rewrite H2. rewrite (Q3 t), H1. tauto.
  - rewrite (Hp u Ne). apply Q3.
Qed.
(* a thread takes a pair of references in hand *)
Lemma InvQ_take s t s' : InvQ s -> holds (pcs s t) = false -> holds (pcs s' t) = true -> hands s' = t :: hands s ->
  qref s' = 2 * ((if queue s' =? 0 then 0 else 1) + Z.of_nat (length (hands s)) + 1) ->
  (forall u, u <> t -> pcs s' u = pcs s u) -> InvQ s'.
Proof.
  intros (Q1 & Q2 & Q3) H1 H2 Hh Hq Hp.
  assert (Nt : ~ In t (hands s)) by (rewrite (Q3 t), H1; discriminate).
  unfold InvQ. rewrite Hh. split; [|split].
  - rewrite Hq. cbn [length]. lia.
  - constructor; assumption.
  - intros u. destruct (Z.eq_dec u t) as [->|Ne].
    + rewrite H2. split; [reflexivity|intros _; left; reflexivity].
    + rewrite (Hp u Ne). rewrite <- (Q3 u). split; [intros [X|X]; [congruence|exact X] | intros X; right; exact X].
Qed.
(* a thread gives its pair of references away (to the slot, or back to the queue) *)
Lemma InvQ_give s t s' : InvQ s -> holds (pcs s t) = true -> holds (pcs s' t) = false -> hands s' = rm t (hands s) ->
  qref s' = 2 * ((if queue s' =? 0 then 0 else 1) + Z.of_nat (length (hands s)) - 1) ->
  (forall u, u <> t -> pcs s' u = pcs s u) -> InvQ s'.
Proof.
  intros (Q1 & Q2 & Q3) H1 H2 Hh Hq Hp.
  assert (It : In t (hands s)) by (rewrite (Q3 t); exact H1).
  unfold InvQ. rewrite Hh. split; [|split].
  - rewrite Hq. rewrite (rm_length t _ Q2 It). lia.
  - apply rm_NoDup. exact Q2.
  - intros u. rewrite rm_In. destruct (Z.eq_dec u t) as [->|Ne].
    + rewrite H2. split; [intros [_ X]; contradiction|discriminate].
    + rewrite (Hp u Ne). rewrite <- (Q3 u). tauto.
Qed.

Lemma holds_inv_entry v f : holds (inv_entry v f) = false.
Proof. unfold inv_entry, after_body. destruct (hasb f WAITED), (hasb f CANCELED), (hasb f PERFORM), v; reflexivity. Qed.
Lemma holds_after_body v f : holds (after_body v f) = false.
Proof. unfold after_body. destruct (hasb f PERFORM); reflexivity. Qed.

Ltac qlocal s t Q Hpc :=
  apply (InvQ_local s t _ Q); sf;
  [ rewrite Hpc; reflexivity | rewrite upd_same | reflexivity | reflexivity | reflexivity
  | intros ? ?; apply upd_other; assumption ].

Lemma InvQ_step s t s' : gs s t s' -> InvQ s -> InvQ s'.
Proof.
  intros G Q. pose proof Q as (Q1 & Q2 & Q3).
  destruct G.
  - qlocal s t Q H. destruct (call_entry_cases _ _ _ H0) as [->|[->|[->|[->|[->|[->| ->]]]]]]; reflexivity.
  - assert (Hh : holds (pcs s t) = false) by (destruct H as [[-> _]| ->]; reflexivity).
    unfold entry_fx. destruct (hasb (flags s) WAITED); [|destruct (hasb (flags s) CANCELED)];
      apply (InvQ_local s t _ Q Hh); sf; auto; try (intros ? ?; apply upd_other; assumption);
      rewrite upd_same; apply holds_inv_entry.
  - qlocal s t Q H. reflexivity.
  - (* retain *)
    apply (InvQ_take s t _ Q); sf; auto; [rewrite H; reflexivity | rewrite upd_same; reflexivity | rewrite Q1; lia
                                        | intros ? ?; apply upd_other; assumption].
  - (* cas ok: the references go to the slot *)
    apply (InvQ_give s t _ Q); sf; auto; [rewrite H; reflexivity | rewrite upd_same; destruct v; reflexivity | 
                                        | intros ? ?; apply upd_other; assumption].
    rewrite Q1, H0. destruct (Z.eqb_spec dq 0); [contradiction|]. cbn [Z.eqb]. lia.
  - (* cas failed: keeps them in hand *)
    destruct Q as (_ & _ & _). split; [exact Q1|]. split; [exact Q2|]. sf.
    intros u. destruct (Z.eq_dec u t) as [->|Ne].
    + rewrite upd_same. rewrite (Q3 t), H. reflexivity.
    + rewrite upd_other by exact Ne. apply Q3.
  - apply (InvQ_give s t _ Q); sf; auto; [rewrite H; reflexivity | rewrite upd_same; destruct v; reflexivity | rewrite Q1; lia
                                        | intros ? ?; apply upd_other; assumption].
  - qlocal s t Q H. reflexivity.
  - qlocal s t Q H. reflexivity.
  - qlocal s t Q H. apply holds_after_body.
  - qlocal s t Q H. destruct (wrapsz 4 (performed s + 1) =? 1); reflexivity.
  - unfold leave_fx; sf. destruct (gcount s - 1 =? 0); apply (InvQ_local s t _ Q); sf; auto;
      try (rewrite H; reflexivity); try (intros ? ?; apply upd_other; assumption); rewrite upd_same; reflexivity.
  - qlocal s t Q H. reflexivity.
  - (* group noise *)
    assert (Hh : holds (pcs s t) = false) by (destruct H as [[v Hv]|[[tmo Hv]| Hv]]; rewrite Hv; reflexivity).
    apply (InvQ_local s t _ Q Hh); sf; auto; [rewrite upd_same; exact Hh | intros ? ?; apply upd_other; assumption].
  - qlocal s t Q H. reflexivity.
  - (* xchg after the completion *)
    unfold take_queue; sf. destruct (Z.eqb_spec (queue s) 0) as [Q0|Q0].
    + apply (InvQ_local s t _ Q); sf; auto; [rewrite H; reflexivity | rewrite upd_same; destruct v; reflexivity
                                            | intros ? ?; apply upd_other; assumption].
    + apply (InvQ_take s t _ Q); sf; auto; [rewrite H; reflexivity | rewrite upd_same; reflexivity | 
                                          | intros ? ?; apply upd_other; assumption].
      rewrite Q1. destruct (Z.eqb_spec (queue s) 0); [contradiction|]. cbn [Z.eqb]. lia.
  - apply (InvQ_give s t _ Q); sf; auto; [rewrite H; reflexivity | rewrite upd_same; destruct v; reflexivity | rewrite Q1; lia
                                        | intros ? ?; apply upd_other; assumption].
  - qlocal s t Q H. reflexivity.
  - qlocal s t Q H. reflexivity.
  - qlocal s t Q H. destruct (hasb (flags s) (Z.lor WAITED WAITING)); reflexivity.
  - (* wait: xchg *)
    unfold take_queue; sf. destruct (Z.eqb_spec (queue s) 0) as [Q0|Q0].
    + apply (InvQ_local s t _ Q); sf; auto; [rewrite H; reflexivity | rewrite upd_same; reflexivity
                                            | intros ? ?; apply upd_other; assumption].
    + apply (InvQ_take s t _ Q); sf; auto; [rewrite H; reflexivity | rewrite upd_same; reflexivity | 
                                          | intros ? ?; apply upd_other; assumption].
      rewrite Q1. destruct (Z.eqb_spec (queue s) 0); [contradiction|]. cbn [Z.eqb]. lia.
  - apply (InvQ_give s t _ Q); sf; auto; [rewrite H; reflexivity | rewrite upd_same; reflexivity | rewrite Q1; lia
                                        | intros ? ?; apply upd_other; assumption].
  - qlocal s t Q H. reflexivity.
  - qlocal s t Q H. destruct H0 as [-> | ->]; reflexivity.
  - qlocal s t Q H. reflexivity.
  - qlocal s t Q H. reflexivity.
  - qlocal s t Q H. reflexivity.
  - qlocal s t Q H. destruct H0 as [-> | ->]; reflexivity.
  - unfold notify_fx; sf. destruct (gcount s =? 0); apply (InvQ_local s t _ Q); sf; auto;
      try (rewrite H; reflexivity); try (intros ? ?; apply upd_other; assumption); rewrite upd_same; reflexivity.
Qed.
